(** Correspondence check for C13 (redirect routes). *)
From Coq Require Import String List NArith ZArith Bool.
From Fabio Require Import Lib.Outcome Lib.Bytes Lib.Verdict Model.Redirect Model.RedirectSpec.
Import ListNotations.
Local Open Scope N_scope.

(* the fields of RedirectURL that are observable: Scheme/Host/Path decide the self-redirect
   test of Table.Lookup; RawPath and RawQuery only matter through String(), which is compared
   as a whole (so a repair that fills RawPath differently is not a disagreement) *)
Definition url_eqb (a b : url) : bool :=
  beq (u_scheme a) (u_scheme b) && beq (u_host a) (u_host b) && beq (u_path a) (u_path b).

Definition response_eqb (a b : response) : bool :=
  match a, b with
  | RNoRoute, RNoRoute => true
  | RRedirect c l, RRedirect c' l' => (c =? c')%Z && beq l l'
  | RBadCode c, RBadCode c' => (c =? c')%Z
  | RProxy i, RProxy j => Nat.eqb i j
  | _, _ => false
  end.

(* Locations compared up to percent-decoding: who answers, with which status, pointing where.
   The exact text of a Location is judged by the CBuild cases (and finding F-C13-1). *)
Definition loc_equiv (a b : str) : bool :=
  match unescape_path a, unescape_path b with
  | Some x, Some y => beq x y
  | _, _ => beq a b
  end.
Definition response_equiv (a b : response) : bool :=
  match a, b with
  | RRedirect c l, RRedirect c' l' => (c =? c')%Z && loc_equiv l l'
  | _, _ => response_eqb a b
  end.
Definition any_adjacent_raw (q : request) (ts : list target) : bool :=
  existsb (fun t => negb (t_code t =? 0)%Z && region_adjacent_raw t q) ts.

Definition opt_pair_eqb (a b : option (str * str)) : bool :=
  match a, b with
  | Some (x, y), Some (x', y') => beq x x' && beq y y'
  | None, None => true
  | _, _ => false
  end.

Inductive case :=
(* Target.BuildRedirectURL(req.URL) then RedirectURL.String() on the real code.
   [wire]: the path as written on the request line; [q]'s Path/RawPath are what
   url.ParseRequestURI made of it (checked against [set_path]). *)
| CBuild (t : target) (wire : str) (q : request) (impl : url) (impl_str : str)
(* opts "redirect=<opt>" through route.NewTable: the target's RedirectCode *)
| CCode (opt : str) (impl : Z)
(* HTTPProxy.ServeHTTP over the real Table.Lookup: [cands] = the targets Table.lookup
   yields per host in visiting order; observables: response and upstream hit count *)
| CServe (cands : list (option target)) (q : request) (impl : response) (hits : nat)
(* two requests for the same redirect target, forced schedule Lookup A, Lookup B,
   serve A, serve B on the real HTTPProxy *)
| CSched (t : target) (qa qb : request) (la lb : response).

Definition check_case (c : case) : N :=
  match c with
  | CBuild t wire q impl impl_str =>
      let m := build_redirect_url t q in
      let same := url_eqb impl m && beq impl_str (url_string m)
                  && opt_pair_eqb (set_path wire) (Some (q_path q, q_rawpath q)) in
      let dom := tmpl_dom t && req_dom t wire q in
      let spec := negb dom || beq impl_str (expected_location t wire q) in
      let region := if region_adjacent_raw t q then Some 1 else None in
      let nontriv := dom && match path_pat t with Some _ => true | None => false end in
      verdict same spec region nontriv
  | CCode opt impl =>
      let same := (impl =? redirect_code opt)%Z in
      let three := match opt with [51; a; b] => is_digit a && is_digit b | _ => false end in
      let spec := ((impl =? 0)%Z || code_ok impl)
                  && (if three then (impl =? digits_val 0%Z opt)%Z else true) in
      let region := if code_overflows opt then Some 4 else None in
      verdict same spec region (negb (impl =? 0)%Z)
  | CServe cands q impl hits =>
      let m := fst (handle q cands []) in
      let same := response_eqb impl m && Nat.eqb hits (upstream_calls m) in
      let spec := response_equiv impl (ref_response q cands)
                  && Nat.eqb hits (match impl with RProxy _ => 1 | _ => 0 end)
                  && match impl with RRedirect c _ => code_ok c | RBadCode _ => false | _ => true end in
      let region := if region_bad_code cands then Some 4
                    else if region_no_xfp q cands then Some 3
                    else if region_last_skipped q cands then Some 2
                    else if any_adjacent_raw q (somes cands) then Some 1 else None in
      let nontriv := match m with RRedirect _ _ => true | _ => Nat.ltb 1 (length cands) end in
      verdict same spec region nontriv
  | CSched t qa qb la lb =>
      let reqs := [(qa, [Some t]); (qb, [Some t])] in
      let w := run_sched reqs [ALookup 0; ALookup 1; AServe 0; AServe 1] world0 in
      let same := match w_out w with
                  | [(1%nat, mb); (0%nat, ma)] => response_equiv la ma && response_equiv lb mb
                  | _ => false
                  end in
      let own_a := fst (handle qa [Some t] []) in
      let own_b := fst (handle qb [Some t] []) in
      let spec := response_equiv la own_a && response_equiv lb own_b in
      let region := if negb (response_equiv own_a own_b) then Some 5 else None in
      verdict same spec region (negb (response_equiv own_a own_b))
  end.
