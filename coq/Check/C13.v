(** Correspondence check for C13 (redirect routes). *)
From Coq Require Import String List NArith ZArith Bool.
From Fabio Require Import Lib.Outcome Lib.Bytes Lib.Verdict Model.Redirect Model.RedirectSpec Model.RedirectTag Model.RedirectProto Model.RedirectNoGlob.
Import ListNotations.
Local Open Scope N_scope.

Definition url_eqb (a b : url) : bool :=
  beq (u_scheme a) (u_scheme b) && beq (u_host a) (u_host b) && beq (u_path a) (u_path b)
  && beq (u_rawpath a) (u_rawpath b) && beq (u_query a) (u_query b).

Definition response_eqb (a b : response) : bool :=
  match a, b with
  | RNoRoute, RNoRoute => true
  | RRedirect c l, RRedirect c' l' => (c =? c')%Z && beq l l'
  | RBadCode c, RBadCode c' => (c =? c')%Z
  | RProxy i, RProxy j => Nat.eqb i j
  | _, _ => false
  end.

(* the same URL up to percent-decoding (only used for requests outside [req_dom0]) *)
Definition loc_equiv (a b : str) : bool :=
  match unescape_path a, unescape_path b with
  | Some x, Some y => beq x y
  | _, _ => beq a b
  end.

Definition opt_pair_eqb (a b : option (str * str)) : bool :=
  match a, b with
  | Some (x, y), Some (x', y') => beq x x' && beq y y'
  | None, None => true
  | _, _ => false
  end.

Inductive case :=
(* Target.BuildRedirectURL(req.URL) then RedirectURL.String() on the real code.
   [wire]: the path as written on the request line; [q]'s Path/RawPath are what
   url.ParseRequestURI made of it (checked against [set_path]). *)
| CBuild (t : target) (wire : str) (q : request) (impl : url) (impl_str : str)
(* opts "redirect=<opt>" through route.NewTable: the target's RedirectCode *)
| CCode (opt : str) (impl : Z)
(* HTTPProxy.ServeHTTP over the real Table.Lookup: [cands] = the targets Table.lookup
   yields per host in visiting order; observables: response and upstream hit count *)
| CServe (cands : list (option target)) (wire : str) (q : request) (impl : response) (hits : nat)
(* a request with its header fields sent over a socket to a real http.Server running
   HTTPProxy.ServeHTTP; [hits] = calls of the upstream RoundTripper, [contacts] = connections
   accepted by the listener that stands behind the redirect template's host:port *)
| CServeH (hs : headers) (cands : list (option target)) (host wire path rawpath query : str) (tls : bool)
          (impl : response) (hits contacts : nat)
(* 2-4 simultaneous requests on the real HTTPProxy, forced into the interleaving [sched] of their
   Lookup and serve steps; [impl]: the responses in the order in which they were sent *)
| CSched (reqs : list (request * str * list (option target))) (sched : list action) (impl : list (nat * response))
(* a HISTORY of requests served one after the other by one HTTPProxy over ONE table object
   (so the same *route.Target answers several requests): per request the candidates of
   Table.lookup in visiting order, the response and the upstream hit count *)
| CHistory (steps : list (request * str * list (option target) * response * nat))
(* Target.BuildRedirectURL called repeatedly on ONE target object: RedirectURL.String() after each call *)
| CBuildHistory (t : target) (steps : list (request * str))
(* END TO END from consul tags: each service registers one urlprefix tag; the REAL
   routecmd.build turns the tags into route commands, route.NewTable into a table,
   HTTPProxy.ServeHTTP answers one request.  Per tag: its text, [gen] = the generator's own
   view of a redirect tag (url.Parse of the template it wrote, the strip/prepend it wrote;
   None for a tag without redirect option), [real] = the target the real table holds for that
   service (None: nothing was registered).  [cands]: per matching host the index of the
   service whose target Table.lookup yields.  The model side is computed from the TEXT of the
   tag ([tag_target]), not from the route command. *)
| CConsul (prefix : str) (tags : list (str * option target * option target)) (cands : list (option nat))
          (wire : str) (q : request) (impl : response) (hits : nat)
(* round 6: a request given by its header fields AS SENT (X-Forwarded-Proto absent / http / https,
   Forwarded absent / without proto / with proto, several lines, any spelling) on a plain or a TLS
   connection, through HTTPProxy.ServeHTTP over the real Table.Lookup (request parsed by
   net/http from the wire text, or sent over a real plain / TLS socket) *)
| CServeP (hs : headers) (cands : list (option target)) (host wire path rawpath query : str) (tls : bool)
          (impl : response) (hits : nat)
(* round 8: one request through HTTPProxy.ServeHTTP over the real Table.Lookup called with
   globDisabled = true.  [tv]: EVERY host key of the real table (order of
   sortHostsReverseHostPort) with what Table.lookup yields for it and the request's path;
   [fb]: the same for the host-less routes.  Which hosts are visited is computed by the model
   ([matching_noglob]) and, for the judgement, by the specification's decision [same_hostb]. *)
| CServeNG (tv : list (str * option target)) (fb : option target) (wire : str) (q : request)
           (impl : response) (hits : nat).

Fixpoint list_all2 {A B} (f : A -> B -> bool) (a : list A) (b : list B) : bool :=
  match a, b with
  | [], [] => true
  | x :: a', y :: b' => f x y && list_all2 f a' b'
  | _, _ => false
  end.

(* THE LOCATION CLAUSE, judged against the specification written on the request line
   ([expected_location], independent of the model's Path/RawPath bookkeeping):
   - on the domain of C13_location_spec / C13_response_location: the exact text;
   - in finding region 6 (strip matches only after decoding, F-C13-6): the exact text of
     [expected_location_dec] (strip applies to the decoded path, the rest stays as written);
   - for a documented template and a request outside [req_dom0] (raw non-ASCII bytes, encoded
     ! ' ( ) * [ ], a host that needs escaping): the same URL up to percent-decoding.
   Result: (spec holds, region). *)
Definition loc_spec (t : target) (wire : str) (q : request) (loc : str) : bool * option N :=
  if tmpl_dom t && req_dom t wire q then (beq loc (expected_location t wire q), None)
  else if strip_decoded_only t wire q       (* region 6 is syntactic: the strip prefix is there only after decoding *)
       then (if tmpl_dom t && req_dom0 wire q then beq loc (expected_location_dec t wire q) else true, Some 6)
  else if tmpl_dom t && strip_consistent t wire q then (loc_equiv loc (expected_location t wire q), None)
  else (true, None).

(* who answers and how (the reference host loop, status, proxy target), leaving the text of
   the Location to [loc_spec] *)
Definition answer_kind_eqb (a b : response) : bool :=
  match a, b with
  | RRedirect c _, RRedirect c' _ => (c =? c')%Z
  | _, _ => response_eqb a b
  end.
Definition response_spec (q : request) (wire : str) (cands : list (option target)) (impl : response) : bool * option N :=
  let kind := answer_kind_eqb impl (ref_response q cands)
              && match impl with RRedirect c _ => code_ok c | RBadCode _ => false | _ => true end in
  match impl, ref_lookup q cands with
  | RRedirect _ loc, Some t => let '(ok, reg) := loc_spec t wire q loc in (kind && ok, reg)
  | _, _ => (kind, None)
  end.
Definition first_region (l : list (option N)) : option N :=
  fold_right (fun o acc => match o with Some k => Some k | None => acc end) None l.

Definition target_eqb (with_code : bool) (a b : target) : bool :=
  Nat.eqb (t_id a) (t_id b) && beq (t_scheme a) (t_scheme b) && beq (t_host a) (t_host b) && beq (t_path a) (t_path b)
  && beq (t_query a) (t_query b) && beq (t_strip a) (t_strip b) && beq (t_prepend a) (t_prepend b)
  && (if with_code then (t_code a =? t_code b)%Z else true).
(* per tag: the target the TEXT of the tag describes, and whether the generator's view and the
   real table agree with it *)
Fixpoint tag_models (i : nat) (prefix : str) (tags : list (str * option target * option target))
  : list (option target * bool) :=
  match tags with
  | [] => []
  | (tag, gen, real) :: r =>
      (match gen with
       | Some g =>
           match tag_target i prefix tag with
           | Some t => (Some t, target_eqb false t g && match real with Some x => target_eqb true t x | None => false end)
           | None => (None, false)
           end
       | None => (Some (upstream_target i),
                  negb (has_redirect_field prefix tag)
                  && match real with Some x => (t_code x =? 0)%Z && Nat.eqb (t_id x) i | None => false end)
       end) :: tag_models (S i) prefix r
  end.

Definition check_case (c : case) : N :=
  match c with
  | CBuild t wire q impl impl_str =>
      let m := build_redirect_url t q in
      let same := url_eqb impl m && beq impl_str (url_string m)
                  && opt_pair_eqb (set_path wire) (Some (q_path q, q_rawpath q)) in
      let '(spec, region) := loc_spec t wire q impl_str in
      let nontriv := tmpl_dom t && req_dom t wire q && match path_pat t with Some _ => true | None => false end in
      verdict same spec region nontriv
  | CCode opt impl =>
      let same := (impl =? redirect_code opt)%Z in
      let three := match opt with [51; a; b] => is_digit a && is_digit b | _ => false end in
      let spec := ((impl =? 0)%Z || code_ok impl)
                  && (if three then (impl =? digits_val 0%Z opt)%Z else true) in
      verdict same spec None (negb (impl =? 0)%Z)
  | CServe cands wire q impl hits =>
      let m := handle q cands in
      let same := response_eqb impl m && Nat.eqb hits (upstream_calls m)
                  && opt_pair_eqb (set_path wire) (Some (q_path q, q_rawpath q)) in
      let '(rs, region) := response_spec q wire cands impl in
      let spec := rs && Nat.eqb hits (match impl with RProxy _ => 1 | _ => 0 end) in
      let nontriv := match m with RRedirect _ _ => true | _ => Nat.ltb 1 (length cands) end in
      verdict same spec region nontriv
  | CServeH hs cands host wire path rawpath query tls impl hits contacts =>
      let q := request_of hs host path rawpath query tls in
      let m := handle_full hs host path rawpath query tls cands in
      let same := response_eqb impl m && Nat.eqb (hits + contacts) (upstream_calls m)
                  && opt_pair_eqb (set_path wire) (Some (path, rawpath)) in
      (* "no upstream is contacted" as an observed fact: neither the transport nor the listener
         behind the template's host saw anything unless the answer is a proxied one *)
      let '(rs, region) := response_spec q wire cands impl in
      let spec := rs && match impl with RProxy _ => true | _ => Nat.eqb (hits + contacts) 0 end in
      verdict same spec region (match m with RRedirect _ _ => negb (is_nil hs) | _ => false end)
  | CSched reqs sched impl =>
      let mreqs := map (fun r => match r with (q, _, cands) => (q, cands) end) reqs in
      let w := run_sched mreqs sched world0 in
      let same := list_all2 (fun a b => Nat.eqb (fst a) (fst b) && response_eqb (snd a) (snd b)) impl (rev (w_out w)) in
      (* C13_every_schedule_own: each request receives its own answer *)
      let judged := map (fun ir => match nth_error reqs (fst ir) with
                                   | Some (q, wire, cands) => response_spec q wire cands (snd ir)
                                   | None => (false, None)
                                   end) impl in
      let spec := forallb fst judged in
      verdict same spec (first_region (map snd judged)) (Nat.ltb 1 (length impl))
  | CHistory steps =>
      let impls := map (fun s => match s with (_, _, _, resp, _) => resp end) steps in
      let hits_ok := forallb (fun s => match s with (_, _, _, resp, h) => Nat.eqb h (upstream_calls resp) end) steps in
      let model := map (fun s => match s with (q, _, cands, _, _) => handle q cands end) steps in
      let same := list_all2 response_eqb impls model && hits_ok in
      (* every answer of a history is the reference answer of its own request *)
      let judged := map (fun s => match s with (q, wire, cands, resp, _) => response_spec q wire cands resp end) steps in
      let spec := forallb fst judged && hits_ok in
      verdict same spec (first_region (map snd judged)) (Nat.ltb 1 (length steps))
  | CBuildHistory t steps =>
      (* correspondence only: the text of each Location is judged by the CBuild cases *)
      let ok := forallb (fun s => match s with (q, impl_str) => beq impl_str (url_string (build_redirect_url t q)) end) steps in
      (* region 6 without the request line: RawPath, when present, is the path as written *)
      let r6 := existsb (fun s => match s with (q, _) =>
                           negb (is_nil (q_rawpath q)) && strip_decoded_only t (q_rawpath q) q end) steps in
      verdict ok true (if r6 then Some 6 else None) (Nat.ltb 1 (length steps))
  | CConsul prefix tags cands wire q impl hits =>
      let ms := tag_models 0 prefix tags in
      let mcands := map (fun o => match o with
                                  | None => None
                                  | Some i => match nth_error ms i with Some (ot, _) => ot | None => None end
                                  end) cands in
      let idx_ok := forallb (fun o => match o with None => true | Some i => Nat.ltb i (length ms) end) cands in
      let m := handle q mcands in
      let same := forallb snd ms && idx_ok && response_eqb impl m && Nat.eqb hits (upstream_calls m)
                  && opt_pair_eqb (set_path wire) (Some (q_path q, q_rawpath q)) in
      (* the response is judged against the reference loop and [expected_location] over the
         targets read off the tag texts *)
      let '(rs, region) := response_spec q wire mcands impl in
      let spec := rs && Nat.eqb hits (match impl with RProxy _ => 1 | _ => 0 end) in
      verdict same spec region (match m with RRedirect _ _ => true | _ => false end)
  | CServeP hs cands host wire path rawpath query tls impl hits =>
      let m := handle_full hs host path rawpath query tls cands in
      let same := response_eqb impl m && Nat.eqb hits (upstream_calls m)
                  && opt_pair_eqb (set_path wire) (Some (path, rawpath)) in
      (* judged on the specification's own reading of the header fields ([said_x], [said_f], the
         decision table [own_scheme_said]) with the reference loop for that scheme; the text of
         the Location by [loc_spec] *)
      let sq := said_request hs host path rawpath query tls in
      let own := own_scheme_said (said_x hs) (said_f hs) tls in
      let kind := answer_kind_eqb impl (ref_answer_own own sq cands)
                  && match impl with RRedirect c _ => code_ok c | RBadCode _ => false | _ => true end in
      let '(ok, region) := match impl, ref_lookup_own own sq cands with
                           | RRedirect _ loc, Some t => loc_spec t wire sq loc
                           | _, _ => (true, None)
                           end in
      let spec := kind && ok && Nat.eqb hits (match impl with RProxy _ => 1 | _ => 0 end) in
      let said := match said_x hs, said_f hs with XNone, FNone => false | _, _ => true end in
      verdict same spec region (said && Nat.ltb 1 (length (somes cands)))
  | CServeNG tv fb wire q impl hits =>
      let m := handle_noglob q tv fb in
      let same := response_eqb impl m && Nat.eqb hits (upstream_calls m)
                  && opt_pair_eqb (set_path wire) (Some (q_path q, q_rawpath q)) in
      (* judged over the routes of the hosts that ARE the request's host in the specification's
         reading ([cands_saidb], C13_noglob_decision_spec) followed by the host-less routes *)
      let scands := cands_saidb q tv fb in
      let '(rs, region) := response_spec q wire scands impl in
      let spec := rs && Nat.eqb hits (match impl with RProxy _ => 1 | _ => 0 end) in
      let nontriv := match m with RRedirect _ _ => true | _ => Nat.ltb 1 (length scands) end in
      verdict same spec region nontriv
  end.
