(** Correspondence check for C07, evaluated by [vm_compute] on the cases the Go
    harness wrote (what net/url and the real HTTPProxy.ServeHTTP produced next to
    the inputs that produced it). *)
From Coq Require Import String List NArith ZArith Bool.
From Fabio Require Import Lib.Outcome Lib.Bytes Lib.Verdict Model.UrlPathC07 Model.HttpFwd Model.NoRoutePage.
Import ListNotations.
Local Open Scope N_scope.

Definition out_eqb {A} (eqb : A -> A -> bool) (a b : outcome A) : bool :=
  match a, b with
  | Ok x, Ok y => eqb x y
  | Err j, Err k => j =? k
  | Panic, Panic => true
  | _, _ => false
  end.

Definition header_eqb (a b : header) : bool :=
  list_eqb (fun x y => beq (fst x) (fst y) && beq (snd x) (snd y)) a b.

Definition upstream_eqb (a b : upstream) : bool :=
  beq (up_method a) (up_method b) && beq (up_target a) (up_target b) && beq (up_host a) (up_host b)
  && header_eqb (up_headers a) (up_headers b) && beq (up_body a) (up_body b).

Definition response_eqb (a b : response) : bool :=
  (rs_status a =? rs_status b)%Z && header_eqb (rs_headers a) (rs_headers b) && beq (rs_body a) (rs_body b).

Definition proj_up (u : upstream) : upstream :=
  {| up_method := up_method u; up_target := up_target u; up_host := up_host u;
     up_headers := project managed_req (up_headers u); up_body := up_body u |}.
Definition proj_resp (drop : list str) (r : response) : response :=
  {| rs_status := rs_status r; rs_headers := project drop (rs_headers r); rs_body := rs_body r |}.

(* on a real connection the two net/http servers add framing and a date of their own *)
Definition wire_resp_drop : list str :=
  [bs "Date"%string; bs "Content-Length"%string; bs "Connection"%string].

Inductive case :=
(* url.PathUnescape(s): Err 1 = error *)
| CUnesc (s : str) (impl : outcome str)
(* url.ParseRequestURI(t) on an origin-form target:
   (Path, RawPath, RawQuery, ForceQuery, EscapedPath(), RequestURI()) *)
| CParse (t : str) (impl : outcome (str * str * str * bool * str * str))
(* (&url.URL{Scheme:"http",Host:"h:1",Path,RawPath,RawQuery,ForceQuery}): EscapedPath(), RequestURI(), String() *)
| CEsc (path rawpath query : str) (force : bool) (ep ru us : str)
(* HTTPProxy.ServeHTTP on a routed request: [up] = what the upstream round trip was started with
   (None: no round trip), [ur] = the upstream's answer, [cl] = what the client got;
   [wire] = real sockets and fabio's http.Transport (observed by the upstream server) *)
| CFwd (wire : bool) (o : route_opts) (q : request) (up : option upstream) (ur cl : response)
(* as CFwd over real sockets, the upstream answering with the informational (1xx) responses
   [iu] before [ur]; the client saw the informational responses [ic] before [cl] *)
| CFwd1xx (o : route_opts) (q : request) (up : option upstream) (iu : list response) (ur : response)
          (ic : list response) (cl : response)
(* CFwd (recorder) under a proxy configuration with a request-id header: ServeHTTP first sets
   header [reqid] to [uuid] (fabio's own header, by configuration), then proceeds as usual *)
| CFwdCfg (reqid uuid : str) (o : route_opts) (q : request) (up : option upstream) (ur cl : response)
(* the other ways out of ServeHTTP: [kind] as in Model.HttpFwd.exit_status; [code] = the route's
   redirect code; observed: whether an upstream round trip was started, client's status *)
| CExit (kind : N) (code : Z) (contacted : bool) (status : Z)
(* Upgrade: websocket over real sockets: what the upstream connection was sent first
   (method, request target, Host); None = no upstream connection *)
| CWs (o : route_opts) (q : request) (up : option (str * str * str))
(* no route: configured status, page, whether any upstream was contacted, client's response *)
| CNoRoute (status : Z) (html : str) (contacted : bool) (cl : response)
(* a history of the no-route page: the real watchNoRouteHTML (main.go) fed by a scripted registry
   backend, the store holding [init] when it starts, the proxy built by the real newHTTPProxy with
   NoRouteStatus [status]; [h] = the deliveries the watcher took and the requests served, in order;
   [obs] = per request of [h]: was the upstream of the table contacted, the client's response;
   [wire] = requests over a loopback listener (net/http adds framing, a date and a sniffed type) *)
| CNoRouteHist (wire : bool) (status : Z) (init : str) (h : list nr_step) (obs : list (bool * response)).

(* short form the harness writes requests in *)
Definition rq (m t h b : str) : request :=
  {| rq_method := m; rq_target := t; rq_host := h; rq_headers := []; rq_body := b |}.
Definition ob (contacted : bool) (status : Z) (hs : header) (body : str) : bool * response :=
  (contacted, {| rs_status := status; rs_headers := hs; rs_body := body |}).
Definition wire_noroute_drop : list str :=
  [bs "Date"%string; bs "Content-Length"%string; bs "Content-Type"%string].

Definition parse_obs (p : parsed) : str * str * str * bool * str * str :=
  (p_path p, p_rawpath p, p_rawquery p, p_force p,
   escaped_path (p_path p) (p_rawpath p),
   request_uri (p_path p) (p_rawpath p) (p_rawquery p) (p_force p)).
Definition obs_eqb (a b : str * str * str * bool * str * str) : bool :=
  let '(a1, a2, a3, a4, a5, a6) := a in
  let '(b1, b2, b3, b4, b5, b6) := b in
  beq a1 b1 && beq a2 b2 && beq a3 b3 && Bool.eqb a4 b4 && beq a5 b5 && beq a6 b6.

(* a routed request; [same_x]/[spec_x]: further observables of group B (informational responses) *)
(* an absolute-form request target is reduced to its origin-form part (Model.UrlPathC07.origin_form) *)
Definition in_origin_form (q : request) : request :=
  {| rq_method := rq_method q; rq_target := origin_form (rq_target q); rq_host := rq_host q;
     rq_headers := rq_headers q; rq_body := rq_body q |}.

(* non-trivial = the case exercises something the property quantifies over beyond a plain GET:
   an option touches the path, the raw path is not in canonical encoding, a query is merged, the
   host option is set, a hop-by-hop or Connection-listed header is present, or there is a body *)
Definition fwd_nontrivial (o : route_opts) (q : request) : bool :=
  let raw := raw_path_of (rq_target q) in
  opts_touch_path o raw || negb (canonical_raw raw) || nonempty (ro_tquery o) || nonempty (ro_host o)
  || existsb (fun kv => is_hop (rq_headers q) (fst kv)) (rq_headers q) || nonempty (rq_body q).

Definition check_fwd (wire : bool) (o : route_opts) (q0 : request) (up : option upstream)
           (ur cl : response) (same_x spec_x : bool) : N :=
      let q := in_origin_form q0 in
      let nt := fwd_nontrivial o q in
      let drop := if wire then wire_resp_drop else [] in
      (* two groups of observables, judged separately so that a known defect in one (or its
         repair) never hides or excuses a difference in the other:
         A = the request target (regions 1, 2); B = method, Host, headers, body, response (region 4) *)
      match forward wire o q, up with
      | Ok mu, Some u =>
          let sameA := beq (up_target u) (up_target mu) in
          let specA := beq (up_target u) (spec_target o (rq_target q)) in
          let regionA := if region_strip_encoding o (rq_target q) then Some 1
                         else if region_invalid_byte o (rq_target q) then Some 2 else None in
          let vA := verdict sameA specA regionA nt in
          let no_target x := {| up_method := up_method x; up_target := []; up_host := up_host x;
                                up_headers := up_headers x; up_body := up_body x |} in
          let sameB := upstream_eqb (proj_up (no_target u)) (proj_up (no_target mu))
                       && response_eqb (proj_resp drop cl) (proj_resp drop (respond ur)) && same_x in
          let specB := spec_forward_rest o q u && spec_response drop ur cl && spec_x in
          let regionB := if wire && region_ua_wire q then Some 4 else None in
          let vB := verdict sameB specB regionB nt in
          let bad v := (2 <=? v) && (v <=? 4) in
          if bad vA then vA else if bad vB then vB
          else if 100 <=? vA then vA else if 100 <=? vB then vB
          else if nt then v_agree else v_agree_trivial
      | Ok _, None => v_disagree_spec_fails   (* a routed request must reach its upstream *)
      | _, _ => v_disagree   (* the harness only emits requests net/http accepted *)
      end.

Definition check_case (c : case) : N :=
  match c with
  | CUnesc s impl =>
      let m := unescape s in
      (* spec on net/url's own answer: a decoded path re-encodes to something that decodes to it *)
      let spec := match impl with
                  | Ok p => out_is (unescape (escape p)) p
                  | Err _ => true
                  | Panic => false
                  end in
      verdict (out_eqb beq impl m) spec None (existsb (N.eqb 37) s)
  | CParse t impl =>
      let m := match parse_target (origin_form t) with Ok p => Ok (parse_obs p) | Err k => Err k | Panic => Panic end in
      (* spec: an accepted origin-form target whose path is made of URI path bytes is reproduced
         byte for byte by RequestURI(); any other still denotes the same decoded path *)
      let spec := match impl with
                  | Ok (path, _, _, _, ep, ru) =>
                      if valid_encoded (raw_path_of (origin_form t)) then beq ru (origin_form t)
                      else out_is (unescape ep) path
                  | Err _ => true
                  | Panic => false
                  end in
      verdict (out_eqb obs_eqb impl m) spec None (is_ok m)
  | CEsc path rawpath query force ep ru us =>
      let same := beq ep (escaped_path path rawpath) && beq ru (request_uri path rawpath query force)
                  && beq us (url_string path rawpath query force) in
      (* spec: whatever EscapedPath returns decodes to Path *)
      let spec := out_is (unescape ep) path in
      verdict same spec None (nonempty rawpath)
  | CFwd wire o q up ur cl => check_fwd wire o q up ur cl true true
  | CFwd1xx o q up iu ur ic cl =>
      (* "100 Continue" is the per-hop handshake of Expect: 100-continue (each net/http server on the
         way answers it itself, RFC 7231 5.1.1): not an upstream response that is passed through *)
      let pr l := map (proj_resp wire_resp_drop) (filter (fun r => negb (rs_status r =? 100)%Z) l) in
      let same_x := list_eqb response_eqb (pr ic) (pr (fst (respond_all iu ur))) in
      (* spec: the same informational responses, in order, with the same status and headers *)
      let spec_x := list_eqb (fun a b => (rs_status a =? rs_status b)%Z
                                         && header_eqb (rs_headers a) (rs_headers b)) (pr ic) (pr iu) in
      check_fwd true o q up ur cl same_x spec_x
  | CFwdCfg reqid uuid o q up ur cl =>
      let q' := {| rq_method := rq_method q; rq_target := rq_target q; rq_host := rq_host q;
                   rq_headers := if nonempty reqid then hset reqid uuid (rq_headers q) else rq_headers q;
                   rq_body := rq_body q |} in
      check_fwd false o q' up ur cl true true
  | CExit kind code contacted status =>
      let ok := Bool.eqb contacted (exit_contacts kind) && (status =? exit_status kind code)%Z in
      verdict ok ok None true
  | CWs o q0 up =>
      let q := in_origin_form q0 in
      match ws_forward o q, up with
      | Ok (mm, mt, mh), Some (im, it, ih) =>
          (* the path part (regions 1, 2) and the query part (region 5) of the request target *)
          let path_of x := fst (cut_q x) in
          let query_of x := skipn (length (path_of x)) x in
          let st := spec_target o (rq_target q) in
          let regionA := if region_strip_encoding o (rq_target q) then Some 1
                         else if region_invalid_byte o (rq_target q) then Some 2 else None in
          let vA := verdict (beq (path_of it) (path_of mt)) (beq (path_of it) (path_of st)) regionA true in
          let regionQ := if region_ws_lone_q (rq_target q) then Some 5 else None in
          let vQ := verdict (beq (query_of it) (query_of mt)) (beq (query_of it) (query_of st)) regionQ true in
          let vB := verdict (beq im mm && beq ih mh)
                            (beq im (rq_method q) && beq ih (spec_host o (rq_host q))) None true in
          let bad v := (2 <=? v) && (v <=? 4) in
          if bad vA then vA else if bad vQ then vQ else if bad vB then vB
          else if 100 <=? vA then vA else if 100 <=? vQ then vQ else v_agree
      | Ok _, None => v_disagree_spec_fails
      | _, _ => v_disagree
      end
  | CNoRoute status html contacted cl =>
      let m := noroute_response status html in
      let same := negb contacted && response_eqb cl m in
      let want := if ((100 <=? status) && (status <=? 999))%Z then status else 404%Z in
      let spec := negb contacted && (rs_status cl =? want)%Z && beq (rs_body cl) html in
      verdict same spec None true
  | CNoRouteHist wire status init h obs =>
      let drop := if wire then wire_noroute_drop else [] in
      let m := nr_model_obs (nr_run wire status init h) in
      let same := list_eqb (fun a b => Bool.eqb (fst a) (fst b)
                                       && response_eqb (proj_resp drop (snd a)) (proj_resp drop (snd b))) obs m in
      (* spec: every request got the configured status and the last page delivered before it *)
      let spec := nr_spec_b status init h obs in
      verdict same spec None (Nat.leb 1 (nr_changes init h) && negb (Nat.eqb (length obs) 0))
  end.
