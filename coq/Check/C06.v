(** Correspondence check for C06, evaluated by [vm_compute] on the cases the Go harness
    wrote (what the real fabio code did, next to the inputs and the schedule). *)
From Coq Require Import List NArith Bool Arith.
From Fabio Require Import Lib.Outcome Lib.Bytes Lib.Verdict Model.Interleave Model.GlobCacheC06 Model.GlobCacheFine
  Model.Access Model.AccessC06.
Import ListNotations.

Definition oeq (a b : outcome str) : bool :=
  match a, b with
  | Ok x, Ok y => beq x y
  | Err j, Err k => N.eqb j k
  | Panic, Panic => true
  | _, _ => false
  end.
Definition opt_out_eqb (m : option (outcome str)) (i : outcome str) : bool :=
  match m with Some o => oeq o i | None => false end.

Fixpoint all2 {A B} (f : A -> B -> bool) (a : list A) (b : list B) : bool :=
  match a, b with
  | [], [] => true
  | x :: a', y :: b' => f x y && all2 f a' b'
  | _, _ => false
  end.

Definition mem_str (k : str) (l : list str) : bool := existsb (beq k) l.
Definition incl_str (a b : list str) : bool := forallb (fun k => mem_str k b) a.
Definition set_eq_str (a b : list str) : bool := incl_str a b && incl_str b a && Nat.eqb (length a) (length b).
Fixpoint distinct_str (l : list str) : list str :=
  match l with [] => [] | x :: r => if mem_str x r then distinct_str r else x :: distinct_str r end.
Definition has_hole (t : uobj) : bool := existsb (fun p => match p with Hole => true | HHole => true | _ => false end) t.

Definition slot_id (ring : list nat) (c : N) : nat := match slot ring c with Ok t => t | _ => (1000 + length ring)%nat end.
Definition sum_nat (l : list nat) : nat := fold_right Nat.add O l.

(* the fine-grained machine of the repaired cache (mutex explicit) run one call after the other:
   14 actions are enough for one Get alone (fast path, Lock, 11 of the section, Unlock) *)
Fixpoint f_history (s : fshared) (calls : list (str * bool)) : fshared * list (option (outcome str)) :=
  match calls with
  | [] => (s, [])
  | (p, ok) :: r => let '(s1, ts) := run f_step (repeat O 14) s [f_init p ok] in
                    let '(s2, os) := f_history s1 r in (s2, f_results ts ++ os)
  end.

(* tables the harness filled by calling the real net.ParseIP / net.SplitHostPort *)
Fixpoint tab_get {V} (t : list (str * V)) (k : str) : option V :=
  match t with [] => None | (k', v) :: r => if beq k' k then Some v else tab_get r k end.
Definition tab_fn {V} (t : list (str * option V)) (k : str) : option V :=
  match tab_get t k with Some v => v | None => None end.
Definition tab_has {V} (t : list (str * V)) (k : str) : bool := match tab_get t k with Some _ => true | None => false end.

(* all orders of a list (for the linearisation check of concurrent Gets; at most 5 elements) *)
Fixpoint insert_all {A} (x : A) (l : list A) : list (list A) :=
  match l with [] => [[x]] | y :: r => (x :: l) :: map (cons y) (insert_all x r) end.
Fixpoint perms {A} (l : list A) : list (list A) :=
  match l with [] => [[]] | x :: r => flat_map (insert_all x) (perms r) end.

Inductive case :=
(* forced schedule on the real HTTPProxy: thread i requests [paths_i] on a redirect route with
   template [tmpl]; [sched] is the replayed schedule in the model's actions (a whole Lookup =
   four actions of that thread, the rest of ServeHTTP = one); impl = each client's Location *)
| CRedir (tmpl : uobj) (reqs : list (str * str)) (sched : list nat) (impl : list (outcome str))
(* stress: one request's Location while the requests [others] were in flight on the same target *)
| CRedirStress (tmpl : uobj) (own : str) (others : list str) (impl : str)
(* a sequential history of GlobCache.Get on a fresh cache of [size]; impl: per call result
   (Ok p = a glob that behaves like Compile(p)), then the hook's view of l, h, n, keys(m) *)
| CGlobSeq (size : nat) (calls : list (str * bool)) (impl : list (outcome str))
           (impl_l : list str) (impl_h impl_n : nat) (impl_keys : list str)
(* [threads] goroutines Get distinct patterns concurrently on a fresh cache: the hook's n and
   |m| afterwards, recovered panics, results that were not the requested compiled pattern *)
| CGlobConc (size threads : nat) (impl_n impl_keys impl_panics impl_wrong : nat)
(* the same with the state right after the concurrent Gets (each goroutine ONE Get of its own new pattern [pats],
   on a cache prefilled sequentially with [pre]): it must be the state SOME serial order of the Gets produces
   (the critical sections of the repaired cache are totally ordered) *)
| CGlobLin (size : nat) (pre pats : list str) (impl_l : list str) (impl_h impl_n : nat) (impl_keys : list str)
(* one goroutine, [k] picks on a route whose ring (target index per slot) is [ring], cursor c0 *)
| CRRSeq (ring : list nat) (c0 : N) (k : nat) (impl : list nat) (impl_c : N)
(* [threads] goroutines x [per] picks concurrently: picks per target, final cursor *)
| CRRConc (ring : list nat) (c0 : N) (threads per : nat) (impl_counts : list nat) (impl_c : N)
(* rr lookups through route.GetTable() while a writer installs many tables: what ONE table generation served
   ([n] picks attributed to it by target identity), its route's ring, its cursor when installed and at the end *)
| CRRTable (ring : list nat) (c0 : N) (n : nat) (impl_counts : list nat) (impl_c : N)
(* a history of requests against ONE target with access rules [r] (read back from the real target), run
   sequentially in this order ([conc] = false) or all at once ([conc] = true) through the real ServeHTTP:
   per request RemoteAddr, X-Forwarded-For field values; [ips] = net.ParseIP of every zone-stripped address
   text that occurs, [splits] = net.SplitHostPort of every RemoteAddr; impl = denied (403) per request *)
| CAccess (r : rules) (ips : list (str * option ipaddr)) (splits : list (str * option str))
          (reqs : list (str * list str)) (conc : bool) (impl : list bool)
(* [threads] goroutines x [per] lookups with the random picker on a route with [ntargets] targets whose
   ring is [ring]: picks per target, recovered panics, picks that are not a target of the route *)
| CRndConc (ring : list nat) (threads per : nat) (impl_counts : list nat) (impl_panics impl_foreign : nat)
(* sequential Table.Lookup on a table given as candidate hosts in visiting order, run TWICE on the real table:
   run 1 with every cursor = [cursor] (impl = (host idx, route idx, target idx, Location); [after] = the
   cursors of the candidate hosts' routes afterwards); run 2 with the answering route's cursor = [cursor]
   again but DIFFERENT cursors on every other route ([others]: those of the candidate hosts' routes) and a
   different glob cache state (impl2) *)
| CLookup (hosts : list (list route)) (path host proto : str) (cursor : N) (after : list (list N))
          (others : list (list N)) (impl impl2 : option (nat * nat * nat * option str)).

Definition res_eqb (m : option lk_result) (i : option (nat * nat * nat * option str)) : bool :=
  match m, i with
  | None, None => true
  | Some r, Some (h, j, t, loc) =>
      Nat.eqb (fst (lk_route r)) h && Nat.eqb (snd (lk_route r)) j && Nat.eqb (lk_target r) t
      && opt_eqb beq (lk_location r) loc
  | _, _ => false
  end.

Definition check_case (c : case) : N :=
  match c with
  | CRedir tmpl reqs sched impl =>
      let '(_, ts) := run (rd_step tmpl) sched rd_start (map (fun q => rd_init (fst q) (snd q)) reqs) in
      let same := all2 opt_out_eqb (rd_results ts) impl in
      (* C06_redirect_every_schedule: every request is answered as it would be alone on a fresh table,
         whatever the schedule; no known region (F-C06-1 fixed by ddf101c) *)
      let spec := all2 (fun (q : str * str) o => oeq o (Ok (rd_own tmpl (fst q) (snd q)))) reqs impl in
      verdict same spec None (Nat.ltb 1 (length reqs))
  | CRedirStress tmpl own others impl =>
      let same := beq impl (rd_own tmpl own []) in    (* the stress templates have no $host *)
      verdict same same None (negb (Nat.eqb (length others) 0))
  | CGlobSeq size calls impl impl_l impl_h impl_n impl_keys =>
      let '(s, os) := gc_history (gc_new size) calls in
      let '(fs, fos) := f_history (f_new size) calls in
      let same := all2 opt_out_eqb os impl && list_eqb beq (c_l s) impl_l && Nat.eqb (c_h s) impl_h
                  && Nat.eqb (c_n s) impl_n && set_eq_str (m_keys (c_m s)) impl_keys
                  (* and the fine-grained machine agrees with the real code as well *)
                  && all2 opt_out_eqb fos impl && list_eqb beq (c_l (f_c fs)) impl_l && Nat.eqb (c_h (f_c fs)) impl_h
                  && Nat.eqb (c_n (f_c fs)) impl_n && set_eq_str (m_keys (c_m (f_c fs))) impl_keys && negb (f_lock fs) in
      let spec := all2 (fun (cl : str * bool) (o : outcome str) => if snd cl then oeq o (Ok (fst cl)) else oeq o (Err 1%N)) calls impl
                  && Nat.leb impl_n size && Nat.leb (length impl_keys) size
                  && incl_str impl_keys (firstn impl_n impl_l) in
      verdict same spec None (Nat.ltb size (length (distinct_str (map fst (filter snd calls)))))
  | CGlobConc size threads impl_n impl_keys impl_panics impl_wrong =>
      (* C06_globcache_conc_inv: in every interleaving the bounds hold, no Get panics and every Get
         returns the requested compiled pattern; no known region (F-C06-3/4 fixed by d9b7eff) *)
      let same := Nat.eqb impl_wrong 0 && Nat.eqb impl_panics 0 && Nat.leb impl_n size && Nat.leb impl_keys size in
      let spec := same in
      verdict same spec None (Nat.ltb 1 threads)
  | CGlobLin size pre pats impl_l impl_h impl_n impl_keys =>
      let s0 := fst (gc_history (gc_new size) (map (fun p => (p, true)) pre)) in
      let ok (order : list str) :=
        let '(s, os) := gc_history s0 (map (fun p => (p, true)) order) in
        all2 opt_out_eqb os (map (fun p => Ok p) order)
        && list_eqb beq (c_l s) impl_l && Nat.eqb (c_h s) impl_h && Nat.eqb (c_n s) impl_n
        && set_eq_str (m_keys (c_m s)) impl_keys in
      let same := existsb ok (perms pats) in
      verdict same same None (Nat.ltb 1 (length pats))
  | CRRSeq ring c0 k impl impl_c =>
      let '(tot, ts) := run rr_step_atomic (repeat O k) c0 [rr_init k] in
      let same := list_eqb Nat.eqb (map (slot_id ring) (all_seen ts)) impl && N.eqb tot impl_c in
      (* k consecutive ring positions, starting at the cursor (or, for a picker that uses the
         value the atomic add returns, at the one after it) *)
      let spec := (list_eqb Nat.eqb (map (slot_id ring) (consecutive c0 k)) impl
                   || list_eqb Nat.eqb (map (slot_id ring) (consecutive (N.modulo (c0 + 1) two64) k)) impl)
                  && N.eqb impl_c (N.modulo (c0 + N.of_nat k) two64) in
      verdict same spec None (Nat.ltb 1 (length ring) && Nat.ltb 1 k)
  | CRRConc ring c0 threads per impl_counts impl_c =>
      let n := (threads * per)%nat in
      (* C06_rr_atomic_exact: in every interleaving the picks use the next n cursor values, each once;
         no known region (F-C06-2 fixed by 633ec31) *)
      let same0 := Nat.eqb (sum_nat impl_counts) n && N.eqb impl_c (N.modulo (c0 + N.of_nat n) two64) in
      let want c := if N.leb (c + N.of_nat n) two64 then window ring c n
                    else map (slot_id ring) (consecutive c n) in
      let exact w := all2 (fun t cnt => Nat.eqb (count_nat t w) cnt) (seq 0 (length impl_counts)) impl_counts in
      let same := same0 && exact (want c0) in
      let spec := same0 && (exact (want c0) || exact (want (N.modulo (c0 + 1) two64))) in
      verdict same spec None (Nat.ltb 1 threads)
  | CRRTable ring c0 n impl_counts impl_c =>
      (* C06_rr_exact_per_table: the picks a table served are the next n values of ITS cursor *)
      let same0 := Nat.eqb (sum_nat impl_counts) n && N.eqb impl_c (N.modulo (c0 + N.of_nat n) two64) in
      let want c := if N.leb (c + N.of_nat n) two64 then window ring c n
                    else map (slot_id ring) (consecutive c n) in
      let exact w := all2 (fun t cnt => Nat.eqb (count_nat t w) cnt) (seq 0 (length impl_counts)) impl_counts in
      let same := same0 && exact (want c0) in
      verdict same same None (Nat.ltb 1 n)
  | CAccess r ips splits reqs conc impl =>
      let pip := tab_fn ips in
      let sh := tab_fn splits in
      let qs := map (fun q => {| ac_remote := fst q; ac_xff := snd q |}) reqs in
      (* the model run (serial order; by C06_access_every_schedule the order does not matter) *)
      let '(_, ts) := run (ac_step pip sh) (seq 0 (length qs)) r (map ac_init qs) in
      let same := all2 (fun l b => match ac_verdict l with Some v => Bool.eqb v b | None => false end) ts impl in
      (* spec: the verdict of each request is the access function of that request alone *)
      let spec := all2 (fun q b => Bool.eqb (ac_alone pip sh r q) b) qs impl in
      (* every address text the model asks about is in the tables *)
      let sane := forallb (fun q => tab_has splits (fst q)) reqs
                  && forallb (fun q => match sh (fst q) with
                                       | None => true
                                       | Some host => tab_has ips (strip_zone host)
                                                      && forallb (fun x => tab_has ips (strip_zone (trim_space x)))
                                                                 (split_byte (join (snd q) [44%N]) 44%N)
                                       end) reqs in
      if negb sane then v_disagree else
      verdict same spec None (negb (rules_empty r) && Nat.ltb 1 (length reqs))
  | CRndConc ring threads per impl_counts impl_panics impl_foreign =>
      (* C06_rnd_pick_member: no panic, every pick a member of the ring (a target with a positive weight) *)
      let same := Nat.eqb impl_panics 0 && Nat.eqb impl_foreign 0
                  && Nat.eqb (sum_nat impl_counts) (threads * per)
                  && all2 (fun t cnt => Nat.eqb cnt 0 || existsb (Nat.eqb t) ring) (seq 0 (length impl_counts)) impl_counts in
      verdict same same None (Nat.ltb 1 threads)
  | CLookup hosts path host proto cursor after others impl impl2 =>
      let s0 := {| lk_cursor := fun _ => cursor; lk_redirect := fun _ => None |} in
      let '(m, s1) := lookup hosts path host proto s0 in
      match m with
      | Ok m =>
          (* run 1: answer and every candidate route's cursor afterwards (C06_lookup_frame on the real code) *)
          let frame := all2 (fun i row => all2 (fun j c => N.eqb (lk_cursor s1 (i, j)) c) (seq 0 (length row)) row)
                            (seq 0 (length after)) after
                       && Nat.eqb (length after) (length hosts) in
          (* run 2: the model with cursors differing off the answering route *)
          let f2 := fun id : rid => match m with
                                    | Some r => if eq_rid id (lk_route r) then cursor else nth (snd id) (nth (fst id) others []) 0%N
                                    | None => nth (snd id) (nth (fst id) others []) 0%N
                                    end in
          let m2ok := match lookup_pure hosts path host proto f2 with Ok m2 => res_eqb m2 impl2 | _ => false end in
          let same := res_eqb m impl && frame && m2ok in
          (* the property on the real code alone: the answer does not depend on the other routes' cursors
             nor on the glob cache *)
          let spec := opt_eqb (fun a b => match a, b with
                                          | (h1, j1, t1, l1), (h2, j2, t2, l2) =>
                                              Nat.eqb h1 h2 && Nat.eqb j1 j2 && Nat.eqb t1 t2 && opt_eqb beq l1 l2
                                          end) impl impl2 in
          verdict same spec None (match m with Some _ => true | None => false end)
      | _ => 3%N
      end
  end.
