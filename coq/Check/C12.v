(** Correspondence check for C12, evaluated by [vm_compute] on the cases the Go harness
    wrote: rule texts, the answers of the real net.ParseIP / net.ParseCIDR /
    net.SplitHostPort on every string the code asks them about, what the real fabio code did
    (parsed rule map, denyByIP on probe addresses, status and upstream hits of
    HTTPProxy.ServeHTTP, dials of the three TCP proxies), and an independent net/netip
    reading of the same rule text and addresses; and, for a basic scheme with a refreshed
    htpasswd file, the history of the file and of the refresh goroutine before a request
    (case CReload, replayed on Model/BasicReload.v); and, for a SET of basic schemes behind one
    HTTPProxy, the history of requests on the routes of all of them and of their files before a
    request (case CSchemes, replayed on Model/BasicSchemes.v); and whole requests - any method, any
    header map - against a route with access rules and an auth option (case CGate,
    Model/GateRequest.v); and connections served by the real tcp.Proxy on a route with SEVERAL
    targets whose access rules differ and whose instances may be gone (case CTcpRoute,
    Model/TcpTargets.v). *)
From Coq Require Import String List NArith Bool.
From Fabio Require Import Lib.Outcome Lib.Bytes Lib.Verdict Model.Access Model.BasicReload Model.BasicSchemes Model.GateRequest
                          Model.ReloadRemoval Model.TcpTargets.
Import ListNotations.
Local Open Scope N_scope.

(* ---- tables filled by the harness with the answers of the real library ---- *)
Definition lookup {A} (tab : list (str * A)) (s : str) : option A :=
  match find (fun p => beq (fst p) s) tab with Some p => Some (snd p) | None => None end.
Definition oracle {A} (tab : list (str * option A)) (s : str) : option A :=
  match lookup tab s with Some r => r | None => None end.
Definition covered {A} (tab : list (str * A)) (s : str) : bool :=
  match lookup tab s with Some _ => true | None => false end.
Definition is_some {A} (o : option A) : bool := match o with Some _ => true | None => false end.

Record env := {
  e_allow : str;                               (* t.Opts["allow"] *)
  e_deny : str;                                (* t.Opts["deny"] *)
  e_ip : list (str * option ipaddr);           (* net.ParseIP *)
  e_cidr : list (str * option ipnet);          (* net.ParseCIDR *)
  e_ref : ref_rules                            (* the harness's net/netip reading of the two options *)
}.

Definition ipaddr_eqb (a b : ipaddr) : bool :=
  match a, b with
  | IP4 x, IP4 y => x =? y
  | IP16 x, IP16 y => x =? y
  | _, _ => false
  end.
Definition ipnet_eqb (a b : ipnet) : bool :=
  ipaddr_eqb (n_ip a) (n_ip b) && (n_ones a =? n_ones b) && Bool.eqb (n_m16 a) (n_m16 b).
Definition rules_eqb (a b : rules) : bool :=
  opt_eqb (list_eqb ipnet_eqb) (r_allow a) (r_allow b) && opt_eqb (list_eqb ipnet_eqb) (r_deny a) (r_deny b).
Definition sblock_eqb (a b : sblock) : bool :=
  Bool.eqb (s_v6 a) (s_v6 b) && (s_net a =? s_net b) && (s_len a =? s_len b).
Definition canon_eqb (a b : bool * N) : bool := Bool.eqb (fst a) (fst b) && (snd a =? snd b).

Definition m_rules (e : env) : rules * bool :=
  process_access_rules (oracle (e_ip e)) (oracle (e_cidr e)) (e_allow e) (e_deny e).

(* every string the model asks the oracles about is in the tables (a miss would silently
   read as "does not parse"); also ties Coq's split / trim to Go's, which the harness used *)
Definition opt_queries_ok (e : env) (opt : str) : bool :=
  forallb (fun c => match split_colon c with
                    | None => true
                    | Some (_, t1) => let v := trim_space t1 in
                                      if has_slash v then covered (e_cidr e) v else covered (e_ip e) v
                    end) (split_byte opt 44).
Definition rule_queries_ok (e : env) : bool :=
  opt_queries_ok e (e_allow e) && opt_queries_ok e (e_deny e).

(* the model's reading of the parsable items = the harness's net/netip reading *)
Definition ref_opt_matches (e : env) (opt : str) (r : option (list sblock)) : bool :=
  match r with
  | None => is_nil opt
  | Some bs => negb (is_nil opt) &&
               list_eqb (opt_eqb sblock_eqb)
                        (map sblock_of (intended_blocks (oracle (e_ip e)) (oracle (e_cidr e)) opt))
                        (map Some bs)
  end.
Definition ref_matches (e : env) : bool :=
  ref_opt_matches e (e_allow e) (ref_allow (e_ref e)) && ref_opt_matches e (e_deny e) (ref_deny (e_ref e)).

Definition scheme_tab (l : list (str * bool)) : scheme_table unit :=
  fun name => match lookup l name with Some b => Some (fun _ => b) | None => None end.

Definition count_upstream (l : list event) : N :=
  N.of_nat (List.length (filter (fun e => match e with EUpstream => true | _ => false end) l)).

(* ---- histories of a refreshed basic scheme (Model/BasicReload.v) ---- *)
(* what the harness did to the htpasswd file and what it saw of the refresh goroutine, in order *)
Inductive hstep :=
| HsWrite (c : hfile) (mt : N)   (* the file was replaced (rename), ModTime mt *)
| HsRemove                       (* the file was removed *)
| HsBad                          (* the bad-line handler ran (seen through the standard logger): the
                                    goroutine is inside the scanner loop of ReloadFromReader *)
| HsInForce                      (* the newest content was seen in force (its canary user flipped) *)
| HsSettled.                     (* the harness waited hundreds of refresh periods without touching the
                                    file: the goroutine has nothing left to do (emitted only when the
                                    newest content - after a removal: the lock-out - was NOT seen in
                                    force within that time) *)

Definition hist_files (init : hfile) (hist : list hstep) : list hfile :=
  init :: flat_map (fun h => match h with HsWrite c _ => [c] | _ => [] end) hist.
Definition hist_fuel (init : hfile) (hist : list hstep) : nat :=
  (8 + fold_right (fun f n => List.length f + n) 0 (hist_files init hist))%nat.

(* the model replays the history: operator actions as they are, then the goroutine alone until
   it has produced the event the harness saw; None = the model never produces it *)
Definition replay_step (fuel : nat) (st : option rstate) (h : hstep) : option rstate :=
  match st with
  | None => None
  | Some st =>
      match h with
      | HsWrite c mt => Some (snd (rstep st (AWrite c mt)))
      | HsRemove => Some (snd (rstep st ARemove))
      | HsBad => advance_until is_bad_line fuel st
      | HsInForce => advance_until is_loaded fuel st
      | HsSettled => Some (refresher_steps fuel st)
      end
  end.

(* the reference's own bookkeeping, from the history alone: [stable] = the content last seen in
   force, [pending] = contents given to the file since (a removal = the empty content) *)
Definition spec_step (s : hfile * list hfile) (h : hstep) : hfile * list hfile :=
  match h with
  | HsWrite c _ => (fst s, c :: snd s)
  | HsRemove => (fst s, [] :: snd s)
  | HsBad => s
  | HsInForce | HsSettled => match snd s with c :: _ => (c, []) | [] => s end
  end.

(* ---- histories of a SET of basic schemes behind one HTTPProxy (Model/BasicSchemes.v) ---- *)
(* what happened before a request: earlier requests (the auth option of the route they were routed
   to, request.BasicAuth()) and what the harness did to / saw of the file of a named scheme *)
Inductive set_step :=
| SsReq (auth : str) (c : bcreds)
| SsFile (n : str) (h : hstep).

Definition set_files (cfg : schemes_cfg) (hist : list set_step) : list hfile :=
  map (fun p => bc_file (snd p)) cfg
  ++ flat_map (fun h => match h with SsFile _ (HsWrite c _) => [c] | _ => [] end) hist.
Definition set_fuel (cfg : schemes_cfg) (hist : list set_step) : nat :=
  (8 + fold_right (fun f n => List.length f + n) 0 (set_files cfg hist))%nat.

(* the model replays the history through the machine of the whole set *)
Definition set_replay_step (fuel : nat) (ss : option scheme_set) (h : set_step) : option scheme_set :=
  match ss with
  | None => None
  | Some ss =>
      match h with
      | SsReq auth c => Some (snd (sstep ss (SOn auth (ARequest c))))
      | SsFile n (HsWrite c mt) => Some (snd (sstep ss (SOn n (AWrite c mt))))
      | SsFile n HsRemove => Some (snd (sstep ss (SOn n ARemove)))
      | SsFile n HsBad => sadvance_until is_bad_line fuel ss n
      | SsFile n HsInForce => sadvance_until is_loaded fuel ss n
      | SsFile n HsSettled =>
          match sget ss n with
          | None => None
          | Some s => Some (sput ss n {| sc_realm := sc_realm s; sc_st := refresher_steps fuel (sc_st s) |})
          end
      end
  end.

(* the reference's book for the scheme the route names: only the steps about THAT scheme's file *)
Definition set_spec_step (auth : str) (s : hfile * list hfile) (h : set_step) : hfile * list hfile :=
  match h with
  | SsFile n hs => if beq n auth then spec_step s hs else s
  | SsReq _ _ => s
  end.

Inductive case :=
(* the real Route.addTarget on opts {allow, deny}: parsed rule map, whether ProcessAccessRules
   returned an error, and per probe address (impl denyByIP, netip reference admits) *)
| CRule (e : env) (impl_rules : rules) (impl_err : bool) (probes : list (ipaddr * bool * bool))
(* the real HTTPProxy.ServeHTTP: [present] = Lookup returned the target; [schemes] = registered
   scheme names with "these credentials are right" by construction of the htpasswd file;
   [split] = net.SplitHostPort(RemoteAddr); [xff] = all X-Forwarded-For field values;
   e_ip holds net.ParseIP's answer for the zone-stripped text of the host and of every element;
   [sem] = net/netip meaning (zone dropped, unmapped) of the host and of every listed element;
   [ref_admit] = the harness's own netip decision; [redirect] = the route's redirect option
   (0 = the route forwards; 301/302/307/308: the target comes out of the real Table.Lookup as a
   per-request copy); [via] = how an upstream contact is observed: 0 = round trips of the proxy's
   Transport (plain GET, 2 = Accept: text/event-stream), 1 = Upgrade: websocket, connections a
   loopback listener behind the target accepted (the raw dial path; status not compared when the
   dial happened); observables: status, upstream hits, whether a Location header was set *)
| CHttp (e : env) (present : bool) (via : N) (redirect : N) (auth : str) (schemes : list (str * bool))
        (remote : str) (split : option str) (xff : list str)
        (sem : list (str * option (bool * N))) (ref_admit : bool) (status hits : N) (has_location : bool)
(* the real tcp.Proxy (0) / tcp.SNIProxy (1) / tcp.DynamicProxy (2) ServeTCP on a scripted
   connection: number of connections the upstream listener saw *)
| CTcp (e : env) (present : bool) (proxy : N) (peer : tcp_peer) (ref_admit : bool) (dials : N)
(* the real gRPC proxy (grpc_proxy.TransparentHandler(GetGRPCDirector) + GrpcProxyInterceptor.Stream
   behind ListenAndServeGRPC) in front of a real gRPC backend, the route coming out of the real
   addTarget with opts proto=grpc + allow/deny/auth: [peer] = the caller's address as the proxy's
   listener sees it, [reached] = calls the backend served, [ok] = the caller got status OK *)
| CGrpc (e : env) (auth : str) (schemes : list (str * bool)) (peer : ipaddr) (ref_admit : bool)
        (reached : N) (ok : bool)
(* one request of a history against ONE HTTPProxy whose route has auth=<auth>, the scheme being a
   basic scheme with refresh > 0 loaded by the real auth.LoadAuthSchemes from a file with content
   [init] (ModTime mt0): [hist] = what happened to the file and what was seen of the refresh
   goroutine before this request (requests made at an HsBad point run INSIDE the goroutine's
   bad-line callback, i.e. between noticing the change and the swap); [nreq] = requests served
   earlier in the history; [cr] = request.BasicAuth() of this request; observables as in CHttp *)
| CReload (redirect : N) (auth : str) (init : hfile) (mt0 : N) (hist : list hstep) (nreq : N) (cr : bcreds)
          (status hits : N) (has_location : bool)
(* one request of a history against ONE HTTPProxy whose AuthSchemes were loaded by the real
   auth.LoadAuthSchemes from [cfg] (name -> realm, htpasswd content, ModTime; several schemes, realms
   equal or not) and whose table (the real route.NewTable) has one route per scheme, a route naming
   an unknown scheme and a route without auth option: [hist] = the requests served before (on
   whichever route) and what happened to the schemes' files; [auth] = the auth option of the route
   this request is routed to; [cr] = its request.BasicAuth(); observables as in CHttp plus
   [challenge] = the realm announced in the WWW-Authenticate header of the answer, if any *)
| CSchemes (redirect : N) (cfg : schemes_cfg) (hist : list set_step) (auth : str) (cr : bcreds)
           (status hits : N) (has_location : bool) (challenge : option str)
(* the real HTTPProxy.ServeHTTP on a WHOLE request: [q] = r.Method, r.RemoteAddr and the header map
   exactly as the handler received it (canonical keys, every key once, all field values); the route
   comes out of the real Table.Lookup ([present] = it returned a target) with opts allow / deny /
   auth=<auth> / redirect=<redirect>; p.AuthSchemes = the real auth.LoadAuthSchemes on [cfg] (static
   htpasswd files); [basic] = the real request.BasicAuth() of a request carrying each Authorization
   value that occurs; [split], e_ip, [sem] as in CHttp, the address strings being the peer and every
   element of every X-Forwarded-For value; [ref_admit] = the harness's netip decision over the peer
   and the X-Forwarded-For lines it GENERATED; [ref_auth] = by construction of the request: the
   route has no auth option, or the generator put a user line of the route's own scheme's file into
   the first Authorization field; observables: status, round trips of the proxy's Transport,
   connections the loopback listener behind the target accepted (the raw dial of the websocket
   path), Location set, the realm of the WWW-Authenticate header if any *)
| CGate (e : env) (present : bool) (redirect : N) (auth : str) (cfg : schemes_cfg)
        (basic : list (str * bcreds)) (q : hrequest) (split : option str)
        (sem : list (str * option (bool * N))) (ref_admit ref_auth : bool)
        (status rt_hits dials : N) (has_location : bool) (challenge : option str)
(* one connection served by the real tcp.Proxy.ServeTCP whose Lookup is the real Table.LookupHost
   (rr or rnd picker) on a table built by the real route.NewTableCustom with ONE route :port and
   SEVERAL targets, each with allow / deny options of its own: [targets] = per target its options
   (with the library answers and the netip reading, as in CTcp), whether the instance behind it
   accepts connections (a listener) or is gone (a bound socket that does not listen: the dial is
   refused), and the harness's netip decision for this peer under THAT target's options;
   [picks] = what the calls of p.Lookup returned while this connection was served, in order (index
   of the target, None = nil); observables: [accepts] = connections each target's listener accepted,
   [closed] = the client connection was closed when ServeTCP returned *)
| CTcpRoute (targets : list (env * bool * bool)) (picks : list (option N)) (peer : tcp_peer)
            (accepts : list N) (closed : bool).

Definition check_case (c : case) : N :=
  match c with
  | CRule e impl_rules impl_err probes =>
      let '(mr, mok) := m_rules e in
      let same := rules_eqb mr impl_rules && Bool.eqb (negb mok) impl_err
                  && forallb (fun p => Bool.eqb (deny_by_ip mr (Some (fst (fst p)))) (snd (fst p))) probes in
      let sane := rule_queries_ok e && ref_matches e
                  && forallb (fun p => Bool.eqb (ref_admits (e_ref e) (canon (fst (fst p)))) (snd p)) probes in
      (* the property: not denied by the implementation -> admitted by the reference reading of
         the parsable items ("never widens").  That a rule error installs exactly deny-all is the
         code's choice: it is part of [same] (the model predicts it), not of the spec. *)
      let spec := forallb (fun p => snd (fst p) || snd p) probes in
      if negb sane then v_disagree else
      (* no known-finding region is left (F-C12-1 fixed by 1cbe751) *)
      verdict same spec None (negb (rules_empty mr) || negb mok)
  | CHttp e present via redirect auth schemes remote split xff sem ref_admit status hits has_location =>
      let '(mr, mok) := m_rules e in
      let pip := oracle (e_ip e) in
      let sh := fun s => if beq s remote then split else None in
      let ev := serve_http pip sh unit
                  (if present then Some {| t_rules := mr; t_auth := auth; t_redirect := redirect |} else None)
                  (scheme_tab schemes) remote xff tt in
      let m_obs := match ev with
                   | [ERespond s] => (s, 0, false)
                   | [ERedirect c] => (c, 0, true)
                   | [EUpstream] => (200, 1, false)
                   | _ => (0, 99, false)
                   end in
      (* websocket: after the dial the answer goes over the hijacked connection, not the recorder *)
      let ws_dialled := (via =? 1) && (snd (fst m_obs) =? 1) in
      let same := (ws_dialled || (fst (fst m_obs) =? status)) && (snd (fst m_obs) =? hits)
                  && Bool.eqb (snd m_obs) has_location && (via <? 3) in
      (* every address string the request carries: the peer and every element of every field value *)
      let strs := match split with
                  | None => []
                  | Some host => host :: flat_map (fun v => map trim_space (split_byte v 44)) xff
                  end in
      (* route.parseIP: net.ParseIP of the text with its zone cut *)
      let pipz := fun s => pip (strip_zone s) in
      let addrs := flat_map (fun s => match oracle sem s with Some a => [a] | None => [] end) strs in
      let admitted_ref := forallb (ref_admits (e_ref e)) addrs in
      let auth_ref := if is_nil auth then true else
                      match lookup schemes auth with Some b => b | None => false end in
      (* [strict]: well-formed rule and every address string of the request is an address both
         for the code (ParseIP after cutting the zone) and for net/netip.  There the decision is
         fully determined; elsewhere (rule errors, see below; hostname peers and garbage such as
         "1.2.3.4%eth0", which the code reads as 1.2.3.4 and netip rejects) only the safe
         direction is demanded, so that a fail-closed reading does not alarm. *)
      let strict := mok && forallb (fun s => is_some (pipz s) && is_some (oracle sem s)) strs in
      (* THE PROPERTY, on the implementation's observables and the netip reference:
           upstream contacted or redirect answered  =>  admitted and authorised;
           not admitted                            =>  403 (or 401 when the scheme rejects too), no upstream;
           admitted, not authorised                =>  401, no upstream.
         Everything beyond it (exact status order, 200 after exactly one round trip, that an
         admitted and authorised request IS forwarded, deny-all after a rule error) is the
         model's prediction and is compared in [same]: a deviation there is reported as a broken
         correspondence, not as a failing input of the property. *)
      let contacted := negb (hits =? 0) in
      let redirected := negb (redirect =? 0) && (status =? redirect) && has_location in
      let spec := if negb present then hits =? 0 else
                  match split with
                  | None =>
                      (* no peer address to check; nothing is forwarded (addHeaders answers 500); a
                         redirect route may answer, but only to accepted credentials *)
                      (hits =? 0) && (negb redirected || auth_ref)
                  | Some _ =>
                      if contacted || redirected then admitted_ref && auth_ref
                      else if negb admitted_ref then (status =? 403) || (negb auth_ref && (status =? 401))
                      else if negb auth_ref then (status =? 401) || (negb strict && (status =? 403))
                      else true
                  end in
      let sane := rule_queries_ok e && ref_matches e && Bool.eqb admitted_ref ref_admit
                  && forallb (fun s => covered (e_ip e) (strip_zone s)) strs && forallb (covered sem) strs
                  (* whatever netip reads as an address the code reads as the same address (zone
                     cut, Coq's canon = netip's Unmap): no string is an address for the reference
                     and nil for the code, which is why regions 2 and 3 are gone *)
                  && forallb (fun s => match oracle sem s with
                                       | Some a => match pipz s with
                                                   | Some ip => canon_eqb a (canon ip)
                                                   | None => false
                                                   end
                                       | None => true
                                       end) strs in
      (* no known-finding region is left: F-C12-1 (rule errors, 1cbe751), F-C12-2 (zone-scoped
         addresses, f5e2970) and F-C12-3 (several field values, 273c6ed) were repaired *)
      let region : option N := None in
      if negb sane then v_disagree else
      verdict same spec region (present && (negb (rules_empty mr) || negb mok || negb (is_nil auth)))
  | CTcp e present proxy peer ref_admit dials =>
      let '(mr, mok) := m_rules e in
      let ev := serve_tcp (if present then Some {| t_rules := mr; t_auth := []; t_redirect := 0 |} else None) peer in
      let same := count_upstream ev =? dials in
      let adm := match peer with
                 | TCPAddr (Some ip) => ref_admits (e_ref e) (canon ip)
                 | _ => true
                 end in
      (* the property: a dial only for an admitted peer (deny-all after a rule error and "an
         admitted peer IS dialled" are the model's predictions, compared in [same]) *)
      let spec := if negb present then dials =? 0 else
                  match peer with
                  | TCPAddr (Some _) => if adm then dials <=? 1 else dials =? 0
                  | _ => dials <=? 1
                  end in
      let sane := rule_queries_ok e && ref_matches e && Bool.eqb adm ref_admit && (proxy <? 3) in
      if negb sane then v_disagree else
      verdict same spec None (present && (negb (rules_empty mr) || negb mok))
    | CGrpc e auth schemes peer ref_admit reached ok =>
      let '(mr, mok) := m_rules e in
      let ev := serve_grpc (Some {| t_rules := mr; t_auth := auth; t_redirect := 0 |}) in
      let same := (count_upstream ev =? reached) && Bool.eqb ok (reached =? 1) in
      let adm := ref_admits (e_ref e) (canon peer) in
      let auth_ref := if is_nil auth then true else
                      match lookup schemes auth with Some b => b | None => false end in
      let spec := if reached =? 0 then true else adm && auth_ref in
      let sane := rule_queries_ok e && ref_matches e && Bool.eqb adm ref_admit in
      (* region 4 (F-C12-4, open), syntactic: a gRPC route that carries an access or auth option *)
      let region := if negb (is_nil (e_allow e)) || negb (is_nil (e_deny e)) || negb (is_nil auth)
                    then Some 4 else None in
      if negb sane then v_disagree else
      verdict same spec region (negb (rules_empty mr) || negb mok || negb (is_nil auth))
  | CReload redirect auth init mt0 hist nreq cr status hits has_location =>
      let fuel := hist_fuel init hist in
      let st := fold_left (replay_step fuel) hist (Some (rboot init mt0)) in
      let remote := [49; 57; 50; 46; 48; 46; 50; 46; 55; 58; 52; 55; 49; 49] in     (* 192.0.2.7:4711 *)
      let m_obs := match st with
                   | None => (0, 99, false)
                   | Some st =>
                       match serve_http (fun _ => None) (fun _ => Some (firstn 9 remote)) bcreds
                               (Some {| t_rules := no_rules; t_auth := auth; t_redirect := redirect |})
                               (basic_scheme_table auth st) remote [] cr with
                       | [ERespond s] => (s, 0, false)
                       | [ERedirect c] => (c, 0, true)
                       | [EUpstream] => (200, 1, false)
                       | _ => (0, 99, false)
                       end
                   end in
      let same := (fst (fst m_obs) =? status) && (snd (fst m_obs) =? hits) && Bool.eqb (snd m_obs) has_location in
      (* THE PROPERTY on the implementation's observables: forwarded (or redirected) only if the
         credentials are accepted by the content last seen in force or, while a change is
         pending, by one of the pending contents; otherwise 401 and no upstream *)
      let '(stable, pending) := fold_left spec_step hist (init, []) in
      let acceptable := existsb (fun f => file_accepts_b f cr) (stable :: pending) in
      let contacted := negb (hits =? 0) in
      let redirected := negb (redirect =? 0) && (status =? redirect) && has_location in
      let spec := if contacted || redirected then acceptable
                  else if negb acceptable then status =? 401 else true in
      (* the reference reads a file as a set of (user, password) lines: no user twice *)
      let sane := forallb (fun f => str_nodup (users_of f)) (hist_files init hist) && negb (is_nil auth) in
      if negb sane then v_disagree else
      verdict same spec None true
  | CSchemes redirect cfg hist auth cr status hits has_location challenge =>
      let fuel := set_fuel cfg hist in
      let ss := fold_left (set_replay_step fuel) hist (Some (sboot cfg)) in
      let remote := [49; 57; 50; 46; 48; 46; 50; 46; 55; 58; 52; 55; 49; 49] in     (* 192.0.2.7:4711 *)
      let m_obs := match ss with
                   | None => (0, 99, false, None)
                   | Some ss =>
                       let chal := route_challenge auth ss cr in
                       match serve_http (fun _ => None) (fun _ => Some (firstn 9 remote)) bcreds
                               (Some {| t_rules := no_rules; t_auth := auth; t_redirect := redirect |})
                               (set_table ss) remote [] cr with
                       | [ERespond s] => (s, 0, false, chal)
                       | [ERedirect c] => (c, 0, true, chal)
                       | [EUpstream] => (200, 1, false, chal)
                       | _ => (0, 99, false, chal)
                       end
                   end in
      let '(m_status, m_hits, m_loc, m_chal) := m_obs in
      let same := (m_status =? status) && (m_hits =? hits) && Bool.eqb m_loc has_location
                  && opt_eqb beq m_chal challenge in
      (* THE PROPERTY on the implementation's observables: forwarded (or redirected) only if the
         route names no scheme, or names a configured scheme whose OWN file - the content last seen
         in force or, while a change is pending, one of the pending contents - accepts the
         credentials; otherwise 401 and no upstream.  The other schemes' files, the realms and the
         requests served before do not occur in it. *)
      let acceptable :=
          is_nil auth ||
          match sget cfg auth with
          | None => false
          | Some k =>
              let '(stable, pending) := fold_left (set_spec_step auth) hist (bc_file k, []) in
              existsb (fun f => file_accepts_b f cr) (stable :: pending)
          end in
      let contacted := negb (hits =? 0) in
      let redirected := negb (redirect =? 0) && (status =? redirect) && has_location in
      let spec := if contacted || redirected then acceptable
                  else if negb acceptable then status =? 401 else true in
      (* the reference reads a file as a set of (user, password) lines: no user twice; a Go map has
         every scheme name once *)
      let sane := forallb (fun f => str_nodup (users_of f)) (set_files cfg hist)
                  && str_nodup (map fst cfg) in
      if negb sane then v_disagree else
      verdict same spec None true
  | CGate e present redirect auth cfg basic q split sem ref_admit ref_auth status rt_hits dials has_location challenge =>
      let '(mr, mok) := m_rules e in
      let pip := oracle (e_ip e) in
      let remote := q_remote q in
      let sh := fun s => if beq s remote then split else None in
      let pba := fun a => match lookup basic a with Some c => c | None => no_bcreds end in
      let ss := sboot cfg in
      let t := if present then Some {| t_rules := mr; t_auth := auth; t_redirect := redirect |} else None in
      let ev := serve_http_request pip sh pba t (set_table ss) q in
      let m_chal := request_challenge pip sh pba t ss q in
      let ws := is_websocket q in
      (* (status, round trips, dials, Location); websocket: the upstream is dialled, the answer goes
         over the hijacked connection, not the recorder *)
      let m_obs := match ev with
                   | [ERespond s] => (s, 0, 0, false)
                   | [ERedirect c] => (c, 0, 0, true)
                   | [EUpstream] => if ws then (0, 0, 1, false) else (200, 1, 0, false)
                   | _ => (0, 99, 99, false)
                   end in
      let '(m_status, m_rt, m_dials, m_loc) := m_obs in
      let ws_dialled := ws && (m_dials =? 1) in
      let same := (ws_dialled || (m_status =? status)) && (m_rt =? rt_hits) && (m_dials =? dials)
                  && Bool.eqb m_loc has_location && opt_eqb beq m_chal challenge in
      (* every address string the request carries, read off the header map *)
      let xff := request_xff q in
      let strs := match split with
                  | None => []
                  | Some host => host :: flat_map (fun v => map trim_space (split_byte v 44)) xff
                  end in
      let pipz := fun s => pip (strip_zone s) in
      let addrs := flat_map (fun s => match oracle sem s with Some a => [a] | None => [] end) strs in
      let admitted_ref := forallb (ref_admits (e_ref e)) addrs in
      (* the credentials of the request: what net/http reads from the first Authorization value *)
      let cr := request_creds pba q in
      let auth_ref := is_nil auth ||
                      match sget cfg auth with
                      | Some k => file_accepts_b (bc_file k) cr
                      | None => false
                      end in
      let strict := mok && forallb (fun s => is_some (pipz s) && is_some (oracle sem s)) strs in
      (* THE PROPERTY on the implementation's observables, as for CHttp: an upstream contact (round
         trip or dial) or a redirect answer => admitted and authorised; not admitted => 403 (or 401
         when the scheme rejects too); admitted, not authorised => 401.  The method and the other
         headers do not occur in it. *)
      let contacted := negb (rt_hits =? 0) || negb (dials =? 0) in
      let redirected := negb (redirect =? 0) && (status =? redirect) && has_location in
      let spec := if negb present then negb contacted else
                  match split with
                  | None => negb contacted && (negb redirected || auth_ref)
                  | Some _ =>
                      if contacted || redirected then admitted_ref && auth_ref
                      else if negb admitted_ref then (status =? 403) || (negb auth_ref && (status =? 401))
                      else if negb auth_ref then (status =? 401) || (negb strict && (status =? 403))
                      else true
                  end in
      let a := h_get (q_headers q) k_authorization in
      let sane := rule_queries_ok e && ref_matches e && Bool.eqb admitted_ref ref_admit
                  && Bool.eqb auth_ref ref_auth
                  && forallb (fun s => covered (e_ip e) (strip_zone s)) strs && forallb (covered sem) strs
                  && forallb (fun s => match oracle sem s with
                                       | Some a => match pipz s with
                                                   | Some ip => canon_eqb a (canon ip)
                                                   | None => false
                                                   end
                                       | None => true
                                       end) strs
                  (* a Go map has every key once; every Authorization value read was asked about *)
                  && str_nodup (map fst (q_headers q)) && str_nodup (map fst cfg)
                  && (is_nil a || covered basic a)
                  && forallb (fun k => str_nodup (users_of (bc_file (snd k)))) cfg in
      if negb sane then v_disagree else
      verdict same spec None (present && (negb (rules_empty mr) || negb mok || negb (is_nil auth)))
  | CTcpRoute targets picks peer accepts closed =>
      let envs := map (fun t => fst (fst t)) targets in
      let alive := map (fun t => snd (fst t)) targets in
      let ref_admit := map snd targets in
      let ts := map (fun e => fst (m_rules e)) envs in
      let c := tconn_of peer (map (option_map N.to_nat) picks) alive in
      let tr := serve_tcp_route ts c in
      let idx := seq 0 (List.length targets) in
      let m_accepts := map (accepts_of tr) idx in
      (* the model: ONE call of Lookup, the instance of that target accepts a connection iff its own
         rules admit the peer and it is alive, nobody else is contacted, the client is closed *)
      let same := list_eqb N.eqb m_accepts accepts && (lookups_of tr =? N.of_nat (List.length picks)) && closed in
      let adm := fun e => match peer with
                          | TCPAddr (Some ip) => ref_admits (e_ref e) (canon ip)
                          | _ => true
                          end in
      (* THE PROPERTY on the implementation's observables: an instance accepted a connection only if
         the access rules of ITS target admit the peer (netip reading); at most one instance is
         contacted.  Which target Lookup picked and which instances are gone do not occur in it. *)
      let total := fold_right N.add 0 accepts in
      let spec := forallb (fun p => (fst p =? 0) || snd p) (combine accepts ref_admit) && (total <=? 1) in
      let sane := forallb (fun e => rule_queries_ok e && ref_matches e) envs
                  && list_eqb Bool.eqb (map adm envs) ref_admit
                  && Nat.eqb (List.length accepts) (List.length targets)
                  && forallb (fun p => match p with Some i => i <? N.of_nat (List.length targets) | None => true end) picks in
      if negb sane then v_disagree else
      verdict same spec None (existsb (fun e => negb (rules_empty (fst (m_rules e))) || negb (snd (m_rules e))) envs)
  end.
