(** Correspondence check for C08, evaluated by [vm_compute] on the cases the Go
    harness wrote: inputs next to what the real fabio code (and, end to end, the real
    httputil.ReverseProxy / Request.Write / ReadRequest) produced on them. *)
From Coq Require Import String List NArith ZArith Bool.
From Fabio Require Import Lib.Outcome Lib.Bytes Lib.Verdict Model.Headers Model.HeadersSpec Model.HeaderLines Model.HeadersRouted.
Import ListNotations.
Local Open Scope N_scope.

(* equality of header maps as maps (binding order is not observable) *)
Definition hmap_eq_on (ks : list str) (a b : hmap) : bool :=
  forallb (fun k => veq (hfind a k) (hfind b k)) ks.
Definition hmap_eqb (a b : hmap) : bool := hmap_eq_on (map fst a ++ map fst b) a b.

(* the keys C08 talks about *)
Definition managed_keys (cfg : config) : list str :=
  builtin_keys ++
  filter (fun k => negb (sempty k))
         [canon_key (c_clientip cfg); canon_key (c_tlsheader cfg); canon_key (c_reqid cfg)].

Definition forged (cfg : config) (hdr : hmap) : bool :=
  existsb (fun k => match hfind hdr k with Some _ => true | None => false end)
          (K_CONN :: K_UPGRADE :: managed_keys cfg).

Inductive case :=
(* textproto.CanonicalMIMEHeaderKey(key) *)
| CCanon (key impl : str)
(* scheme(r) / localPort(r) through the hook *)
| CScheme (h : hmap) (tls : bool) (impl : str)
| CPort (host : str) (tls : bool) (impl : str)
(* net.SplitHostPort(hp): Some (host, port) or None for an error (ties [split_host_port]) *)
| CSplit (hp : str) (impl : option (str * str))
(* addHeaders(r, cfg, strip) through the hook: the whole header map afterwards *)
| CAdd (cfg : config) (strip : str) (r : request) (impl : outcome hmap)
(* addResponseHeaders: values of Strict-Transport-Security on the response afterwards *)
| CResp (cfg : config) (tls : bool) (impl : list str)
(* HTTPProxy.ServeHTTP end to end: header map received by the upstream (recording
   RoundTripper / loopback upstream for websocket), STS values at the client; [uhost] = the
   Host the upstream received (the host= rewrite, which runs after addHeaders) *)
| CServe (cfg : config) (t : target) (uuid : str) (r : request) (impl : outcome (hmap * list str))
         (uhost : str)
         (ups : list str)   (* Strict-Transport-Security values of the UPSTREAM's response (passed through) *)
         (real : bool)      (* true: [impl]'s STS values are what a client on a real connection received; on the
                               websocket path the connection is hijacked and the ResponseWriter's header map,
                               STS included, is never sent.  false: the header map of a recording ResponseWriter *)
(* the header map the real net/http server handed to fabio for the header lines a client wrote
   (ties [parse_lines]; spec: no key without a value, i.e. no nil "do not populate" marker) *)
| CLines (lines : list hline) (seen : hmap)
(* header lines -> net/http server -> HTTPProxy.ServeHTTP -> real http.Transport behind
   ReverseProxy / websocket handler -> loopback upstream: [r] = connection data and header map
   as net/http handed them to fabio, [impl] = header map the upstream READ OFF THE WIRE and the
   STS values the client received, [uhost] = the Host line the upstream read *)
| CWire (cfg : config) (t : target) (uuid : str) (r : request) (lines : list hline)
        (impl : outcome (hmap * list str)) (uhost : str) (ups : list str)
(* the same two, THROUGH THE ROUTING STAGE: HTTPProxy.Lookup is the real Table.Lookup of a table
   built by route.NewTable (several hosts, glob patterns, redirect routes in front of a
   fall-through route, allow= / deny= rules, host= / strip= options), followed by the real
   AccessDeniedHTTP / Authorized.  [r] / [lines] = the request as the CLIENT sent it (snapshot taken
   before Lookup ran), [d] = the decision the real routing stage took (Model/HeadersRouted.v) *)
| CRouted (cfg : config) (d : decision) (uuid : str) (r : request) (impl : outcome (hmap * list str))
          (uhost : str) (ups : list str) (real : bool)
| CRoutedWire (cfg : config) (d : decision) (uuid : str) (r : request) (lines : list hline)
              (impl : outcome (hmap * list str)) (uhost : str) (ups : list str).

(* the part of the client's Strict-Transport-Security values that is not the upstream's *)
Fixpoint drop_prefix (l p : list str) : option (list str) :=
  match p with
  | [] => Some l
  | x :: p' => match l with y :: l' => if beq x y then drop_prefix l' p' else None | [] => None end
  end.
Definition strip_suffix (l sfx : list str) : option (list str) :=
  match drop_prefix (rev l) (rev sfx) with Some r => Some (rev r) | None => None end.

Definition peer_of (r : request) : str := match r_peer r with Some p => p | None => [] end.

(* Open regions: 5 and 6 (Model/HeadersSpec.v), syntactic on the client's Forwarded /
   X-Forwarded-Proto headers.
   [in_region]: the INPUT lies in some known-finding region (an implementation that
   differs from the defective model there but meets every clause has been repaired: no
   alarm); when a clause fails, every failing clause must be explained by a region that
   applies to the input, otherwise the failure is reported.
   [cl] = the clauses on the implementation's observables, [clm] = on the model's.
   An implementation that differs from the model (say, because one of two defects that
   apply to the same input was repaired) and still fails a clause is reported as the
   known finding only if every clause it fails is explained by a region AND is also
   failed by the defective model (it does nothing new wrong); otherwise it is a violation. *)
(* the header each clause of [clauses] is about, in the same order *)
Definition clause_keys (cfg : config) : list str :=
  [canon_key (c_clientip cfg); K_XFF; K_XRI; canon_key (c_tlsheader cfg); K_XFP; K_XFPORT; K_XFH; K_FWD].

Definition judge (same : bool) (cl clm : list (bool * option N)) (keq : list bool)
           (extra : bool) (in_region nontrivial : bool) : N :=
  let spec := all_hold cl && extra in
  let region := if negb extra then None
                else if all_hold cl then (if in_region then Some 0 else None)
                else failing_region cl in
  if same || spec then verdict same spec region nontrivial
  else
    (* a clause may fail on the implementation only if it fails on the model too AND the
       implementation's value of that clause's header is the model's *)
    let no_new_failure :=
        forallb (fun p => fst (fst (fst p)) || (negb (fst (snd (fst p))) && snd p))
                (combine (combine cl clm) keq)
        && (length cl =? length clm)%nat && (length cl =? length keq)%nat in
    match region with
    | Some k => if no_new_failure then v_known k else v_disagree_spec_fails
    | None => v_disagree_spec_fails
    end.

(* [m] = the model's header map at the upstream + STS, [mh] = the model's upstream Host, [nf_ok] =
   whether "nothing was forwarded" is a legitimate outcome for this input *)
Definition check_serve_gen (m : outcome (hmap * option str)) (mh : outcome str) (nf_ok : bool)
           (cfg : config) (r : request) (impl : outcome (hmap * list str))
           (uhost : str) (ups : list str) (real : bool) : N :=
      match impl, m with
      | Ok (hi, si), Ok (hm, sm) =>
          let hdr := r_hdr r in
          let same := hmap_eq_on (managed_keys cfg) hi hm &&
                      list_eqb beq si (if real && takes_ws_path hm then []
                                       else (match sm with Some v => [v] | None => [] end) ++ ups) &&
                      match mh with Ok uh => beq uhost uh | _ => false end in
          let clf up := if cfg_sane cfg
                        then clauses cfg hdr (peer_of r) (r_host r) (spec_port (r_host r) (is_tls r)) (is_tls r) true up
                        else [] in
          judge same (clf hi) (clf hm)
                (if cfg_sane cfg then map (fun k => veq (hfind hi k) (hfind hm k)) (clause_keys cfg) else [])
                (match strip_suffix si ups with Some own => cl_sts cfg (is_tls r) own | None => true end)
                (negb (no_region hdr)) (forged cfg hdr)
      | Err _, Err _ => verdict true nf_ok None false
      | Panic, Panic => v_model_spec_fails
      | Panic, _ => v_disagree_spec_fails
      | _, _ => v_disagree
      end.

Definition check_wire_gen (m : outcome (hmap * option str)) (mh : outcome str) (nf_ok : bool)
           (cfg : config) (r : request) (lines : list hline) (impl : outcome (hmap * list str))
           (uhost : str) (ups : list str) : N :=
      (* the clauses are judged against the header map of the LINES (no key without a value,
         Proofs.HeaderLines.lines_wf: the X-Forwarded-For clause is never excused here) *)
      let hdr := parse_lines lines in
      match impl, m with
      | Ok (hi, si), Ok (hm, sm) =>
          let same := hmap_eqb (r_hdr r) hdr &&
                      hmap_eq_on (managed_keys cfg) hi hm &&
                      list_eqb beq si (if takes_ws_path hm then []
                                       else (match sm with Some v => [v] | None => [] end) ++ ups) &&
                      match mh with Ok uh => beq uhost uh | _ => false end in
          let clf up := if cfg_sane cfg
                        then clauses cfg hdr (peer_of r) (r_host r) (spec_port (r_host r) (is_tls r)) (is_tls r) true up
                        else [] in
          judge same (clf hi) (clf hm)
                (if cfg_sane cfg then map (fun k => veq (hfind hi k) (hfind hm k)) (clause_keys cfg) else [])
                (match strip_suffix si ups with Some own => cl_sts cfg (is_tls r) own | None => true end)
                (negb (no_region hdr)) (forged cfg hdr || existsb blank_line lines)
      | Err _, Err _ => verdict true nf_ok None false
      | Panic, Panic => v_model_spec_fails
      | Panic, _ => v_disagree_spec_fails
      | _, _ => v_disagree
      end.

Definition peer_unreadable (r : request) : bool := match r_peer r with None => true | _ => false end.

Definition check_case (c : case) : N :=
  match c with
  | CCanon key impl =>
      verdict (beq impl (canon_key key)) (beq (canon_key impl) impl) None (negb (beq impl key))
  | CScheme h tls impl =>
      let m := scheme h tls in
      (* spec: with neither header present the scheme describes the connection *)
      let spec := negb (fresh h) ||
                  mem impl (if tls then [bs "https"; bs "wss"] else [bs "http"; bs "ws"]) in
      (* inside regions 5 / 6 scheme() believes the client's header: an implementation that does
         not (a repair) differs from the model there without being wrong *)
      verdict (beq impl m) spec (if no_region h then None else Some 5) (negb (fresh h))
  | CPort host tls impl =>
      (* spec: the independent declarative description of the port a Host value names *)
      verdict (beq impl (local_port host tls)) (beq impl (spec_port host tls)) None
              (match index_byte host 58 with Some _ => true | None => false end)
  | CSplit hp impl =>
      let eqb a b := match a, b with
                     | Some (h1, p1), Some (h2, p2) => beq h1 h2 && beq p1 p2
                     | None, None => true
                     | _, _ => false end in
      verdict (eqb impl (split_host_port hp))
              (* whatever the library answers, host ++ ":" ++ port (with brackets put back) is the input *)
              (match impl with
               | Some (h, p) => beq hp (h ++ 58 :: p) || beq hp (91 :: h ++ 93 :: 58 :: p)
               | None => true end)
              None (match impl with Some _ => true | None => false end)
  | CAdd cfg strip r impl =>
      let m := add_headers cfg strip r in
      match impl, m with
      | Ok hi, Ok hm =>
          let hdr := r_hdr r in
          let clf up := if cfg_sane cfg
                        then clauses cfg hdr (peer_of r) (r_host r) (spec_port (r_host r) (is_tls r)) (is_tls r) (is_ws hdr) up
                        else [] in
          judge (hmap_eqb hi hm) (clf hi) (clf hm)
                (if cfg_sane cfg then map (fun k => veq (hfind hi k) (hfind hm k)) (clause_keys cfg) else []) true
                (negb (no_region hdr)) (forged cfg hdr)
      | Err _, Err _ => verdict true (match r_peer r with None => true | _ => false end) None false
      | Panic, Panic => v_model_spec_fails
      | Panic, _ => v_disagree_spec_fails
      | _, _ => v_disagree
      end
  | CResp cfg tls impl =>
      let m := match add_response_headers cfg tls with Some v => [v] | None => [] end in
      verdict (list_eqb beq impl m) (cl_sts cfg tls impl) None tls
  | CServe cfg t uuid r impl uhost ups real =>
      check_serve_gen (serve cfg t uuid r) (upstream_host cfg t uuid r) (peer_unreadable r) cfg r impl uhost ups real
  | CLines lines seen =>
      verdict (hmap_eqb seen (parse_lines lines)) (wf_hdr seen) None (existsb blank_line lines)
  | CWire cfg t uuid r lines impl uhost ups =>
      check_wire_gen (serve_lines cfg t uuid r lines) (upstream_host_wire cfg t uuid (req_of_lines r lines))
                     (peer_unreadable r) cfg r lines impl uhost ups
  | CRouted cfg d uuid r impl uhost ups real =>
      check_serve_gen (serve_routed cfg d uuid r) (upstream_host_routed cfg d uuid r) (not_forwarded_ok d r)
                      cfg r impl uhost ups real
  | CRoutedWire cfg d uuid r lines impl uhost ups =>
      check_wire_gen (serve_routed_lines cfg d uuid r lines) (upstream_host_routed_wire cfg d uuid r lines)
                     (not_forwarded_ok d r) cfg r lines impl uhost ups
  end.
