(** What the correspondence check computes per case, inside Coq, by [vm_compute].
    A case carries the input the harness generated and the observables the real
    fabio code produced on it.  [check_case] re-computes the model's observables,
    compares, and evaluates the property's boolean specification on the
    implementation's own observables.  The verdict is encoded as one [N] so that
    the result list prints compactly and is parsed trivially. *)
From Coq Require Import NArith List.
Import ListNotations.
Local Open Scope N_scope.

(* 0       implementation = model, case trivial for the property (by the stated rule)
   1       implementation = model, case non-trivial
   2       implementation <> model and the spec FAILS on the implementation's
           observables  ->  violation with this input as the failing input
   3       implementation <> model, spec holds on / is not decidable from the
           implementation's observables  ->  correspondence broken, no failing input
   4       implementation = model but the spec fails outside every known-finding
           region (a theorem says this cannot happen; kept as a tripwire)
   100+k   implementation = (defective) model inside known-finding region k:
           the spec fails here exactly as recorded in KNOWN_FINDINGS.json *)
Definition v_agree_trivial : N := 0.
Definition v_agree : N := 1.
Definition v_disagree_spec_fails : N := 2.
Definition v_disagree : N := 3.
Definition v_model_spec_fails : N := 4.
Definition v_known (k : N) : N := 100 + k.

(* the common shape: [same] = impl observables equal model observables,
   [spec_impl] = spec_b on the implementation's observables,
   [region] = Some k when the input lies in known-finding region k,
   [nontrivial] = the property's non-triviality rule *)
Definition verdict (same spec_impl : bool) (region : option N) (nontrivial : bool) : N :=
  if same then
    if spec_impl then (if nontrivial then v_agree else v_agree_trivial)
    else match region with Some k => v_known k | None => v_model_spec_fails end
  else
    if spec_impl then
      (* inside a known-finding region an implementation that differs from the
         (defective) model but satisfies the spec has been repaired: no alarm *)
      match region with Some _ => v_agree | None => v_disagree end
    else v_disagree_spec_fails.
