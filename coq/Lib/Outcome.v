(** Outcomes of Go code: a value, an error return, or a run-time panic.
    Gallina is total, Go is not; every place where Go's run-time checks would
    fire (index out of range, slice bounds, nil dereference, division by zero,
    negative make, explicit panic) is an explicit [Panic] in the models. *)
From Coq Require Import List NArith Bool.
Import ListNotations.

Inductive outcome (A : Type) : Type :=
| Ok (a : A)
| Err (kind : N)      (* the Go function returned an error / false; [kind] is a small enum *)
| Panic.              (* the Go code would panic here *)
Arguments Ok {A} a.
Arguments Err {A} kind.
Arguments Panic {A}.

Definition bind {A B} (r : outcome A) (f : A -> outcome B) : outcome B :=
  match r with Ok a => f a | Err k => Err k | Panic => Panic end.

Declare Scope outcome_scope.
Delimit Scope outcome_scope with outcome.
Notation "'do' x <- r ; k" := (bind r (fun x => k))
  (at level 200, x name, right associativity) : outcome_scope.
Notation "'do' ' p <- r ; k" := (bind r (fun x => match x with p => k end))
  (at level 200, p pattern, right associativity) : outcome_scope.
(* the code's own guards: [check b else e ; k]  ==  if !b { return err(e) } ; k *)
Notation "'check' b 'else' e ; k" := (if b then k else Err e)
  (at level 200, right associativity) : outcome_scope.

Definition is_panic {A} (r : outcome A) : bool :=
  match r with Panic => true | _ => false end.
Definition is_ok {A} (r : outcome A) : bool :=
  match r with Ok _ => true | _ => false end.

Lemma bind_ok {A B} (r : outcome A) (f : A -> outcome B) a :
  r = Ok a -> bind r f = f a.
Proof. intros ->. reflexivity. Qed.

Lemma bind_not_panic {A B} (r : outcome A) (f : A -> outcome B) :
  r <> Panic -> (forall a, r = Ok a -> f a <> Panic) -> bind r f <> Panic.
Proof. destruct r; cbn; intros H1 H2; auto; discriminate. Qed.
