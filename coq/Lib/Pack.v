(** Fast byte-string literals for generated case files.  Coq 8.16 type-checks a
    [string] or [list N] literal at ~100us per byte, which dominated the
    correspondence runs; a list of primitive 63-bit integers is an order of
    magnitude cheaper.  The harness packs 7 bytes big-endian per integer (the last
    one zero-padded) and gives the true length:  [pk 9 [6196953087574272; 65792]].
    Used by generated case files only; no theorem mentions it. *)
From Coq Require Import List NArith ZArith.
From Coq Require Export Uint63.
Import ListNotations.

Definition byte_at (x : int) (shift : int) : N :=
  Z.to_N (Uint63.to_Z (Uint63.land (Uint63.lsr x shift) 255%uint63)).

Definition unpack7 (x : int) : list N :=
  [byte_at x 48%uint63; byte_at x 40%uint63; byte_at x 32%uint63; byte_at x 24%uint63;
   byte_at x 16%uint63; byte_at x 8%uint63; byte_at x 0%uint63].

Definition pk (n : int) (l : list int) : list N :=
  firstn (Z.to_nat (Uint63.to_Z n)) (flat_map unpack7 l).
