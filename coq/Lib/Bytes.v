(** Byte strings.  A Go [string]/[[]byte] is a [list N] whose elements are < 256
    (the harness only ever produces such lists: [hx] of a hex literal).
    [N] rather than [ascii] so that length fields, case folding and ordering are
    plain arithmetic that [lia] decides. *)
From Coq Require Import List NArith Bool Ascii String Lia.
Import ListNotations.
Local Open Scope N_scope.

Definition byte := N.
Definition str := list N.

(* ---- hex literals written by the harness:  hx "48656c6c6f"  ---- *)
Definition hexval (c : ascii) : N :=
  let n := N_of_ascii c in
  if (48 <=? n) && (n <=? 57) then n - 48
  else if (97 <=? n) && (n <=? 102) then n - 87
  else if (65 <=? n) && (n <=? 70) then n - 55
  else 0.

Fixpoint hx (s : string) : str :=
  match s with
  | String a (String b r) => (hexval a * 16 + hexval b) :: hx r
  | _ => []
  end.

(* plain ASCII literals for hand-written examples:  bs "foo.com" *)
Fixpoint bs (s : string) : str :=
  match s with
  | EmptyString => []
  | String a r => N_of_ascii a :: bs r
  end.

(* ---- generic list equality ---- *)
Section ListEqb.
  Context {A : Type} (eqb : A -> A -> bool).
  Fixpoint list_eqb (a b : list A) : bool :=
    match a, b with
    | [], [] => true
    | x :: a', y :: b' => eqb x y && list_eqb a' b'
    | _, _ => false
    end.
  Hypothesis eqb_spec : forall x y, eqb x y = true <-> x = y.
  Lemma list_eqb_eq a b : list_eqb a b = true <-> a = b.
  Proof.
    revert b; induction a as [|x a IH]; intros [|y b]; cbn; split; intros H;
      try reflexivity; try discriminate.
    - apply andb_true_iff in H as [H1 H2]. apply eqb_spec in H1. apply IH in H2. congruence.
    - inversion H; subst. apply andb_true_iff; split; [now apply eqb_spec | now apply IH].
  Qed.
End ListEqb.

Definition beq : str -> str -> bool := list_eqb N.eqb.
Lemma beq_eq a b : beq a b = true <-> a = b.
Proof. apply list_eqb_eq. intros x y. apply N.eqb_eq. Qed.
Lemma beq_refl a : beq a a = true.
Proof. now apply beq_eq. Qed.
Lemma beq_neq a b : beq a b = false <-> a <> b.
Proof.
  split; intros H.
  - intros E. apply beq_eq in E. congruence.
  - destruct (beq a b) eqn:E; [apply beq_eq in E; contradiction | reflexivity].
Qed.

Definition opt_eqb {A} (eqb : A -> A -> bool) (a b : option A) : bool :=
  match a, b with
  | Some x, Some y => eqb x y
  | None, None => true
  | _, _ => false
  end.
Lemma opt_eqb_eq {A} (eqb : A -> A -> bool)
      (H : forall x y, eqb x y = true <-> x = y) a b :
  opt_eqb eqb a b = true <-> a = b.
Proof.
  destruct a, b; cbn; split; intros E; try discriminate; try reflexivity.
  - apply H in E. congruence.
  - inversion E; subst. now apply H.
Qed.

(* ---- prefixes and suffixes (strings.HasPrefix / HasSuffix) ---- *)
Fixpoint has_prefix (s p : str) {struct p} : bool :=
  match p with
  | [] => true
  | y :: p' => match s with
               | x :: s' => (x =? y) && has_prefix s' p'
               | [] => false
               end
  end.
Lemma has_prefix_spec s p : has_prefix s p = true <-> exists r, s = p ++ r.
Proof.
  revert s; induction p as [|y p IH]; intros s; cbn.
  - split; [intros _; now exists s | reflexivity].
  - destruct s as [|x s]; [split; [discriminate | intros [r H]; discriminate]|].
    rewrite andb_true_iff, N.eqb_eq, IH. split.
    + intros [-> [r ->]]. now exists r.
    + intros [r H]. inversion H; subst. split; [reflexivity | now exists r].
Qed.

Definition has_suffix (s p : str) : bool := has_prefix (rev s) (rev p).
Lemma has_suffix_spec s p : has_suffix s p = true <-> exists r, s = r ++ p.
Proof.
  unfold has_suffix. rewrite has_prefix_spec. split; intros [r H].
  - exists (rev r). apply (f_equal (@rev N)) in H.
    rewrite rev_involutive, rev_app_distr, rev_involutive in H. exact H.
  - exists (rev r). subst s. now rewrite rev_app_distr.
Qed.

(* strings.TrimPrefix *)
Definition trim_prefix (s p : str) : str :=
  if has_prefix s p then skipn (List.length p) s else s.

(* ---- ASCII case folding (strings.ToLower restricted to ASCII input) ---- *)
Definition is_upper (c : N) : bool := (65 <=? c) && (c <=? 90).
Definition is_lower (c : N) : bool := (97 <=? c) && (c <=? 122).
Definition lower_byte (c : N) : N := if is_upper c then c + 32 else c.
Definition upper_byte (c : N) : N := if is_lower c then c - 32 else c.
Definition lower (s : str) : str := map lower_byte s.
Definition upper (s : str) : str := map upper_byte s.

Lemma lower_byte_idem c : lower_byte (lower_byte c) = lower_byte c.
Proof.
  unfold lower_byte, is_upper.
  destruct ((65 <=? c) && (c <=? 90)) eqn:E; [|now rewrite E].
  apply andb_true_iff in E as [E1 E2]. apply N.leb_le in E1, E2.
  destruct ((65 <=? c + 32) && (c + 32 <=? 90)) eqn:E'; [|reflexivity].
  apply andb_true_iff in E' as [E3 E4]. apply N.leb_le in E3, E4. lia.
Qed.
Lemma lower_idem s : lower (lower s) = lower s.
Proof. unfold lower. rewrite map_map. apply map_ext. apply lower_byte_idem. Qed.
Lemma lower_length s : List.length (lower s) = List.length s.
Proof. apply map_length. Qed.
Lemma lower_app a b : lower (a ++ b) = lower a ++ lower b.
Proof. apply map_app. Qed.

(* ---- searching (strings.IndexByte, strings.Index, strings.Contains) ---- *)
Fixpoint index_byte (s : str) (c : N) : option nat :=
  match s with
  | [] => None
  | x :: s' => if x =? c then Some O
               else match index_byte s' c with Some i => Some (S i) | None => None end
  end.

Fixpoint index (s sub : str) : option nat :=
  if has_prefix s sub then Some O else
  match s with
  | [] => None
  | _ :: s' => match index s' sub with Some i => Some (S i) | None => None end
  end.

Definition contains (s sub : str) : bool :=
  match index s sub with Some _ => true | None => false end.

(* strings.LastIndexByte *)
Definition last_index_byte (s : str) (c : N) : option nat :=
  match index_byte (rev s) c with
  | Some i => Some (List.length s - 1 - i)%nat
  | None => None
  end.

(* strings.Split(s, string(sep)) for a single-byte separator: never empty *)
Fixpoint split_byte (s : str) (sep : N) : list str :=
  match s with
  | [] => [[]]
  | x :: s' =>
      if x =? sep then [] :: split_byte s' sep
      else match split_byte s' sep with
           | [] => [[x]]            (* unreachable *)
           | w :: ws => (x :: w) :: ws
           end
  end.

(* strings.Join *)
Fixpoint join (l : list str) (sep : str) : str :=
  match l with
  | [] => []
  | [x] => x
  | x :: l' => x ++ sep ++ join l' sep
  end.

(* ---- lexicographic byte order (Go's < on strings) ---- *)
Fixpoint str_cmp (a b : str) : comparison :=
  match a, b with
  | [], [] => Eq
  | [], _ :: _ => Lt
  | _ :: _, [] => Gt
  | x :: a', y :: b' =>
      match x ?= y with
      | Eq => str_cmp a' b'
      | c => c
      end
  end.
Definition str_ltb (a b : str) : bool :=
  match str_cmp a b with Lt => true | _ => false end.

Lemma str_cmp_eq a b : str_cmp a b = Eq <-> a = b.
Proof.
  revert b; induction a as [|x a IH]; intros [|y b]; cbn; split; intros H;
    try reflexivity; try discriminate.
  - destruct (x ?= y) eqn:E; try discriminate.
    apply N.compare_eq in E. apply IH in H. congruence.
  - inversion H; subst. rewrite N.compare_refl. now apply IH.
Qed.

Lemma str_cmp_antisym a b : str_cmp b a = CompOpp (str_cmp a b).
Proof.
  revert b; induction a as [|x a IH]; intros [|y b]; cbn; try reflexivity.
  rewrite (N.compare_antisym x y). destruct (x ?= y); cbn; auto.
Qed.

(* ---- decimal rendering of naturals (strconv.Itoa for non-negative values) ---- *)
Fixpoint digits_fuel (fuel : nat) (n : N) (acc : str) : str :=
  match fuel with
  | O => acc
  | S f => let acc' := (48 + n mod 10) :: acc in
           if n / 10 =? 0 then acc' else digits_fuel f (n / 10) acc'
  end.
Definition itoa (n : N) : str := digits_fuel (S (N.to_nat (N.log2 n))) n [].

Definition all_lt_256 (s : str) : bool := forallb (fun c => c <? 256) s.
