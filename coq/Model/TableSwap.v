(** C02 - the integration model: how a routing table is built, installed and read.

    (a) the atomic cell     route/table.go:26-67   [table atomic.Value], SetTable (nil ignored),
                            GetTable (one Load); readers load once and compute on the snapshot.
    (b) the update loops    main.go:576-631 watchBackend (C01's Model/Watch.v, instantiated with
                            the composed builder below; a Go panic in the builder kills the
                            process: the loop has no recover), registry/custom/custom.go:76-86
                            (NewTableCustom; on error SetTable(nil), which is ignored).
    (c) the composed build  route.NewTable = Parse (C05 Model/RouteText.v) -> command loop (C05
                            Model/TableCmd.v [apply_def]) in which EVERY addTarget / filter /
                            setWeight ends in weighTargets (C04 Model/Weigh.v on binary64 =
                            Model/WeighF.v, ring fill = Model/Ring.v), then the sort; and
                            Table.Lookup on the result: host matching (C03 Model/Lookup.v
                            [matching_hosts] / [matching_host_noglob], [path_match]) and the
                            pickers (C04 Model/Pick.v [lookup_rr]).
    Nothing of the imported models is copied or changed.  All Go panics are explicit.

    Since /repo 290c777 weighTargets falls back to an even split when a computed weight is unusable
    or no slot is used (C04's [route_ring] follows; the code before is [ring_unrepaired]).
    Since /repo c9fb527 addRoute compiles a host that is added for the first time (C05's [add_route]
    follows), so every host key of a built table is a valid glob and matchingHosts' MustCompile is
    unreachable for tables NewTable returns (Proofs/TableSwap.v: [build_keys_ok]).  The builder
    without that check is kept as [add_route_unrepaired] / [full_build_unrepaired] for the
    refutation theorems only.  Since /repo 9bd16b3 the custom backend decodes every poll into a
    fresh slice ([decode_fresh]); the decoder that wrote into the previous poll's definitions is
    kept as [decode_carry_unrepaired].

    Weights.  C05's tables carry fixed weights as [wt] (an exact dyadic value m * 2^e, m < 2^53,
    unbounded exponent); weighTargets works on float64.  [wt_f64] is the rounding of that value to
    binary64 (nearest even, overflow to infinity, gradual underflow).  For a weight literal the
    harness hands over the exact value of strconv.ParseFloat's result ("Inf" as 2^1024, which
    rounds to +Inf; subnormals exactly), so the composition is exact for every weight that
    reaches a table through `route add`.  `route weight` divides by the number of matching
    targets inside C05's model (one rounding to 53 bits, unbounded exponent): that equals
    float64 division whenever operand and quotient are zero or normal, or n = 1.  Inputs outside
    ([weight_cmds_exact]) are excluded by the harness and by [check_case].  NaN has no [wt]
    (excluded; the harness still requires that such texts do not crash the real code).

    Which routes are re-weighed by a command ([touched]): Go re-weighs the route an add / weight
    command changed, and every route a del command filtered (before the sweep removes emptied
    ones: weighTargets on zero targets takes the no-fixed-weight branch and cannot panic).  The
    model re-weighs the same routes as found in the table AFTER the command.  Routes a command
    leaves alone keep their targets, and weighTargets is a function of the FixedWeight vector, so
    they were weighed successfully when they were last changed.
    No proofs in this file. *)
From Coq Require Import List NArith ZArith Bool.
From Flocq Require Import IEEE754.BinarySingleNaN IEEE754.Binary IEEE754.Bits.
From Fabio Require Import Lib.Outcome Lib.Bytes Model.WtF64 Model.TableCmd Model.RouteText
     Model.Weigh Model.WeighF Model.Ring Model.Pick.
From Fabio Require Model.Lookup Model.Watch.
Import ListNotations.
Local Open Scope outcome_scope.

(* ====================================================================================== *)
(** * (a) the atomic cell under every interleaving                                          *)
(* ====================================================================================== *)
Section Cell.
  Variable T : Type.          (* a complete, immutable-after-publish routing table *)
  Variable Q C R : Type.      (* request; picker state / random choice; lookup result *)
  Variable look : T -> Q -> C -> R.     (* Table.Lookup on ONE table *)

  (* route.SetTable: nil is logged and ignored *)
  Definition set_table (cell : T) (o : option T) : T :=
    match o with Some t => t | None => cell end.

  Inductive action :=
  | ASet (o : option T)                  (* any writer: route.SetTable(t); None = nil *)
  | ALoad (r : nat)                      (* reader r: t := route.GetTable()  (one atomic Load) *)
  | ALookup (r : nat) (q : Q) (c : C)    (* reader r: t.Lookup(q) on ITS t *)
  | ARead (r : nat) (k : N).             (* any other user of route.GetTable(): the admin API's routes
                                            handler (k = 0; 1 with ?raw), Table.String (2), Table.Dump (3),
                                            the gRPC pool's hasTarget scan (4), logRoutes (5), the
                                            tcp-dynamic port scan (6): GetTable() and a function that only
                                            READS the table - the published table is never written *)

  Definition locals := nat -> option T.
  Definition no_locals : locals := fun _ => None.
  Definition set_local (l : locals) (r : nat) (t : T) : locals :=
    fun r' => if Nat.eqb r' r then Some t else l r'.

  (* one atomic action; the output of a lookup: reader, request, choice, result
     (None = the reader has not loaded a table yet: not a program of the form above) *)
  Definition cell_step (cell : T) (l : locals) (a : action)
    : T * locals * option (nat * Q * C * option R) :=
    match a with
    | ASet o => (set_table cell o, l, None)
    | ALoad r => (cell, set_local l r cell, None)
    | ALookup r q c => (cell, l, Some (r, q, c, match l r with Some t => Some (look t q c) | None => None end))
    | ARead _ _ => (cell, l, None)
    end.

  Fixpoint run_cell (cell : T) (l : locals) (s : list action) : list (nat * Q * C * option R) :=
    match s with
    | [] => []
    | a :: s' => let '(cell', l', o) := cell_step cell l a in
                 match o with Some x => x :: run_cell cell' l' s' | None => run_cell cell' l' s' end
    end.

  (* state after a schedule *)
  Fixpoint exec_cell (cell : T) (l : locals) (s : list action) : T * locals :=
    match s with
    | [] => (cell, l)
    | a :: s' => let '(cell', l', _) := cell_step cell l a in exec_cell cell' l' s'
    end.

  (* ---- specification side: no machine state ---- *)
  (* the table in the cell after the schedule [s]: the last non-nil table stored, else the first *)
  Fixpoint current (t0 : T) (s : list action) : T :=
    match s with
    | [] => t0
    | ASet (Some t) :: s' => current t s'
    | _ :: s' => current t0 s'
    end.
  Definition is_load_of (r : nat) (a : action) : bool :=
    match a with ALoad r' => Nat.eqb r' r | _ => false end.
  Definition no_load (r : nat) (s : list action) : bool := negb (existsb (is_load_of r) s).
  Definition is_lookup (a : action) : bool := match a with ALookup _ _ _ => true | _ => false end.
  Definition is_read (a : action) : bool := match a with ARead _ _ => true | _ => false end.
  (* the schedule without its read-only actions *)
  Definition without_reads (s : list action) : list action := filter (fun a => negb (is_read a)) s.
  Definition count_lookups (s : list action) : nat := length (filter is_lookup s).
  (* what the writers stored, in order *)
  Definition sets_of (s : list action) : list (option T) :=
    flat_map (fun a => match a with ASet o => [o] | _ => [] end) s.
  Definition no_set_some (s : list action) : bool :=
    forallb (fun o => match o with Some _ => false | None => true end) (sets_of s).
  (* the complete tables that were ever installed *)
  Definition installed (t0 : T) (s : list action) (t : T) : Prop := t = t0 \/ In (ASet (Some t)) s.
End Cell.
Arguments ASet {T Q C}. Arguments ALoad {T Q C}. Arguments ALookup {T Q C}. Arguments ARead {T Q C}.

(* ====================================================================================== *)
(** * (c) the composed build                                                               *)
(* ====================================================================================== *)

(** the float64 a [wt] denotes *)
Definition wt_f64 (w : wt) : f64 :=
  match w with
  | WZ => f64_of_Z 0
  | WP m e => binary_normalize 53 1024 Hprec53 Hmax1024 mode_NE (Z.of_N m) e false
  | WN m e => binary_normalize 53 1024 Hprec53 Hmax1024 mode_NE (- Z.of_N m) e false
  end.

(** the FixedWeight vector of a route *)
Definition fixed_of (r : route) : list f64 := map (fun t => wt_f64 (t_fw t)) (r_targets r).

(** weighTargets of C04 on binary64 (route.go since 290c777: unusable weights or no slot at all fall
    back to an even split), keeping the ring.  A probe loop that never ends (C04's [Err diverges])
    stops the update loop as surely as a panic and is reported as [Panic]; C04 proves that neither
    happens ([C04_binary64_never_panics]). *)
Definition ring_faithful (order : list (nat * Z) -> list (nat * Z)) (fixed : list f64) : outcome ring :=
  match route_ring arithF order fixed with
  | Ok (_, r) => Ok r
  | _ => Panic
  end.

(** weighTargets BEFORE /repo 290c777 (C04's [route_ring_unrepaired]); refutation theorems only *)
Definition ring_unrepaired (order : list (nat * Z) -> list (nat * Z)) (fixed : list f64) : outcome ring :=
  match route_ring_unrepaired arithF order fixed with
  | Ok (_, r) => Ok r
  | _ => Panic
  end.

Definition zsum_counts (cs : list Z) : Z := fold_right Z.add 0%Z cs.

(** ---- where the code before 290c777 crashed, as predicates on a FixedWeight vector (the slot
         counts it computed, route.go:289-298 on [weigh_unrepaired]); documentation of the
         repaired findings, no theorem about the current code mentions them ---- *)
Definition counts_unrepaired (fixed : list f64) : list Z := map (slot_count arithF) (weigh_unrepaired arithF fixed).
Definition has_fixed (fixed : list f64) : bool := negb (Nat.eqb (n_fixed arithF fixed) 0).
(* F-C02-1 / F-C02-3: some slot count is negative (int(NaN), int(+Inf), int(x >= 2^63) = -2^63) *)
Definition F_C02_negative_slots (fixed : list f64) : bool :=
  has_fixed fixed && existsb (fun n => n <? 0)%Z (counts_unrepaired fixed).
(* F-C02-2: fixed weights are present but nobody gets a slot: the ring is empty *)
Definition F_C02_empty_ring (fixed : list f64) : bool :=
  has_fixed fixed && forallb (fun n => 0 <=? n)%Z (counts_unrepaired fixed)
  && (zsum_counts (counts_unrepaired fixed) =? 0)%Z.

(** the same ring up to its content, without running the fill loop where C04's
    [ring_of_counts_spec] says what it produces (Proofs/TableSwap.v: [ring_fast_length]);
    evaluated by the correspondence check, where only the ring's length is observable *)
Definition ring_fast (order : list (nat * Z) -> list (nat * Z)) (fixed : list f64) : outcome ring :=
  if uses_fill arithF fixed then
    let cs := map (slot_count arithF) (weigh_unrepaired arithF fixed) in   (* = weigh here *)
    if forallb (fun n => 0 <=? n)%Z cs && (zsum_counts cs <=? 2^45)%Z
    then Ok (repeat (Some 0%nat) (Z.to_nat (zsum_counts cs)))
    else match ring_of_counts_scan (order (indexed cs)) cs with
         | Ok r => Ok r
         | _ => Panic
         end
  else Ok (map Some (seq 0 (length fixed))).

(** a route with its ring, a table of them *)
Definition broute := (route * ring)%type.
Definition btable := list (str * list broute).
Definition forget (bt : btable) : table := map (fun hr => (fst hr, map fst (snd hr))) bt.

Definition e_invalid_cmd : N := 12%N.     (* "route: invalid command: ..." (NewTableCustom only; 11 is C05's e_invalid_host) *)

(* ---- bufio.Scanner's token limit (route.Parse, parse_new.go:72-100).  C05's [parse] is the parser on
        texts whose lines the scanner can hold; this composition adds the limit.  A line - the bytes
        between two newlines, a trailing \r included - of bufio.MaxScanTokenSize = 65536 bytes or more
        ends the scan (65535 bytes + newline still fit; checked on the real code for lines in the
        middle, at the end with and without newline, CRLF, comment and blank lines).  The lines before
        it have been parsed in order, so an earlier syntax error wins.  Since /repo 5dd66bf Parse
        reports scanner.Err() ("token too long"); before, it returned the definitions of the lines
        before the long one and nil: [scan_parse_unrepaired]. ---- *)
Definition e_line_too_long : N := 13%N.   (* "line n: bufio.Scanner: token too long" *)
Definition e_no_defs : N := 14%N.         (* "route: no route definitions" (NewTableCustom(nil), since 618785e) *)
Definition max_scan_token : N := 65536%N.
Definition too_long (l : str) : bool := (max_scan_token <=? N.of_nat (length l))%N.
Fixpoint short_prefix (ls : list str) : list str :=       (* the lines before the first too long one *)
  match ls with
  | [] => []
  | l :: ls' => if too_long l then [] else l :: short_prefix ls'
  end.
Definition has_long_line (text : str) : bool := existsb too_long (split_byte text 10).

Section Scan.
  Variable pweight : str -> outcome wt.
  Definition scan_parse (text : str) : outcome (list def) :=
    let ls := split_byte text 10 in
    if existsb too_long ls
    then do _ <- parse_lines pweight (short_prefix ls); Err e_line_too_long
    else parse pweight text.
  (* route.Parse before 5dd66bf: the scan just ends *)
  Definition scan_parse_unrepaired (text : str) : outcome (list def) :=
    parse_lines pweight (short_prefix (split_byte text 10)).
End Scan.

Section Build.
  Variable pweight : str -> outcome wt.       (* strconv.ParseFloat *)
  Variable canon : str -> option str.         (* url.Parse(dst).String() *)
  Variable glob_ok : str -> bool.             (* glob.Compile(path) succeeds *)
  Variable rb : list f64 -> outcome ring.     (* weighTargets: [ring_faithful order] *)

  (* the routes whose weighTargets runs in the command [d], as they are in the table after it *)
  Definition touched (d : def) (t' : table) : list route :=
    match d_cmd d with
    | CmdDel => flat_map snd t'
    | _ => let '(h0, p) := hostpath (d_src d) in
           match get_route (lower h0) p t' with Some r => [r] | None => [] end
    end.

  Fixpoint weigh_all (rs : list route) : outcome unit :=
    match rs with
    | [] => Ok tt
    | r :: rs' => do _ <- rb (fixed_of r); weigh_all rs'
    end.

  (* one command of NewTable's loop, including the weighTargets runs inside it *)
  Definition build_step (t : table) (d : def) : outcome table :=
    do t' <- apply_def canon glob_ok t d;
    do _ <- weigh_all (touched d t');
    Ok t'.

  Fixpoint build_from (t : table) (ds : list def) : outcome table :=
    match ds with
    | [] => Ok t
    | d :: ds' => do t' <- build_step t d; build_from t' ds'
    end.

  (* the table as the lookups see it: every route with the ring weighTargets left on it *)
  Fixpoint ring_routes (rs : list route) : outcome (list broute) :=
    match rs with
    | [] => Ok []
    | r :: rs' => do g <- rb (fixed_of r); do l <- ring_routes rs'; Ok ((r, g) :: l)
    end.
  Fixpoint ring_table (t : table) : outcome btable :=
    match t with
    | [] => Ok []
    | (h, rs) :: t' => do l <- ring_routes rs; do bt <- ring_table t'; Ok ((h, l) :: bt)
    end.

  (* the command loop + final sort of NewTable / NewTableCustom *)
  Definition build_defs (ds : list def) : outcome btable :=
    do t <- build_from [] ds; ring_table (sort_table t).

  (* route.NewTable *)
  Definition full_build (text : str) : outcome btable :=
    do ds <- scan_parse pweight text; build_defs ds.
  (* NewTable before 5dd66bf (refutation theorem only) *)
  Definition full_build_scan_unrepaired (text : str) : outcome btable :=
    do ds <- scan_parse_unrepaired pweight text; build_defs ds.

  (* route.NewTableCustom: the definitions arrive decoded from JSON; [None] = a Cmd that is none
     of the three commands ("route: invalid command") *)
  Fixpoint custom_from (t : table) (ds : list (option def)) : outcome table :=
    match ds with
    | [] => Ok t
    | None :: _ => Err e_invalid_cmd
    | Some d :: ds' => do t' <- build_step t d; custom_from t' ds'
    end.
  Definition custom_build (ds : list (option def)) : outcome btable :=
    do t <- custom_from [] ds; ring_table (sort_table t).
  (* the argument is a pointer: nil (a poll body `null`) is an error since /repo 618785e *)
  Definition custom_build_ptr (o : option (list (option def))) : outcome btable :=
    match o with
    | None => Err e_no_defs
    | Some ds => custom_build ds
    end.

  (* every route state a command sequence goes through (weighTargets ran on it) and the routes of
     the final table; uses C05's command layer only *)
  Fixpoint reached (t : table) (ds : list def) : list route :=
    match ds with
    | [] => flat_map snd t
    | d :: ds' => match apply_def canon glob_ok t d with
                  | Ok t' => touched d t' ++ reached t' ds'
                  | _ => []
                  end
    end.

  (* `route weight` commands whose division C05's model performs exactly as float64 does *)
  Fixpoint weight_cmds_exact (t : table) (ds : list def) : bool :=
    match ds with
    | [] => true
    | d :: ds' =>
        (match d_cmd d with
         | CmdWeight =>
             let '(h0, p) := hostpath (d_src d) in
             match get_route (lower h0) p t with
             | Some r => let n := count_match (d_svc d) (d_tags d) r in
                         (n <=? 1)%N || (w_in_range (d_w d) && w_in_range (w_divn (d_w d) n))
             | None => true
             end
         | _ => true
         end)
        && match apply_def canon glob_ok t d with
           | Ok t' => weight_cmds_exact t' ds'
           | _ => true
           end
    end.
End Build.

(* ---- the builder before /repo c9fb527: addRoute compiled the path only (refutation theorems) ---- *)
Section BuildUnrepaired.
  Variable pweight : str -> outcome wt.
  Variable canon : str -> option str.
  Variable glob_ok : str -> bool.
  Variable rb : list f64 -> outcome ring.

  Definition add_route_unrepaired (t : table) (d : def) : outcome table :=
    let '(host0, path) := hostpath (d_src d) in
    let host := lower host0 in
    match d_src d with [] => Err e_invalid_prefix | _ =>
    match d_dst d with [] => Err e_invalid_target | _ =>
    match canon (d_dst d) with None => Err e_url | Some url =>
      let fresh := add_target (d_svc d) url (d_w d) (d_tags d) (d_opts d)
                              {| r_path := path; r_targets := [] |} in
      match lookup host t with
      | None => if glob_ok path then Ok (t ++ [(host, [fresh])]) else Err e_glob
      | Some _ => add_route canon glob_ok t d          (* existing hosts were never re-checked *)
      end
    end end end.
  Definition apply_def_c02_unrepaired (t : table) (d : def) : outcome table :=
    match d_cmd d with
    | CmdAdd => add_route_unrepaired t d
    | _ => apply_def canon glob_ok t d
    end.
  Definition build_step_unrepaired (t : table) (d : def) : outcome table :=
    do t' <- apply_def_c02_unrepaired t d;
    do _ <- weigh_all rb (touched d t');
    Ok t'.
  Fixpoint build_from_unrepaired (t : table) (ds : list def) : outcome table :=
    match ds with
    | [] => Ok t
    | d :: ds' => do t' <- build_step_unrepaired t d; build_from_unrepaired t' ds'
    end.
  Definition full_build_unrepaired (text : str) : outcome btable :=
    do ds <- parse pweight text;
    do t <- build_from_unrepaired [] ds;
    ring_table rb (sort_table t).
End BuildUnrepaired.

(* ====================================================================================== *)
(** * Table.Lookup on a built table                                                         *)
(* ====================================================================================== *)
Fixpoint bassoc (bt : btable) (h : str) : list broute :=
  match bt with
  | [] => []
  | (k, rs) :: bt' => if beq k h then rs else bassoc bt' h
  end.

(* the host keys as a C03 table (its host matching reads the keys only) *)
Definition keys_table (bt : btable) : Lookup.table := map (fun hr => (fst hr, [])) bt.

Section LookupFull.
  Variable hostglob_ok : str -> bool.   (* glob.Compile of a normalised host key succeeds *)

  (* Table.lookup (table.go:450-475) for one host: the first route whose path matches; its
     target through the picker (none: nil; one: Targets[0]; else rrPicker at cursor [total]) *)
  Definition pick_route (br : broute) (total : N) : outcome (option nat) :=
    do '(t, _) <- lookup_rr (length (r_targets (fst br))) (snd br) total; Ok t.

  Fixpoint look_hosts (bt : btable) (hosts : list str) (uri : str) (m : Lookup.matcher) (total : N)
    : outcome (option (str * str * nat)) :=
    match hosts with
    | [] => Ok None
    | h :: hs =>
        match List.find (fun br : broute => Lookup.path_match m uri (r_path (fst br))) (bassoc bt (lower h)) with
        | None => look_hosts bt hs uri m total
        | Some br =>
            do t <- pick_route br total;
            match t with
            | Some i => Ok (Some (lower h, r_path (fst br), i))
            | None => look_hosts bt hs uri m total          (* a nil target: try the next host *)
            end
        end
    end.

  (* Table.Lookup (table.go:399-444) without redirect options and tracing.  matchingHosts
     compiles EVERY key of the table; a key glob.Compile rejects reaches glob.MustCompile *)
  Definition lookup_full (bt : btable) (host : str) (tls : bool) (uri : str) (m : Lookup.matcher)
             (globoff : bool) (total : N) : outcome (option (str * str * nat)) :=
    if negb globoff && negb (forallb (fun k => hostglob_ok (Lookup.normalize_host k tls)) (map fst bt))
    then Panic
    else
      let hosts := if globoff then Lookup.matching_host_noglob (keys_table bt) host tls
                   else Lookup.matching_hosts (keys_table bt) host tls in
      look_hosts bt (hosts ++ [[]]) uri m total.

  (* Table.LookupHost (table.go: t.lookup(host, "/", "", pick, prefixMatcher)): the TCP / SNI proxies'
     entry point - the host is a table key, no host matching *)
  Definition lookup_host (bt : btable) (host : str) (total : N) : outcome (option (str * str * nat)) :=
    look_hosts bt [host] [47%N] Lookup.MPrefix total.

  (* F-C02-4: some host key of the table is not a valid glob *)
  Definition F_C02_bad_host_glob (bt : btable) (tls : bool) : bool :=
    negb (forallb (fun k => hostglob_ok (Lookup.normalize_host k tls)) (map fst bt)).
End LookupFull.

(* ====================================================================================== *)
(** * (b) the update loops with a builder that can crash                                     *)
(* ====================================================================================== *)
(* ---- the rest of the loop body.  main.go:617-621: route.ParseAliases(nextTable) runs on every
        candidate before NewTable (its error is only logged): the same line parser on strings.Split
        lines (no scanner, so no line limit and no \r handling beyond TrimSpace), then the values of the
        `register` option.  logRoutes (after SetTable) diffs the two texts with a third-party library
        and is NOT modelled: harness only (all four formats, white-space-only and equal-length classes). ---- *)
Fixpoint alias_lines (pweight : str -> outcome wt) (ls : list str) : outcome (list def) :=
  match ls with
  | [] => Ok []
  | l :: ls' =>
      do o <- parse_line pweight l;
      do ds <- alias_lines pweight ls';
      Ok (match o with Some d => d :: ds | None => ds end)
  end.
Definition k_register : str := [114; 101; 103; 105; 115; 116; 101; 114]%N.
Fixpoint opt_get (k : str) (m : list (str * str)) : option str :=
  match m with
  | [] => None
  | (k', v) :: m' => if beq k k' then Some v else opt_get k m'
  end.
Definition parse_aliases (pweight : str -> outcome wt) (text : str) : outcome (list str) :=
  do ds <- alias_lines pweight (split_byte text 10);
  Ok (flat_map (fun d => match opt_get k_register (d_opts d) with Some v => [v] | None => [] end) ds).
(* one candidate through the loop body: a panic in ParseAliases kills the process as surely as one in
   NewTable; its error return does not stop the build *)
Definition loop_body (aliases : str -> outcome (list str)) (build : str -> outcome btable) (text : str)
  : outcome btable :=
  match aliases text with Panic => Panic | _ => build text end.

Section Loops.
  Variable build : str -> outcome btable.        (* loop_body (parse_aliases ..) (full_build ..) *)

  (* what C01's loop model needs: None = NewTable returned an error *)
  Definition build_opt (text : str) : option btable :=
    match build text with Ok bt => Some bt | _ => None end.

  Inductive proc :=
  | Running (w : Watch.wstate btable)
  | Crashed.                                      (* unrecovered panic in the update goroutine *)

  (* one iteration of watchBackend's default branch: C01's [step], except that a candidate on
     which the builder panics ends the process *)
  Definition wstep (p : proc) (e : Watch.event) : proc :=
    match p with
    | Crashed => Crashed
    | Running w =>
        let w1 := Watch.receive btable w e in
        let next := Watch.next_text (Watch.w_svc w1) (Watch.w_man w1) in
        if beq next (Watch.w_last w1) then Running (Watch.step btable build_opt w e)
        else if is_panic (build next) then Crashed
        else Running (Watch.step btable build_opt w e)
    end.
  Definition wrun (p : proc) (h : list Watch.event) : proc := fold_left wstep h p.
  Fixpoint wtrace (p : proc) (h : list Watch.event) : list proc :=
    match h with
    | [] => []
    | e :: r => let p' := wstep p e in p' :: wtrace p' r
    end.
  (* the candidate texts a history makes the loop build *)
  Fixpoint candidates (w : Watch.wstate btable) (h : list Watch.event) : list str :=
    match h with
    | [] => []
    | e :: r =>
        let w1 := Watch.receive btable w e in
        let next := Watch.next_text (Watch.w_svc w1) (Watch.w_man w1) in
        (if beq next (Watch.w_last w1) then [] else [next]) ++ candidates (Watch.step btable build_opt w e) r
    end.
End Loops.

(* ---- the writers as sources of SetTable calls: what the update loop stores for a history, what
        the custom backend stores for a sequence of decoded polls ---- *)
Definition loop_emits (build : str -> outcome btable) (w : Watch.wstate btable) (h : list Watch.event)
  : list (option btable) :=
  map (build_opt build) (Watch.installs btable (build_opt build) w h).
Definition poll_emit (cbuild : list (option def) -> outcome btable) (ds : list (option def)) : option btable :=
  match cbuild ds with Ok bt => Some bt | _ => None end.      (* SetTable(t), t = nil on error *)

(* registry/custom/custom.go:76-86: t, err := NewTableCustom(defs); SetTable(t), where t = nil on
   error: the path relies on SetTable ignoring nil.  None = the polling goroutine panicked. *)
Definition custom_step (cbuild : list (option def) -> outcome btable) (cell : btable)
           (ds : list (option def)) : option btable :=
  match cbuild ds with
  | Panic => None
  | Ok bt => Some (set_table btable cell (Some bt))
  | Err _ => Some (set_table btable cell None)
  end.

(* ---- what a poll of the custom backend delivers: a JSON array of objects in which any key may
        be missing.  encoding/json leaves the field of a missing key as it finds it. ---- *)
Record rawdef := {
  w_cmd : option cmd;          (* None = a Cmd string that is none of the three commands ("" too) *)
  w_svc : str; w_src : str; w_dst : str; w_w : wt; w_tags : list str; w_opts : list (str * str)
}.
Definition raw_zero : rawdef :=
  {| w_cmd := None; w_svc := []; w_src := []; w_dst := []; w_w := WZ; w_tags := []; w_opts := [] |}.
Record jdef := {                (* None = the key is absent from the object *)
  j_cmd : option (option cmd);
  j_svc : option str; j_src : option str; j_dst : option str; j_w : option wt;
  j_tags : option (list str); j_opts : option (list (str * str))
}.
Definition oget {A} (o : option A) (d : A) : A := match o with Some a => a | None => d end.
(* decoding one object into an existing element *)
Definition merge (base : rawdef) (j : jdef) : rawdef :=
  {| w_cmd := oget (j_cmd j) (w_cmd base); w_svc := oget (j_svc j) (w_svc base);
     w_src := oget (j_src j) (w_src base); w_dst := oget (j_dst j) (w_dst base);
     w_w := oget (j_w j) (w_w base); w_tags := oget (j_tags j) (w_tags base);
     w_opts := oget (j_opts j) (w_opts base) |}.
Definition to_def (r : rawdef) : option def :=
  match w_cmd r with
  | Some c => Some {| d_cmd := c; d_svc := w_svc r; d_src := w_src r; d_dst := w_dst r; d_w := w_w r;
                      d_tags := w_tags r; d_opts := w_opts r |}
  | None => None
  end.
(* registry/custom/custom.go since 9bd16b3: `var Routes *[]route.RouteDef` inside the loop *)
Definition decode_fresh (js : list jdef) : list rawdef := map (merge raw_zero) js.
(* before: Decode(&Routes) into the slice of the previous poll - element i starts from the previous
   poll's element i (elements beyond the previous length start from the zero value) *)
Fixpoint decode_carry_unrepaired (prev : list rawdef) (js : list jdef) : list rawdef :=
  match js with
  | [] => []
  | j :: js' => match prev with
                | p :: prev' => merge p j :: decode_carry_unrepaired prev' js'
                | [] => merge raw_zero j :: decode_carry_unrepaired [] js'
                end
  end.
(* one poll: decode, NewTableCustom, SetTable *)
Definition custom_poll (cbuild : list (option def) -> outcome btable) (cell : btable) (js : list jdef)
  : option btable := custom_step cbuild cell (map to_def (decode_fresh js)).
(* the body of a poll may also be the JSON value null: Decode leaves Routes = nil.  Since /repo
   618785e NewTableCustom(nil) is an error (the table stays, through SetTable's nil guard); before, it
   dereferenced nil and the polling goroutine, which has no recover, panicked (F-C02-10) *)
Definition custom_poll_body (cbuild : list (option def) -> outcome btable) (cell : btable)
           (body : option (list jdef)) : option btable :=
  match body with
  | None => Some (set_table btable cell None)
  | Some js => custom_poll cbuild cell js
  end.
Definition custom_poll_body_unrepaired (cbuild : list (option def) -> outcome btable) (cell : btable)
           (body : option (list jdef)) : option btable :=
  match body with
  | None => None
  | Some js => custom_poll cbuild cell js
  end.
Definition custom_poll_unrepaired (cbuild : list (option def) -> outcome btable)
           (st : btable * list rawdef) (js : list jdef) : option (btable * list rawdef) :=
  let raws := decode_carry_unrepaired (snd st) js in
  match custom_step cbuild (fst st) (map to_def raws) with
  | Some cell' => Some (cell', raws)
  | None => None
  end.
