(** The binary64 instance of the weight arithmetic (Model/Weigh.v): Go's [float64]
    operations as Flocq's IEEE-754 binary64 (round to nearest even), bit for bit.
    Values travel between Go and Coq as [math.Float64bits].  [int(x)] is amd64's
    CVTTSD2SQ: NaN, infinities and values outside the int64 range give -2^63
    (platform assumption linux/amd64; the weight code has no [x*y+z] expression, so
    FMA fusion cannot change a result).  Used by the correspondence check only;
    no theorem of Properties/C04.v depends on this file.  No proofs in this file. *)
From Coq Require Import List ZArith NArith QArith Bool.
From Flocq Require Import IEEE754.BinarySingleNaN IEEE754.Binary IEEE754.Bits.
From Fabio Require Import Model.Weigh.
Import ListNotations.

Definition f64 := binary64.
Definition Hprec53 : (0 < 53)%Z := eq_refl.
Definition Hmax1024 : (53 < 1024)%Z := eq_refl.

Definition f64_of_Z (z : Z) : f64 := binary_normalize 53 1024 Hprec53 Hmax1024 mode_NE z 0 false.
Definition f64_gt (x y : f64) : bool :=
  match b64_compare x y with Some Gt => true | _ => false end.
Definition f64_lt (x y : f64) : bool :=
  match b64_compare x y with Some Lt => true | _ => false end.
Definition f64_trunc (x : f64) : Z :=
  if Binary.is_finite 53 1024 x then
    let z := Binary.Btrunc 53 1024 x in
    if ((min_int64 <=? z) && (z <? 2^63))%Z then z else min_int64
  else min_int64.

Definition f64_le (x y : f64) : bool :=
  match b64_compare x y with Some Lt | Some Eq => true | _ => false end.
(** float64(1+1e-9) = 0x3FF000000044B830 = (2^52 + 4503600) * 2^-52 *)
Definition f64_wmax : f64 := Binary.B754_finite 53 1024 false 4503599631874096 (-52) eq_refl.

Definition arithF : arith := {|
  num := f64;
  a_zero := f64_of_Z 0;
  a_one := f64_of_Z 1;
  a_max_slots := f64_of_Z 10000;
  a_add := b64_plus mode_NE;
  a_sub := b64_minus mode_NE;
  a_mul := b64_mult mode_NE;
  a_div := b64_div mode_NE;
  a_gt := f64_gt;
  a_lt := f64_lt;
  a_of_nat := fun n => f64_of_Z (Z.of_nat n);
  a_trunc := f64_trunc;
  a_le := f64_le;
  a_wmax := f64_wmax
|}.

(** bits: NaNs are canonicalised to one value (payloads are not observable through
    the property and differ between Flocq's choice and the hardware's default NaN) *)
Definition canon_nan : Z := 9221120237041090560%Z.   (* 0x7FF8000000000000 *)
Definition f64_bits (x : f64) : Z :=
  if Binary.is_nan 53 1024 x then canon_nan else bits_of_b64 x.
Definition f64_of_bits (z : Z) : f64 := b64_of_bits z.
Definition is_nan_bits (z : Z) : bool := Binary.is_nan 53 1024 (f64_of_bits z).
Definition canon_bits (z : Z) : Z := f64_bits (f64_of_bits z).

Definition f64_finite (x : f64) : bool := Binary.is_finite 53 1024 x.

(** the exact rational value of a finite binary64 (0 for non-finite ones) *)
Definition f64_to_Q (x : f64) : Q :=
  match x with
  | Binary.B754_finite _ _ s m e _ =>
      let mz := if s then Zneg m else Zpos m in
      match e with
      | Zneg p => mz # (2 ^ p)%positive
      | _ => inject_Z (mz * 2 ^ e)
      end
  | _ => 0%Q
  end.

Definition weighF (l : list Z) : list Z := map f64_bits (weigh arithF (map f64_of_bits l)).
Definition weighF_unrepaired (l : list Z) : list Z := map f64_bits (weigh_unrepaired arithF (map f64_of_bits l)).
