(** C09 - the listener's read / write timeouts (rt=, wt=) as proxy/tcp/server.go applies them
    to a tunnelled connection: every accepted connection is wrapped in [conn], whose Read
    arms the READ deadline of the inner connection (time.Now() + ReadTimeout) and whose Write
    arms its WRITE deadline (time.Now() + WriteTimeout), each before every single operation and
    only when the option is set.  Time is an abstract natural (the harness uses nanoseconds).

    A tunnel lives as long as its two copiers; a copier ends with an error when an operation of
    the wrapped connection is cut by its deadline, and that ends the tunnel at once (tunnel.go).
    So "every byte one side sends is delivered" needs: an operation is cut only when IT had to
    wait for the whole timeout - never because of what happened earlier on the connection, how
    long the conversation has lasted, or what the other direction did.  No proofs here. *)
From Coq Require Import List NArith Bool.
Import ListNotations.
Local Open Scope N_scope.

Inductive wkind := WRead | WWrite.

(* one call of conn.Read / conn.Write.  [w_now]: the clock when the wrapper starts it
   (its time.Now()); [w_avail]: the time at which the inner operation can complete - the peer's
   bytes are there / the peer takes the bytes (it may lie before [w_now]: data already waiting) *)
Record wop := { w_kind : wkind; w_now : N; w_avail : N }.

(* the two deadlines of the inner connection (None: none set) *)
Record wconn := { c_rd : option N; c_wd : option N }.
Definition fresh_conn : wconn := {| c_rd := None; c_wd := None |}.

Definition timeout_of (rt wt : N) (k : wkind) : N := match k with WRead => rt | WWrite => wt end.
Definition deadline_of (c : wconn) (k : wkind) : option N := match k with WRead => c_rd c | WWrite => c_wd c end.

(* `if c.ReadTimeout > 0 { c.c.SetReadDeadline(time.Now().Add(c.ReadTimeout)) }` *)
Definition arm (timeout now : N) (old : option N) : option N :=
  if 0 <? timeout then Some (now + timeout) else old.

(* net.Conn: an operation fails with a timeout iff its deadline passes before it can complete
   (a deadline that has passed already fails it at once, data or not) *)
Definition expires (dl : option N) (now avail : N) : bool :=
  match dl with None => false | Some d => d <=? N.max now avail end.

(* conn.Read / conn.Write: arm the deadline of this direction, then the inner operation.
   Result: the connection afterwards and whether the operation was cut by a timeout. *)
Definition wstep (rt wt : N) (c : wconn) (o : wop) : wconn * bool :=
  match w_kind o with
  | WRead =>
      let d := arm rt (w_now o) (c_rd c) in
      ({| c_rd := d; c_wd := c_wd c |}, expires d (w_now o) (w_avail o))
  | WWrite =>
      let d := arm wt (w_now o) (c_wd c) in
      ({| c_rd := c_rd c; c_wd := d |}, expires d (w_now o) (w_avail o))
  end.

(* a history of operations of one connection, in the order in which the wrapper starts them
   (the two copiers of the tunnel interleave freely): which of them are cut *)
Fixpoint wrun (rt wt : N) (c : wconn) (ops : list wop) : list bool :=
  match ops with
  | [] => []
  | o :: rest => let '(c1, cut) := wstep rt wt c o in cut :: wrun rt wt c1 rest
  end.

(* ---------- specification side (no state, no history) ---------- *)
(* an operation is cut iff a timeout is configured for its direction and the operation itself
   had to wait that long *)
Definition op_cut (rt wt : N) (o : wop) : bool :=
  let T := timeout_of rt wt (w_kind o) in (0 <? T) && (w_now o + T <=? w_avail o).

(* a live conversation: no operation has to wait as long as the timeout of its direction *)
Definition op_live (rt wt : N) (o : wop) : bool :=
  let T := timeout_of rt wt (w_kind o) in (T =? 0) || (w_avail o <? w_now o + T).

(* ---------- a conversation (the scripted one of the correspondence run) ----------
   [rounds] times: the proxy's Read of the client connection waits from [t] until the client
   answers at [t + gap]; just before that (at [t + gap]) the proxy writes the upstream's message
   to the client, which takes it at once; the next Read starts one tick later. *)
Fixpoint conversation (rounds : nat) (t gap : N) : list wop :=
  match rounds with
  | O => []
  | S r => {| w_kind := WRead; w_now := t; w_avail := t + gap |}
           :: {| w_kind := WWrite; w_now := t + gap; w_avail := t + gap |}
           :: conversation r (t + gap + 1) gap
  end.

(* ---------- NOT the code of /repo: one "last armed" stamp shared by both directions ----------
   A variant that moves a deadline only when the last move (of EITHER deadline) is at least
   timeout/8 ago.  Kept only to show that the specification tells it from the real wrapper:
   a Write that moves the write deadline makes the next Read keep a stale read deadline. *)
Record sconn := { s_c : wconn; s_armed : option N }.
Definition arm_shared (timeout now : N) (old : option N) (armed : option N) : option N * option N :=
  if 0 <? timeout then
    match armed with
    | Some a => if now - a <? timeout / 8 then (old, armed) else (Some (now + timeout), Some now)
    | None => (Some (now + timeout), Some now)
    end
  else (old, armed).
Definition wstep_shared_stamp (rt wt : N) (s : sconn) (o : wop) : sconn * bool :=
  match w_kind o with
  | WRead =>
      let '(d, a) := arm_shared rt (w_now o) (c_rd (s_c s)) (s_armed s) in
      ({| s_c := {| c_rd := d; c_wd := c_wd (s_c s) |}; s_armed := a |}, expires d (w_now o) (w_avail o))
  | WWrite =>
      let '(d, a) := arm_shared wt (w_now o) (c_wd (s_c s)) (s_armed s) in
      ({| s_c := {| c_rd := c_rd (s_c s); c_wd := d |}; s_armed := a |}, expires d (w_now o) (w_avail o))
  end.
Fixpoint wrun_shared_stamp (rt wt : N) (s : sconn) (ops : list wop) : list bool :=
  match ops with
  | [] => []
  | o :: rest => let '(s1, cut) := wstep_shared_stamp rt wt s o in cut :: wrun_shared_stamp rt wt s1 rest
  end.

(* ---------- what the correspondence run observes at the INNER connection ----------
   one inner Read / Write: [d_lo] the time the previous inner operation of the same direction
   returned (0: the connection was made), [d_ts] the time this one was called, [d_dl] the
   deadline of its direction in force when it was called, [d_te] the time it had its data /
   gave up, [d_cut] it failed with a timeout.  The wrapper's clock reading lies between [d_lo]
   and [d_ts] (program order) and is not observable itself: it is recovered from the deadline. *)
Record dl_obs := { d_read : bool; d_lo : N; d_ts : N; d_dl : option N; d_te : N; d_cut : bool }.

Definition kind_of (o : dl_obs) : wkind := if d_read o then WRead else WWrite.

Definition clock_of (T : N) (o : dl_obs) : option N :=
  if 0 <? T then
    match d_dl o with
    | Some x => if (d_lo o + T <=? x) && (x <=? d_ts o + T) then Some (x - T) else None
    | None => None
    end
  else match d_dl o with None => Some (d_ts o) | Some _ => None end.

Definition opt_eqb (a b : option N) : bool :=
  match a, b with Some x, Some y => x =? y | None, None => true | _, _ => false end.

(* the model reproduces the log: for a clock reading inside its window every operation arms
   exactly the observed deadline and is cut exactly when the observed one was *)
Fixpoint dl_agrees (rt wt : N) (c : wconn) (log : list dl_obs) : bool :=
  match log with
  | [] => true
  | o :: rest =>
      match clock_of (timeout_of rt wt (kind_of o)) o with
      | None => false
      | Some now =>
          let '(c1, cut) := wstep rt wt c {| w_kind := kind_of o; w_now := now; w_avail := d_te o |} in
          opt_eqb (deadline_of c1 (kind_of o)) (d_dl o) && Bool.eqb cut (d_cut o) && dl_agrees rt wt c1 rest
      end
  end.

(* the specification on the observables alone: an operation that was cut had been waiting for
   the whole timeout of its direction (whatever the unobservable clock reading was: it is >= d_lo) *)
Definition dl_spec (rt wt : N) (log : list dl_obs) : bool :=
  forallb (fun o => negb (d_cut o) ||
                    (let T := timeout_of rt wt (kind_of o) in (0 <? T) && (d_lo o + T <=? d_te o))) log.
