(** Model of fabio's redirect routes (property C13):
    - route/target.go  [Target.BuildRedirectURL]                       -> [build_redirect_url]
      (as repaired by fix e4368b6; the old function is kept as [build_redirect_url_unrepaired])
    - route/route.go   redirect option parsing (strconv.Atoi, 300-399) -> [redirect_code]
      (as repaired by fix fa24a7f; the old behaviour is kept as [redirect_code_unrepaired])
    - route/table.go   [Table.Lookup] host loop with the self-redirect skip -> [lookup_loop]
      (as repaired by fixes 4431a54, bcdacf0 and ddf101c; the old loops are kept as
      [lookup_loop_unrepaired], [lookup_loop_hdr_only] and [lookup_loop_shared])
    - proxy/http_proxy.go [HTTPProxy.ServeHTTP] redirect branch (http.Redirect) -> [serve]
    - simultaneous requests: Lookup and the rest of ServeHTTP as two atomic actions per
      request, [run_sched]; since fix ddf101c Lookup hands each request a copy of the redirect
      target, nothing is shared (the shared RedirectURL field of the code before the fix is
      kept as [run_sched_shared]).
    The pieces of net/url the code relies on (shouldEscape / escape / unescape /
    validEncoded / setPath / EscapedPath / URL.String for the path and host modes) are
    modelled executably below and are compared with the library on every harness case.
    No proofs in this file. *)
From Coq Require Import String List NArith ZArith Bool.
From Fabio Require Import Lib.Outcome Lib.Bytes.
Import ListNotations.
Local Open Scope N_scope.

(* ------------------------------------------------------------------ *)
(** * net/url (go1.24): the path and host encoders *)

Inductive enc_mode := EncPath | EncHost.

Definition memb (c : N) (l : list N) : bool := existsb (N.eqb c) l.
Definition is_nil {A} (l : list A) : bool := match l with [] => true | _ => false end.

Definition is_alnum (c : N) : bool :=
  ((97 <=? c) && (c <=? 122)) || ((65 <=? c) && (c <=? 90)) || ((48 <=? c) && (c <=? 57)).

(* the sub-delims, colon, brackets, angle brackets and the double quote (bytes 33 36 38 39 40-44 59 61 58 91 93 60 62 34) *)
Definition host_allowed : list N := [33;36;38;39;40;41;42;43;44;59;61;58;91;93;60;62;34].
(* - _ . ~ *)
Definition unreserved_marks : list N := [45;95;46;126].
(* $ & + , / : ; = ? @ *)
Definition reserved : list N := [36;38;43;44;47;58;59;61;63;64].

(* url.shouldEscape(c, mode) for mode = encodePath / encodeHost *)
Definition should_escape (c : N) (m : enc_mode) : bool :=
  if is_alnum c then false
  else if (match m with EncHost => memb c host_allowed | EncPath => false end) then false
  else if memb c unreserved_marks then false
  else if memb c reserved then
    match m with
    | EncPath => c =? 63          (* only '?' *)
    | EncHost => true             (* no case in the inner switch: falls to "must be escaped" *)
    end
  else true.

Definition upperhex (n : N) : N := if n <? 10 then 48 + n else 55 + n.
Definition lowerhex (n : N) : N := if n <? 10 then 48 + n else 87 + n.
Definition pct (c : N) : str := [37; upperhex (c / 16); upperhex (c mod 16)].

Definition escape_byte (m : enc_mode) (c : N) : str := if should_escape c m then pct c else [c].
(* url.escape(s, mode) *)
Definition escape (s : str) (m : enc_mode) : str := flat_map (escape_byte m) s.

Definition ishex (c : N) : bool :=
  ((48 <=? c) && (c <=? 57)) || ((97 <=? c) && (c <=? 102)) || ((65 <=? c) && (c <=? 70)).
Definition unhex (c : N) : N :=
  if (48 <=? c) && (c <=? 57) then c - 48
  else if (97 <=? c) && (c <=? 102) then c - 87
  else if (65 <=? c) && (c <=? 70) then c - 55
  else 0.

(* url.unescape(s, encodePath): None = EscapeError *)
Fixpoint unescape_path (s : str) : option str :=
  match s with
  | [] => Some []
  | c :: r =>
      if c =? 37 then
        match r with
        | h :: l :: r' =>
            if ishex h && ishex l then
              match unescape_path r' with
              | Some d => Some ((unhex h * 16 + unhex l) :: d)
              | None => None
              end
            else None
        | _ => None
        end
      else match unescape_path r with
           | Some d => Some (c :: d)
           | None => None
           end
  end.

(* bytes url.validEncoded accepts without asking shouldEscape:
   ! $ & ' ( ) * + , ; = : @   [ ]   % *)
Definition valid_extra : list N := [33;36;38;39;40;41;42;43;44;59;61;58;64;91;93;37].
Definition valid_encoded_byte (c : N) : bool := memb c valid_extra || negb (should_escape c EncPath).
Definition valid_encoded_path (s : str) : bool := forallb valid_encoded_byte s.

(* URL.setPath(p): (Path, RawPath); None = parse error *)
Definition set_path (p : str) : option (str * str) :=
  match unescape_path p with
  | None => None
  | Some d => Some (d, if beq p (escape d EncPath) then [] else p)
  end.

(* the five fields BuildRedirectURL fills (User, Opaque, Fragment, ForceQuery, OmitHost stay zero) *)
Record url := mkUrl { u_scheme : str; u_host : str; u_path : str; u_rawpath : str; u_query : str }.

(* URL.EscapedPath() *)
Definition escaped_path (u : url) : str :=
  if negb (is_nil (u_rawpath u)) && valid_encoded_path (u_rawpath u)
     && match unescape_path (u_rawpath u) with Some p => beq p (u_path u) | None => false end
  then u_rawpath u
  else if beq (u_path u) [42] then [42]
  else escape (u_path u) EncPath.

(* URL.String() for a URL with a scheme or a host (otherwise the "./" rule for a first
   segment with a colon applies, which is outside the modelled domain: [url_string_dom]) *)
Definition url_string_dom (u : url) : bool := negb (is_nil (u_scheme u)) || negb (is_nil (u_host u)).
Definition url_string (u : url) : str :=
  let p := escaped_path u in
  (if is_nil (u_scheme u) then [] else u_scheme u ++ [58])
  ++ (if negb (is_nil (u_scheme u)) || negb (is_nil (u_host u)) then
        (if negb (is_nil (u_host u)) || negb (is_nil (u_path u)) then [47;47] else [])
        ++ (if is_nil (u_host u) then [] else escape (u_host u) EncHost)
      else [])
  ++ (match p with
      | c :: _ => if negb (c =? 47) && negb (is_nil (u_host u)) then [47] else []
      | [] => []
      end)
  ++ p
  ++ (if is_nil (u_query u) then [] else 63 :: u_query u).

(* net/http hexEscapeNonASCII (lower-case hex digits) *)
Definition hex_escape_non_ascii (s : str) : str :=
  flat_map (fun c => if 128 <=? c then [37; lowerhex (c / 16); lowerhex (c mod 16)] else [c]) s.

(* ------------------------------------------------------------------ *)
(** * strings.Replace(s, old, new, 1), strings.Contains *)
Definition replace_first (s old new : str) : str :=
  match index s old with
  | None => s
  | Some i => firstn i s ++ new ++ skipn (i + length old) s
  end.

Definition v_path : str := [36;112;97;116;104].          (* "$path" *)
Definition v_slash_path : str := 47 :: v_path.             (* "/$path" *)
Definition v_host : str := [36;104;111;115;116].          (* "$host" *)

(* ------------------------------------------------------------------ *)
(** * route.Target (the fields the redirect code reads) and the request *)
Record target := mkTarget {
  t_id : nat;               (* identity of the shared *route.Target *)
  t_scheme : str; t_host : str; t_path : str; t_query : str;   (* t.URL as url.Parse left it *)
  t_strip : str; t_prepend : str;
  t_code : Z }.             (* t.RedirectCode *)

Record request := mkReq {
  q_host : str;             (* req.Host *)
  q_path : str; q_rawpath : str; q_query : str;   (* req.URL.Path / RawPath / RawQuery *)
  q_xfp : str;              (* req.Header.Get("X-Forwarded-Proto") *)
  q_tls : bool }.           (* req.TLS != nil *)

(* route/target.go:76-132, statement by statement *)
Definition build_redirect_url (t : target) (q : request) : url :=
  let host := t_host t in
  let path := t_path t in
  let rawpath := t_path t in
  let query := t_query t in
  (* treat case of $path not separated with a / from host *)
  let '(host, path, rawpath) :=
    if has_suffix host v_path
    then (firstn (length host - length v_path) host, v_path, v_path)   (* RawPath too: fix e4368b6 *)
    else (host, path, rawpath) in
  (* remove / before $path in redirect url *)
  let '(path, rawpath) :=
    if contains path v_slash_path
    then (replace_first path v_slash_path v_path, replace_first rawpath v_slash_path v_path)
    else (path, rawpath) in
  (* remove strip path, insert passed request path, set query *)
  let '(path, rawpath, query) :=
    if contains path v_path then
      let rp := q_path q in
      let rrp := if is_nil (q_rawpath q) then q_path q else q_rawpath q in
      let '(rp, rrp) :=
        if negb (is_nil (t_strip t)) then
          (if has_prefix rp (t_strip t) then skipn (length (t_strip t)) rp else rp,
           if has_prefix rrp (t_strip t) then skipn (length (t_strip t)) rrp else rrp)
        else (rp, rrp) in
      let '(rp, rrp) :=
        if negb (is_nil (t_prepend t)) then (t_prepend t ++ rp, t_prepend t ++ rrp) else (rp, rrp) in
      (replace_first path v_path rp, replace_first rawpath v_path rrp,
       if is_nil query && negb (is_nil (q_query q)) then q_query q else query)
    else (path, rawpath, query) in
  let path := if is_nil path then [47] else path in
  let host := if contains host v_host then replace_first host v_host (q_host q) else host in
  mkUrl (t_scheme t) host path rawpath query.

(* before fix e4368b6 the branch for $path glued to the host set Path only, RawPath stayed
   empty and the raw request path was never substituted.  Used only by the refutation theorem. *)
Definition build_redirect_url_unrepaired (t : target) (q : request) : url :=
  let host := t_host t in
  let path := t_path t in
  let rawpath := t_path t in
  let query := t_query t in
  (* treat case of $path not separated with a / from host *)
  let '(host, path) :=
    if has_suffix host v_path then (firstn (length host - length v_path) host, v_path) else (host, path) in
  (* remove / before $path in redirect url *)
  let '(path, rawpath) :=
    if contains path v_slash_path
    then (replace_first path v_slash_path v_path, replace_first rawpath v_slash_path v_path)
    else (path, rawpath) in
  (* remove strip path, insert passed request path, set query *)
  let '(path, rawpath, query) :=
    if contains path v_path then
      let rp := q_path q in
      let rrp := if is_nil (q_rawpath q) then q_path q else q_rawpath q in
      let '(rp, rrp) :=
        if negb (is_nil (t_strip t)) then
          (if has_prefix rp (t_strip t) then skipn (length (t_strip t)) rp else rp,
           if has_prefix rrp (t_strip t) then skipn (length (t_strip t)) rrp else rrp)
        else (rp, rrp) in
      let '(rp, rrp) :=
        if negb (is_nil (t_prepend t)) then (t_prepend t ++ rp, t_prepend t ++ rrp) else (rp, rrp) in
      (replace_first path v_path rp, replace_first rawpath v_path rrp,
       if is_nil query && negb (is_nil (q_query q)) then q_query q else query)
    else (path, rawpath, query) in
  let path := if is_nil path then [47] else path in
  let host := if contains host v_host then replace_first host v_host (q_host q) else host in
  mkUrl (t_scheme t) host path rawpath query.

(* ------------------------------------------------------------------ *)
(** * route/route.go:84-92: opts["redirect"] -> RedirectCode *)
Definition is_digit (c : N) : bool := (48 <=? c) && (c <=? 57).
Fixpoint digits_val (acc : Z) (s : str) : Z :=
  match s with [] => acc | c :: r => digits_val (acc * 10 + Z.of_N (c - 48)) r end.
Definition max_int : Z := 9223372036854775807%Z.
Definition min_int : Z := (-9223372036854775808)%Z.
(* strconv.Atoi on a 64-bit platform: (value, err == nil).  A syntax error yields 0, a
   range error yields the nearest representable value, both WITH err != nil. *)
Definition atoi (s : str) : Z * bool :=
  let '(neg, ds) := match s with
                    | 45 :: r => (true, r)
                    | 43 :: r => (false, r)
                    | _ => (false, s)
                    end in
  if is_nil ds || negb (forallb is_digit ds) then (0%Z, false)
  else
    let v := digits_val 0%Z ds in
    if neg then (if (v >? 9223372036854775808)%Z then (min_int, false) else ((- v)%Z, true))
    else (if (v >=? 9223372036854775808)%Z then (max_int, false) else (v, true)).

Definition redirect_code (opt : str) : Z :=
  if is_nil opt then 0%Z
  else let '(v, ok) := atoi opt in
       if ok then (if (v <? 300)%Z || (v >? 399)%Z then 0%Z else v)
       else 0%Z.   (* reset on any Atoi error (fix: fa24a7f) *)

(* before fix fa24a7f the error was only logged: the value Atoi returned WITH the error
   (MaxInt64 / MinInt64 on a range error) stayed in the field.  Used only by the
   refutation theorem. *)
Definition redirect_code_unrepaired (opt : str) : Z :=
  if is_nil opt then 0%Z
  else let '(v, ok) := atoi opt in
       if ok then (if (v <? 300)%Z || (v >? 399)%Z then 0%Z else v)
       else v.

(* ------------------------------------------------------------------ *)
(** * route/table.go:424-441: the host loop of Table.Lookup *)
(* the scheme the client used: X-Forwarded-Proto when a proxy in front of fabio reports it,
   otherwise that of the connection itself (fix: bcdacf0) *)
Definition eff_scheme (q : request) : str :=
  if negb (is_nil (q_xfp q)) then q_xfp q
  else if q_tls q then [104;116;116;112;115] else [104;116;116;112].
Definition is_self (u : url) (q : request) : bool :=
  beq (u_scheme u) (eff_scheme q) && beq (u_host u) (q_host q) && beq (u_path u) (q_path q).
(* before fix bcdacf0 the scheme was compared with the header only.  Used only by the
   refutation theorems. *)
Definition is_self_unrepaired (u : url) (q : request) : bool :=
  beq (u_scheme u) (q_xfp q) && beq (u_host u) (q_host q) && beq (u_path u) (q_path q).

(* [cands]: what t.lookup(h, path) yields for each matching host, then for "".
   [cur] is the loop variable `target` (it survives the loop).  For a redirect route Lookup
   works on a per-request COPY of the shared target (fix: ddf101c) and returns that copy with
   its own RedirectURL; the shared target is never written.  A skipped self-redirect is
   cleared before `continue` (fix: 4431a54).  Result: the target and, for a redirect
   target, the RedirectURL of the copy. *)
Definition chosen := option (target * option url).
Fixpoint lookup_loop (q : request) (cands : list (option target)) (cur : chosen) : chosen :=
  match cands with
  | [] => cur
  | None :: r => lookup_loop q r None
  | Some t :: r =>
      if (t_code t =? 0)%Z then Some (t, None)
      else
        let u := build_redirect_url t q in
        if is_self u q then lookup_loop q r None else Some (t, Some u)
  end.
Definition lookup (q : request) (cands : list (option target)) : chosen := lookup_loop q cands None.

(* before fix ddf101c the URL was stored in the RedirectURL field of the SHARED target: the
   loop with its writes to that field in program order ([lookup_shared], [serve_shared],
   [run_sched_shared] below).  Used only by the refutation theorem. *)
Fixpoint lookup_loop_shared (q : request) (cands : list (option target)) (cur : option target)
  : option target * list (nat * url) :=
  match cands with
  | [] => (cur, [])
  | None :: r => lookup_loop_shared q r None
  | Some t :: r =>
      if (t_code t =? 0)%Z then (Some t, [])
      else
        let u := build_redirect_url t q in
        if is_self u q then
          let '(res, ws) := lookup_loop_shared q r None in (res, (t_id t, u) :: ws)
        else (Some t, [(t_id t, u)])
  end.
Definition lookup_shared (q : request) (cands : list (option target)) := lookup_loop_shared q cands None.

(* before fix 4431a54 the loop variable kept pointing at the skipped target.  Used only by
   the refutation theorem. *)
Fixpoint lookup_loop_unrepaired (q : request) (cands : list (option target)) (cur : option target)
  : option target * list (nat * url) :=
  match cands with
  | [] => (cur, [])
  | None :: r => lookup_loop_unrepaired q r None
  | Some t :: r =>
      if (t_code t =? 0)%Z then (Some t, [])
      else
        let u := build_redirect_url t q in
        if is_self_unrepaired u q then
          let '(res, ws) := lookup_loop_unrepaired q r (Some t) in (res, (t_id t, u) :: ws)
        else (Some t, [(t_id t, u)])
  end.
Definition lookup_unrepaired (q : request) (cands : list (option target)) := lookup_loop_unrepaired q cands None.

(* between 4431a54 and bcdacf0: the skipped target is cleared, the test is header-only.
   Used only by the refutation theorem. *)
Fixpoint lookup_loop_hdr_only (q : request) (cands : list (option target)) (cur : option target)
  : option target * list (nat * url) :=
  match cands with
  | [] => (cur, [])
  | None :: r => lookup_loop_hdr_only q r None
  | Some t :: r =>
      if (t_code t =? 0)%Z then (Some t, [])
      else
        let u := build_redirect_url t q in
        if is_self_unrepaired u q then
          let '(res, ws) := lookup_loop_hdr_only q r None in (res, (t_id t, u) :: ws)
        else (Some t, [(t_id t, u)])
  end.
Definition lookup_hdr_only (q : request) (cands : list (option target)) := lookup_loop_hdr_only q cands None.

(* ------------------------------------------------------------------ *)
(** * proxy/http_proxy.go: ServeHTTP after Lookup (no deny rules, no auth scheme) *)
Inductive response :=
| RNoRoute                              (* 404 *)
| RRedirect (code : Z) (loc : str)      (* http.Redirect *)
| RBadCode (code : Z)                   (* http.Redirect -> WriteHeader panics: code outside 100..999 *)
| RProxy (id : nat).                    (* request handed to the upstream transport *)

(* `t.RedirectCode != 0 && t.RedirectURL != nil` on what Lookup returned *)
Definition serve (c : chosen) : response :=
  match c with
  | None => RNoRoute
  | Some (t, ou) =>
      match (t_code t =? 0)%Z, ou with
      | false, Some u =>
          if (t_code t <? 100)%Z || (t_code t >? 999)%Z then RBadCode (t_code t)
          else RRedirect (t_code t) (hex_escape_non_ascii (url_string u))
      | _, _ => RProxy (t_id t)
      end
  end.
Definition upstream_calls (r : response) : nat := match r with RProxy _ => 1 | _ => 0 end.

(* one request *)
Definition handle (q : request) (cands : list (option target)) : response := serve (lookup q cands).

(* ------------------------------------------------------------------ *)
(** * the request with its header fields *)
(* ServeHTTP answers a redirect target BEFORE it reads `Upgrade` and `Accept` (which choose
   between the websocket, the event-stream and the plain proxy handler for an upstream
   target): the header fields reach [serve_hdr] and are not consulted on the redirect branch;
   for an upstream target they only choose the kind of proxy handler, which C13 does not
   distinguish ([RProxy]).  Of the header fields Lookup reads Host (req.Host) and
   X-Forwarded-Proto (self-redirect test). *)
Definition headers := list (str * str).
Fixpoint header_get (hs : headers) (name : str) : str :=      (* http.Header.Get: first value, "" if absent *)
  match hs with
  | [] => []
  | (k, v) :: r => if beq (lower k) (lower name) then v else header_get r name
  end.
Definition h_xfp : str := [88;45;70;111;114;119;97;114;100;101;100;45;80;114;111;116;111].  (* X-Forwarded-Proto *)
Definition serve_hdr (hs : headers) (c : chosen) : response := serve c.
Definition request_of (hs : headers) (host path rawpath query : str) (tls : bool) : request :=
  mkReq host path rawpath query (header_get hs h_xfp) tls.
Definition handle_full (hs : headers) (host path rawpath query : str) (tls : bool)
           (cands : list (option target)) : response :=
  serve_hdr hs (lookup (request_of hs host path rawpath query tls) cands).

(* ------------------------------------------------------------------ *)
(** * simultaneous requests: Lookup and the rest of ServeHTTP are two atomic actions; the
      only state that survives a Lookup is what it returned to its own request *)
Inductive action := ALookup (r : nat) | AServe (r : nat).
Record world := mkWorld {
  w_chosen : list (nat * chosen);            (* per request: what its Lookup returned *)
  w_out : list (nat * response) }.           (* responses, most recent first *)
Fixpoint chosen_get {A} (l : list (nat * A)) (r : nat) : option A :=
  match l with
  | [] => None
  | (k, c) :: l' => if Nat.eqb k r then Some c else chosen_get l' r
  end.

Definition step (reqs : list (request * list (option target))) (w : world) (a : action) : world :=
  match a with
  | ALookup r =>
      match nth_error reqs r with
      | None => w
      | Some (q, cands) => mkWorld ((r, lookup q cands) :: w_chosen w) (w_out w)
      end
  | AServe r =>
      match chosen_get (w_chosen w) r with
      | None => w                          (* not looked up yet: not a run of the program *)
      | Some c => mkWorld (w_chosen w) ((r, serve c) :: w_out w)
      end
  end.
Definition run_sched (reqs : list (request * list (option target))) (sched : list action) (w : world) : world :=
  fold_left (step reqs) sched w.
Definition world0 : world := mkWorld [] [].

(* ------------------------------------------------------------------ *)
(** * before fix ddf101c: the RedirectURL fields of the shared targets as global state *)
Definition store := list (nat * url).          (* most recent write first *)
Fixpoint store_get (st : store) (id : nat) : option url :=
  match st with
  | [] => None
  | (k, u) :: r => if Nat.eqb k id then Some u else store_get r id
  end.
Definition store_apply (st : store) (ws : list (nat * url)) : store := rev ws ++ st.
Definition serve_shared (c : option target) (st : store) : response :=
  match c with
  | None => RNoRoute
  | Some t => serve (Some (t, store_get st (t_id t)))
  end.
Record world_shared := mkWorldS {
  ws_store : store;
  ws_chosen : list (nat * option target);
  ws_out : list (nat * response) }.
Definition step_shared (reqs : list (request * list (option target))) (w : world_shared) (a : action) : world_shared :=
  match a with
  | ALookup r =>
      match nth_error reqs r with
      | None => w
      | Some (q, cands) =>
          let '(c, ws) := lookup_shared q cands in
          mkWorldS (store_apply (ws_store w) ws) ((r, c) :: ws_chosen w) (ws_out w)
      end
  | AServe r =>
      match chosen_get (ws_chosen w) r with
      | None => w
      | Some c => mkWorldS (ws_store w) (ws_chosen w) ((r, serve_shared c (ws_store w)) :: ws_out w)
      end
  end.
Definition run_sched_shared (reqs : list (request * list (option target))) (sched : list action) (w : world_shared) : world_shared :=
  fold_left (step_shared reqs) sched w.
Definition world_shared0 : world_shared := mkWorldS [] [] [].
