(** Model of proxy/tcp/tls_clienthello.go: [clientHelloBufferSize],
    [clientHelloMsg.unmarshal] and [readServerName], transcribed statement by
    statement.  Every Go index / slice expression is a *checked* access that
    evaluates to [Panic] where Go's run-time check would fire, so "never panics"
    is a theorem about the transcription and not an artefact of totalisation.
    Error kinds ([Err k]) follow the order of the error returns in the Go code. *)
From Coq Require Import List NArith Bool Lia.
From Fabio Require Import Lib.Outcome Lib.Bytes.
Import ListNotations.
Local Open Scope N_scope.
Local Open Scope outcome_scope.

(* ---- checked accesses: d[i], d[a:b], d[a:] ---- *)
Definition nlen (d : str) : N := N.of_nat (length d).

Definition idx (d : str) (i : nat) : outcome N :=
  match nth_error d i with Some b => Ok b | None => Panic end.

Definition slice (d : str) (a b : nat) : outcome str :=
  if (Nat.leb a b) && (Nat.leb b (length d)) then Ok (firstn (b - a) (skipn a d)) else Panic.

Definition from (d : str) (a : nat) : outcome str :=
  if Nat.leb a (length d) then Ok (skipn a d) else Panic.

(* int(d[i])<<8 | int(d[i+1]) *)
Definition u16 (d : str) (i : nat) : outcome N :=
  do hi <- idx d i; do lo <- idx d (i + 1); Ok (hi * 256 + lo).

Definition u24 (d : str) (i : nat) : outcome N :=
  do b0 <- idx d i; do b1 <- idx d (i + 1); do b2 <- idx d (i + 2);
  Ok (b0 * 65536 + b1 * 256 + b2).

(* ---- clientHelloBufferSize (tls_clienthello.go:13-47) ----
   error kinds: 1 "<9 bytes", 2 "not a TLS handshake", 3 "invalid record length",
                4 "not a client hello", 5 "invalid client hello length" *)
Definition client_hello_buffer_size (data : str) : outcome N :=
  check (9 <=? nlen data) else 1;
  do t <- idx data 0;
  check (t =? 22) else 2;
  do rl <- u16 data 3;
  check ((0 <? rl) && (rl <=? 16384)) else 3;
  do ht <- idx data 5;
  check (ht =? 1) else 4;
  do hl <- u24 data 6;
  (* handshakeLength <= 0 || handshakeLength > recordLength-4  (signed ints in Go;
     recordLength-4 may be negative, in which case every handshakeLength > it) *)
  check ((0 <? hl) && (hl + 4 <=? rl)) else 5;
  Ok (hl + 9).

(* ---- the server_name list loop (lines 189-203): Some name = a host_name entry was found *)
Fixpoint names (fuel : nat) (d : str) : outcome (option str) :=
  match fuel with
  | O => Ok None          (* unreachable for fuel > length d, see Proofs *)
  | S f =>
      if nlen d =? 0 then Ok None else
      check (3 <=? nlen d) else 0;
      do ty <- idx d 0;
      do nl <- u16 d 1;
      do d1 <- from d 3;
      check (nl <=? nlen d1) else 0;
      if ty =? 0 then (do n <- slice d1 0 (N.to_nat nl); Ok (Some n))
      else (do d2 <- from d1 (N.to_nat nl); names f d2)
  end.

(* ---- the extension loop (lines 166-301) ---- *)
Fixpoint exts (fuel : nat) (d : str) (sn : str) : outcome str :=
  match fuel with
  | O => Ok sn
  | S f =>
      if nlen d =? 0 then Ok sn else
      check (4 <=? nlen d) else 0;
      do e <- u16 d 0;
      do len <- u16 d 2;
      do d1 <- from d 4;
      check (len <=? nlen d1) else 0;
      do sn' <- (if e =? 0 then
                   do x <- slice d1 0 (N.to_nat len);
                   check (2 <=? nlen x) else 0;
                   do nl <- u16 x 0;
                   do x1 <- from x 2;
                   check (nlen x1 =? nl) else 0;
                   do r <- names (S (length x1)) x1;
                   Ok (match r with Some n => n | None => sn end)
                 else Ok sn);
      do d2 <- from d1 (N.to_nat len);
      exts f d2 sn'
  end.

(* ---- clientHelloMsg.unmarshal (lines 110-305); Ok name = true with m.serverName = name *)
Definition unmarshal (d : str) : outcome str :=
  check (42 <=? nlen d) else 0;
  do _v <- u16 d 4;
  do _rnd <- slice d 6 38;
  do sl <- idx d 38;
  check ((sl <=? 32) && (39 + sl <=? nlen d)) else 0;
  do _sid <- slice d 39 (39 + N.to_nat sl);
  do d1 <- from d (39 + N.to_nat sl);
  check (2 <=? nlen d1) else 0;
  do cl <- u16 d1 0;
  check (N.even cl && (2 + cl <=? nlen d1)) else 0;
  do d2 <- from d1 (2 + N.to_nat cl);
  check (1 <=? nlen d2) else 0;
  do ml <- idx d2 0;
  check (1 + ml <=? nlen d2) else 0;
  do _cm <- slice d2 1 (1 + N.to_nat ml);
  do d3 <- from d2 (1 + N.to_nat ml);
  if nlen d3 =? 0 then Ok [] else
  check (2 <=? nlen d3) else 0;
  do el <- u16 d3 0;
  do d4 <- from d3 2;
  check (el =? nlen d4) else 0;
  exts (S (length d4)) d4 [].

(* readServerName: (name, true) = Ok name; ("", false) = Err 0 *)
Definition read_server_name (msg : str) : outcome str := unmarshal msg.

(* ---- what SNIProxy.ServeTCP does with the first bytes of a connection
        (sni_proxy.go:45-73): peek 9, size, read exactly that many, parse data[5:] ----
   [stream] = all bytes the client will ever send.
   Err 10 = fewer than 9 bytes / fewer than size bytes available (Peek / ReadFull fail) *)
Definition sni_route_name (stream : str) : outcome (N * str) :=
  check (9 <=? nlen stream) else 10;
  do n <- client_hello_buffer_size (firstn 9 stream);
  check (n <=? nlen stream) else 10;
  do data <- slice stream 0 (N.to_nat n);
  do msg <- from data 5;
  do name <- read_server_name msg;
  Ok (n, name).

(* ================= the specification side: RFC 5246/8446 ClientHello ================= *)
Record extension := { ext_type : N; ext_data : str }.
(* one entry of the server_name list: (name_type, bytes) *)
Record sni_entry := { sn_type : N; sn_name : str }.

Record hello := {
  h_vers_hi : N; h_vers_lo : N;
  h_random : str;               (* 32 bytes *)
  h_session : str;              (* <= 32 bytes *)
  h_ciphers : str;              (* even number of bytes *)
  h_compress : str;             (* <= 255 bytes *)
  h_exts : option (list extension)   (* None: no extension block at all *)
}.

Definition enc16 (n : N) : str := [n / 256; n mod 256].
Definition enc24 (n : N) : str := [n / 65536; (n / 256) mod 256; n mod 256].

Definition enc_sni_entry (e : sni_entry) : str :=
  sn_type e :: enc16 (nlen (sn_name e)) ++ sn_name e.
Definition enc_sni_list (l : list sni_entry) : str :=
  let body := flat_map enc_sni_entry l in enc16 (nlen body) ++ body.

Definition enc_ext (e : extension) : str :=
  enc16 (ext_type e) ++ enc16 (nlen (ext_data e)) ++ ext_data e.

Definition enc_exts (o : option (list extension)) : str :=
  match o with
  | None => []
  | Some l => let body := flat_map enc_ext l in enc16 (nlen body) ++ body
  end.

Definition enc_body (h : hello) : str :=
  [h_vers_hi h; h_vers_lo h] ++ h_random h
  ++ [nlen (h_session h)] ++ h_session h
  ++ enc16 (nlen (h_ciphers h)) ++ h_ciphers h
  ++ [nlen (h_compress h)] ++ h_compress h
  ++ enc_exts (h_exts h).

(* handshake message: type 1, 24-bit length, body *)
Definition enc_handshake (h : hello) : str :=
  1 :: enc24 (nlen (enc_body h)) ++ enc_body h.

(* a single TLS record carrying the whole handshake message *)
Definition enc_record (rec_hi rec_lo : N) (h : hello) : str :=
  [22; rec_hi; rec_lo] ++ enc16 (nlen (enc_handshake h)) ++ enc_handshake h.

(* ---- executable well-formedness of a hello AST (reflected by Proofs.ClientHello.wf_hello_b_ok):
        RFC 5246 7.4.1.2 shape, and every field a byte string that fits its length prefix ---- *)
Definition bytes_b (s : str) : bool := forallb (fun c => c <? 256) s.
Definition ext_fits_b (e : extension) : bool :=
  (ext_type e <? 65536) && (nlen (ext_data e) <? 65536) && bytes_b (ext_data e).
Definition wf_hello_b (h : hello) : bool :=
  Nat.eqb (length (h_random h)) 32 && (nlen (h_session h) <=? 32) && N.even (nlen (h_ciphers h))
  && (h_vers_hi h <? 256) && (h_vers_lo h <? 256)
  && bytes_b (h_random h) && bytes_b (h_session h) && bytes_b (h_ciphers h) && bytes_b (h_compress h)
  && (nlen (h_ciphers h) <? 65536) && (nlen (h_compress h) <? 256)
  && match h_exts h with
     | None => true
     | Some es => forallb ext_fits_b es && (nlen (flat_map enc_ext es) <? 65536)
     end
  && (nlen (enc_body h) <? 16777216).
