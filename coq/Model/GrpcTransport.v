(** Model of what a pooled *grpc.ClientConn is over time (proxy/grpc_handler.go newConnection,
    grpc.DialContext without WithBlock): not a connection but a CHANNEL.  It holds at most one
    transport (HTTP/2 connection) to its backend at a time; the first one is established when
    the channel is dialled, and whenever the transport is lost -- the backend was restarted on
    the same address, it retired the connection (GOAWAY, keepalive.MaxConnectionAge), the
    network reset it -- the channel goes Idle, NOT Shutdown: it stays in the pool, Get keeps
    handing it out, and the next call on it establishes a new transport.  A channel that
    enters Shutdown (cleanup, Close) ends its transport.

    This file extends the history machine of Model/GrpcPool.v ([step]/[run]) by the transports:
    [XOp o] is an operation of that machine, [XLose u] is the loss of every transport that
    leads to backend [u].  What the backends can see of a history -- connections begun and
    ended at each of them -- is [x_begun_at] / [x_ended_at].  No proofs in this file. *)
From Coq Require Import String List NArith Bool.
From Fabio Require Import Lib.Outcome Lib.Bytes Model.GrpcPool.
Import ListNotations.
Local Open Scope N_scope.

Record xstate := mkx {
  x_st : state;                 (* table and pool, as in Model/GrpcPool.v *)
  x_up : list (N * url);        (* channels that hold a transport, with the backend it leads to *)
  x_begun : list (N * url);     (* log: transports established (channel, backend) *)
  x_ended : list (N * url)      (* log: transports that ended *)
}.
Definition x_init (t : table) : xstate := mkx (mks t p_init) [] [] [].

Inductive xop := XOp (o : op) | XLose (u : url).

Definition to_backend (u : url) (cu : N * url) : bool := beq (snd cu) u.
Definition has_transport (up : list (N * url)) (c : N) : bool := existsb (fun cu => fst cu =? c) up.

(* one operation of the pool machine: channels that entered Shutdown in it end their transport *)
Definition x_kept (s' : state) (up : list (N * url)) : list (N * url) :=
  filter (fun cu => live (s_pool s') (fst cu)) up.
Definition x_dead (s' : state) (up : list (N * url)) : list (N * url) :=
  filter (fun cu => negb (live (s_pool s') (fst cu))) up.
Definition x_base (ng : bool) (xs : xstate) (o : op) : xstate :=
  let s' := step ng (x_st xs) o in
  mkx s' (x_kept s' (x_up xs)) (x_begun xs) (x_ended xs ++ x_dead s' (x_up xs)).
(* channel [c] establishes a transport to [u] *)
Definition x_connect (b : xstate) (c : N) (u : url) : xstate :=
  mkx (x_st b) (x_up b ++ [(c, u)]) (x_begun b ++ [(c, u)]) (x_ended b).
(* every transport that leads to [u] is lost; the pool does not hear of it: no channel enters Shutdown *)
Definition x_lose (xs : xstate) (u : url) : xstate :=
  mkx (x_st xs) (filter (fun cu => negb (to_backend u cu)) (x_up xs)) (x_begun xs)
      (x_ended xs ++ filter (to_backend u) (x_up xs)).
(* the channel an operation is served on *)
Definition op_conn (ng : bool) (s : state) (o : op) : option (url * N) :=
  match o with Call m p k => call_conn ng s m p k | _ => None end.

(* [unreach u]: nobody answers at [u] (backend down, or a TLS backend dialled in the clear):
   a channel dialled for it never gets a transport.  A call is served on channel [c] of its
   backend: a channel without a transport (just dialled, or its transport was lost) connects. *)
Definition xstep (ng : bool) (unreach : url -> bool) (xs : xstate) (o : xop) : xstate :=
  match o with
  | XLose u => x_lose xs u
  | XOp o =>
      let b := x_base ng xs o in
      match op_conn ng (x_st xs) o with
      | Some (u, c) => if unreach u || has_transport (x_up b) c then b else x_connect b c u
      | None => b
      end
  end.
Definition xrun (ng : bool) (unreach : url -> bool) (xs : xstate) (ops : list xop) : xstate :=
  fold_left (xstep ng unreach) ops xs.

(* the operations of the pool machine in a history with transport losses *)
Fixpoint xproj (ops : list xop) : list op :=
  match ops with
  | [] => []
  | XOp o :: r => o :: xproj r
  | XLose _ :: r => xproj r
  end.

(* what backend [u] sees *)
Definition count_at (u : url) (l : list (N * url)) : N := N.of_nat (List.length (filter (to_backend u) l)).
Definition x_begun_at (xs : xstate) (u : url) : N := count_at u (x_begun xs).
Definition x_ended_at (xs : xstate) (u : url) : N := count_at u (x_ended xs).
Definition x_up_at (xs : xstate) (u : url) : N := count_at u (x_up xs).
