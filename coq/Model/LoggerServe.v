(** Model of the part of HTTPProxy.ServeHTTP (proxy/http_proxy.go) that decides what
    the access-log Event says about the request and about the upstream, and of
    [scheme] (proxy/http_headers.go).  The request is mutated while it is served
    (addHeaders fills in X-Forwarded-Proto / Forwarded, a [host=] route option
    rewrites r.Host); the model keeps the mutable parts in [rstate] and says at which
    program point each Event field is read.  No proofs in this file. *)
From Coq Require Import String List NArith ZArith Bool.
From Fabio Require Import Lib.Outcome Lib.Bytes Model.Logger.
Import ListNotations.
Local Open Scope N_scope.

(* the request as received: r.Host, r.URL.Path, r.URL.RawQuery, the first values of the
   X-Forwarded-Proto and Forwarded headers ("" when absent), Upgrade is websocket/Websocket,
   r.TLS != nil, the ip of r.RemoteAddr *)
Record inreq := { ir_host : str; ir_path : str; ir_query : str; ir_xfp : str; ir_fwd : str;
                  ir_ws : bool; ir_tls : bool; ir_remote_ip : str; ir_proto : str;
                  ir_method : str; ir_uri : str (* r.Method, r.RequestURI *) }.
(* the route target: t.URL.Scheme/Host/RawQuery, t.Host, t.StripPath, t.PrependPath, t.Service *)
Record ropt := { ro_scheme : str; ro_host : str; ro_query : str; ro_hostopt : str;
                 ro_strip : str; ro_prepend : str; ro_service : str }.

Definition nonempty (s : str) : bool := match s with [] => false | _ => true end.

(* ---- scheme(r) (http_headers.go:237-269) ---- *)
Definition conn_scheme (ws tls : bool) : str :=
  if ws then (if tls then bs "wss" else bs "ws") else (if tls then bs "https" else bs "http").
(* strings.SplitAfterN(fwd, "proto=", 2)[1] when there is one *)
Definition after_proto (fwd : str) : option str :=
  match index fwd (bs "proto=") with Some i => Some (skipn (i + 6) fwd) | None => None end.
Definition upto_semicolon (s : str) : str :=
  match index_byte s 59 with Some n => firstn n s | None => s end.
Definition scheme_of (xfp fwd : str) (ws tls : bool) : str :=
  if nonempty xfp && negb (nonempty fwd) then xfp
  else if nonempty fwd && negb (nonempty xfp) then
    match after_proto fwd with Some p => upto_semicolon p | None => conn_scheme ws tls end
  else conn_scheme ws tls.

(* ---- the mutable parts of *http.Request that scheme() and the Event read ---- *)
Record rstate := { rs_host : str; rs_xfp : str; rs_fwd : str }.
Definition st_received (r : inreq) : rstate :=
  {| rs_host := ir_host r; rs_xfp := ir_xfp r; rs_fwd := ir_fwd r |}.

(* addHeaders (http_headers.go:37-128), the two headers scheme() looks at *)
Definition add_headers (r : inreq) (st : rstate) : rstate :=
  let proto := scheme_of (rs_xfp st) (rs_fwd st) (ir_ws r) (ir_tls r) in
  let xfp := if nonempty (rs_xfp st) then rs_xfp st
             else if beq proto (bs "ws") then bs "http"
             else if beq proto (bs "wss") then bs "https" else proto in
  let base := if nonempty (rs_fwd st) then rs_fwd st
              else bs "for=" ++ ir_remote_ip r ++ bs "; proto=" ++ proto in
  (* "; httpproto=" ++ lower(r.Proto) is appended when r.Proto != "" (by= / tlsver= / tlscipher=
     parts depend on configuration and the TLS state and are not modelled: the value is only
     read again by a scheme() call that the code does not make) *)
  let fwd := if nonempty (ir_proto r) then base ++ bs "; httpproto=" ++ lower (ir_proto r) else base in
  {| rs_host := rs_host st; rs_xfp := xfp; rs_fwd := fwd |}.

(* if t.Host == "dst" { r.Host = targetURL.Host } else if t.Host != "" { r.Host = t.Host } *)
Definition rewrite_host (o : ropt) (st : rstate) : rstate :=
  {| rs_host := if beq (ro_hostopt o) (bs "dst") then ro_host o
                else if nonempty (ro_hostopt o) then ro_hostopt o else rs_host st;
     rs_xfp := rs_xfp st; rs_fwd := rs_fwd st |}.

(* a url.URL as the four components ServeHTTP sets *)
Record urlparts := { up_scheme : str; up_host : str; up_path : str; up_query : str }.

(* requestURL := &url.URL{Scheme: scheme(r), Host: r.Host, Path: r.URL.Path, RawQuery: ...}
   evaluated in request state [st] *)
Definition request_url_at (r : inreq) (st : rstate) : urlparts :=
  {| up_scheme := scheme_of (rs_xfp st) (rs_fwd st) (ir_ws r) (ir_tls r);
     up_host := rs_host st; up_path := ir_path r; up_query := ir_query r |}.

Definition ensure_slash (p : str) : str := if has_prefix p [47] then p else 47 :: p.
Definition target_url (r : inreq) (o : ropt) : urlparts :=
  let q := if negb (nonempty (ro_query o)) || negb (nonempty (ir_query r))
           then ro_query o ++ ir_query r else ro_query o ++ [38] ++ ir_query r in
  let p0 := ir_path r in
  let p1 := if nonempty (ro_strip o) && has_prefix p0 (ro_strip o)
            then ensure_slash (skipn (length (ro_strip o)) p0) else p0 in
  let p2 := if nonempty (ro_prepend o) then ensure_slash (ro_prepend o ++ p1) else p1 in
  {| up_scheme := ro_scheme o; up_host := ro_host o; up_path := p2; up_query := q |}.

(* what the Event carries about request and upstream *)
Record served := {
  sv_request_url : urlparts;    (* Event.RequestURL *)
  sv_request_host : str;        (* Event.Request.Host, read by the logger when it renders *)
  sv_upstream_addr : str; sv_upstream_service : str; sv_upstream_url : urlparts }.

(* ServeHTTP: requestURL is built right after the route lookup, from the request as
   received; then addHeaders, then the host rewrite; Event.Request is the request itself, so
   its Host is read after the rewrite *)
Definition serve_event (r : inreq) (o : ropt) : served :=
  let st0 := st_received r in
  let requrl := request_url_at r st0 in
  let st2 := rewrite_host o (add_headers r st0) in
  {| sv_request_url := requrl; sv_request_host := rs_host st2;
     sv_upstream_addr := ro_host o; sv_upstream_service := ro_service o;
     sv_upstream_url := target_url r o |}.

(* the same with requestURL built where the Event is built (after the response): NOT what
   the code does; kept for the refutation theorem (seeded change C20-G) *)
Definition serve_event_lazy (r : inreq) (o : ropt) : served :=
  let st2 := rewrite_host o (add_headers r (st_received r)) in
  {| sv_request_url := request_url_at r st2; sv_request_host := rs_host st2;
     sv_upstream_addr := ro_host o; sv_upstream_service := ro_service o;
     sv_upstream_url := target_url r o |}.

Definition urlparts_eqb (a b : urlparts) : bool :=
  beq (up_scheme a) (up_scheme b) && beq (up_host a) (up_host b)
  && beq (up_path a) (up_path b) && beq (up_query a) (up_query b).

(* ---- the Event handed to the logger, as far as the request-side fields read it ----
   [urlstr] is RequestURL.String() as net/url computes it from the four components (data) *)
Definition urlinfo_of (u : urlparts) (urlstr : str) : urlinfo :=
  {| u_scheme := up_scheme u; u_host := up_host u; u_rawquery := up_query u; u_requri := [];
     u_string := urlstr |}.
Definition event_of (r : inreq) (sv : served) (urlstr : str) : event :=
  {| e_dur := 0; e_unix := 0; e_nsec := 0; e_off := 0;
     e_req := Some {| rq_remote := []; rq_method := ir_method r; rq_uri := ir_uri r; rq_proto := ir_proto r;
                      rq_host := sv_request_host sv; rq_header := None |};
     e_resp := Some (200, 0)%Z;
     e_requrl := Some (urlinfo_of (sv_request_url sv) urlstr);
     e_upaddr := sv_upstream_addr sv; e_upsvc := sv_upstream_service sv; e_upurl := None |}.

(* the request-side fields, and a format that holds every one of them *)
Definition request_fields : list fld :=
  [FRequest; FRequestArgs; FRequestHost; FRequestMethod; FRequestScheme; FRequestURI; FRequestURL; FRequestProto].
Definition request_format : str :=
  bs "$request|$request_args|$request_host|$request_method|$request_scheme|$request_uri|$request_url|$request_proto".

(* specification: what a logger that saw only the request as received would write *)
Definition received_event (r : inreq) (urlstr : str) : event :=
  event_of r {| sv_request_url := request_url_at r (st_received r); sv_request_host := ir_host r;
                sv_upstream_addr := []; sv_upstream_service := []; sv_upstream_url := request_url_at r (st_received r) |}
           urlstr.
