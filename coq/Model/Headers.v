(** Model of proxy/http_headers.go ([addHeaders], [addResponseHeaders], [scheme],
    [localPort], [uint16base16], [i32toa]) and of the part of
    [HTTPProxy.ServeHTTP] (proxy/http_proxy.go) that decides what the upstream sees
    in the headers fabio manages: request-id header, [addHeaders], then the [host=] rewrite of
    [r.Host] (after [addHeaders] since the repair 7dd13e1), and the choice between the websocket handler
    ([Upgrade] is exactly "websocket" or "Websocket") and [httputil.ReverseProxy].
    The model follows the repair afbb806 (addHeaders and scheme recognise both spellings).

    Go's [http.Header] is a map from canonical keys to value slices; here an
    association list [hmap] in which [hfind] sees the first binding only and
    [hset]/[hdel] remove every binding of the key, so the order of bindings is never
    observable.  [Some []] stands for a key that is present with a nil slice (Go
    distinguishes that from an absent key in the X-Forwarded-For code).

    Standard-library behaviour that is MODELLED, NOT VERIFIED (it is compared with
    the real library on every run of the harness, nothing is proved about the
    library): [textproto.CanonicalMIMEHeaderKey] = [canon_key]; what
    [httputil.ReverseProxy.ServeHTTP] (go1.24) does to the managed headers =
    [rp_out] (delete the headers named in [Connection], delete the hop-by-hop
    list, append the peer to X-Forwarded-For); what [Request.Write] + [ReadRequest]
    do to them on the websocket path = [wire] (a key with no values is not sent).
    [net.SplitHostPort(r.RemoteAddr)] is not modelled: the harness passes its result
    ([r_peer]; [None] = it returned an error). *)
From Coq Require Import String List NArith ZArith Bool.
From Fabio Require Import Lib.Outcome Lib.Bytes.
Import ListNotations.
Local Open Scope N_scope.
Local Open Scope outcome_scope.

(* ---------------- http.Header ---------------- *)
Definition hmap := list (str * list str).

Fixpoint hfind (h : hmap) (k : str) : option (list str) :=
  match h with
  | [] => None
  | (k', vs) :: t => if beq k k' then Some vs else hfind t k
  end.

(* Header.Get on a canonical key: first value or "" *)
Definition hget (h : hmap) (k : str) : str :=
  match hfind h k with Some (v :: _) => v | _ => [] end.

Fixpoint hdel (h : hmap) (k : str) : hmap :=
  match h with
  | [] => []
  | (k', vs) :: t => if beq k k' then hdel t k else (k', vs) :: hdel t k
  end.

(* Header.Set: replaces ALL values *)
Definition hset (h : hmap) (k v : str) : hmap := (k, [v]) :: hdel h k.

(* Header.Add: appends (not used by fabio's code; the mutant "Set -> Add" is what it would be) *)
Definition hadd (h : hmap) (k v : str) : hmap :=
  match hfind h k with
  | Some vs => (k, vs ++ [v]) :: hdel h k
  | None => (k, [v]) :: h
  end.

Definition sempty (s : str) : bool := match s with [] => true | _ => false end.

(* conditional Set: [if b { h.Set(k, v) }] *)
Definition cset (b : bool) (h : hmap) (k v : str) : hmap := if b then hset h k v else h.

(* ---- textproto.CanonicalMIMEHeaderKey (modelled, compared with the library) ---- *)
Definition is_digit (c : N) : bool := (48 <=? c) && (c <=? 57).
Definition is_token_byte (c : N) : bool :=
  is_upper c || is_lower c || is_digit c ||
  existsb (N.eqb c) [33; 35; 36; 37; 38; 39; 42; 43; 45; 46; 94; 95; 96; 124; 126].

Fixpoint canon_go (up : bool) (s : str) : str :=
  match s with
  | [] => []
  | c :: t => (if up then upper_byte c else lower_byte c) :: canon_go (c =? 45) t
  end.

Definition canon_key (s : str) : str :=
  if forallb is_token_byte s then canon_go true s else s.

(* the keys the code writes as literals (all already canonical, see Proofs) *)
Definition K_XFF := bs "X-Forwarded-For".
Definition K_XRI := bs "X-Real-Ip".
Definition K_XFP := bs "X-Forwarded-Proto".
Definition K_XFPORT := bs "X-Forwarded-Port".
Definition K_XFH := bs "X-Forwarded-Host".
Definition K_XFPREFIX := bs "X-Forwarded-Prefix".
Definition K_FWD := bs "Forwarded".
Definition K_UPGRADE := bs "Upgrade".
Definition K_CONN := bs "Connection".
Definition K_STS := bs "Strict-Transport-Security".

(* ---------------- configuration, request ---------------- *)
Record config := {
  c_clientip : str;        (* cfg.ClientIPHeader *)
  c_tlsheader : str;       (* cfg.TLSHeader *)
  c_tlsvalue : str;        (* cfg.TLSHeaderValue *)
  c_localip : str;         (* cfg.LocalIP *)
  c_reqid : str;           (* cfg.RequestID *)
  c_sts_maxage : Z;        (* cfg.STSHeader.MaxAge (Go int) *)
  c_sts_sub : bool;
  c_sts_preload : bool
}.

Record request := {
  r_peer : option str;     (* host part of net.SplitHostPort(r.RemoteAddr); None = error *)
  r_host : str;            (* r.Host *)
  r_tls : option (N * N);  (* r.TLS: Some (Version, CipherSuite); None = nil *)
  r_proto : str;           (* r.Proto *)
  r_hdr : hmap             (* r.Header, canonical keys *)
}.

Definition is_tls (r : request) : bool := match r_tls r with Some _ => true | None => false end.

(* ---------------- small helpers of http_headers.go ---------------- *)
Definition hexdig (n : N) : N := if n <? 10 then 48 + n else 87 + n.
Definition uint16base16 (n : N) : str :=
  [48; 120; hexdig ((n / 4096) mod 16); hexdig ((n / 256) mod 16); hexdig ((n / 16) mod 16); hexdig (n mod 16)].

Definition tls_ver_name (v : N) : str :=
  if v =? 768 then bs "ssl30" else if v =? 769 then bs "tls10"
  else if v =? 770 then bs "tls11" else if v =? 771 then bs "tls12" else uint16base16 v.

(* int32(n) of a Go int, then i32toa *)
Definition int32_wrap (z : Z) : Z := ((z + 2147483648) mod 4294967296 - 2147483648)%Z.
Definition i32toa (z : Z) : str :=
  let m := int32_wrap z in
  if (m <? 0)%Z then 45 :: itoa (Z.to_N (- m)) else itoa (Z.to_N m).

(* scheme(r) / addHeaders: [ws := upgrade == "websocket" || upgrade == "Websocket"], the same
   two spellings ServeHTTP sends to the websocket handler (since the repair afbb806; the
   behaviour before it, lower-case only, is kept below as the [_unrepaired] definitions,
   which only the refutation theorem of the repaired finding F-C08-2 uses) *)
Definition is_ws (h : hmap) : bool :=
  let up := hget h K_UPGRADE in beq up (bs "websocket") || beq up (bs "Websocket").

Definition conn_scheme (h : hmap) (tls : bool) : str :=
  if is_ws h then (if tls then bs "wss" else bs "ws") else (if tls then bs "https" else bs "http").

Definition scheme (h : hmap) (tls : bool) : str :=
  let xfp := hget h K_XFP in
  let fwd := hget h K_FWD in
  if negb (sempty xfp) && sempty fwd then xfp
  else if negb (sempty fwd) && sempty xfp then
    (* p := strings.SplitAfterN(fwd, "proto=", 2) *)
    match index fwd (bs "proto=") with
    | None => conn_scheme h tls
    | Some i =>
        let p1 := skipn (i + 6) fwd in
        match index_byte p1 59 with Some n => firstn n p1 | None => p1 end
    end
  else conn_scheme h tls.

(* net.SplitHostPort (modelled after go1.24 net/ipsock.go, compared with the library on every
   run -- case class CSplit): Some (host, port) or None for every error *)
Definition has_byte (s : str) (c : N) : bool := existsb (N.eqb c) s.

Definition starts_bracket (hp : str) : bool := match hp with c :: _ => c =? 91 | [] => false end.

Definition split_host_port (hp : str) : option (str * str) :=
  match last_index_byte hp 58 with
  | None => None                                       (* missing port in address *)
  | Some i =>
      if starts_bracket hp then                        (* hostport[0] == '[' *)
        match index_byte hp 93 with
        | None => None                                 (* missing ']' in address *)
        | Some e =>
            if Nat.eqb (e + 1) i then
              if has_byte (skipn 1 hp) 91 || has_byte (skipn (e + 1) hp) 93 then None
              else Some (firstn (e - 1) (skipn 1 hp), skipn (i + 1) hp)
            else None                                  (* missing port / too many colons *)
        end
      else
        let host := firstn i hp in
        if has_byte host 58 then None                  (* too many colons in address *)
        else if has_byte hp 91 || has_byte hp 93 then None
        else Some (host, skipn (i + 1) hp)
  end.

(* localPort(r) (r is never nil on this path), since the repair 25597b0: the port of
   net.SplitHostPort(r.Host) when that succeeds with non-empty host and port, else the
   default port of the connection *)
Definition default_port (tls : bool) : str := if tls then bs "443" else bs "80".

Definition local_port (host : str) (tls : bool) : str :=
  match split_host_port host with
  | Some (h, p) => if negb (sempty h) && negb (sempty p) then p else default_port tls
  | None => default_port tls
  end.

(* before 25597b0 (F-C08-5, fixed): everything after the FIRST colon of r.Host.  Used by the
   refutation theorem only. *)
Definition local_port_unrepaired (host : str) (tls : bool) : str :=
  match index_byte host 58 with
  | Some n => if (Nat.ltb 0 n) && (Nat.ltb n (length host - 1)) then skipn (n + 1) host
              else if tls then bs "443" else bs "80"
  | None => if tls then bs "443" else bs "80"
  end.

(* prior, ok := h["X-Forwarded-For"]; ...; h.Set("X-Forwarded-For", prior + ", " + peer)
   -- the same statements occur in addHeaders (websocket) and in httputil.ReverseProxy *)
Definition xff_append (peer : str) (h : hmap) : hmap :=
  match hfind h K_XFF with
  | Some [] => h                                   (* ok && prior == nil: omit *)
  | Some prior => hset h K_XFF (join prior (bs ", ") ++ bs ", " ++ peer)
  | None => hset h K_XFF peer
  end.

Definition xfp_of_scheme (proto : str) : str :=
  if beq proto (bs "ws") then bs "http" else if beq proto (bs "wss") then bs "https" else proto.

Definition forwarded_value (cfg : config) (r : request) (peer proto : str) (h : hmap) : str :=
  let fwd0 := hget h K_FWD in
  let fwd1 := if sempty fwd0 then bs "for=" ++ peer ++ bs "; proto=" ++ proto else fwd0 in
  let fwd2 := if sempty (c_localip cfg) then fwd1 else fwd1 ++ bs "; by=" ++ c_localip cfg in
  let fwd3 := if sempty (r_proto r) then fwd2 else fwd2 ++ bs "; httpproto=" ++ lower (r_proto r) in
  let fwd4 := match r_tls r with
              | Some (v, _) => if 0 <? v then fwd3 ++ bs "; tlsver=" ++ tls_ver_name v else fwd3
              | None => fwd3 end in
  match r_tls r with
  | Some (_, cs) => if negb (cs =? 0) then fwd4 ++ bs "; tlscipher=" ++ uint16base16 cs else fwd4
  | None => fwd4
  end.

(* textproto.TrimString *)
Definition is_space (c : N) : bool := (c =? 32) || (c =? 9) || (c =? 10) || (c =? 13).
Fixpoint trim_left (s : str) : str :=
  match s with
  | c :: t => if is_space c then trim_left t else s
  | [] => []
  end.
Definition trim (s : str) : str := rev (trim_left (rev (trim_left s))).

Definition mem_key (k : str) (l : list str) : bool := existsb (beq k) l.

(* unlistManagedHeaders (repair 216337c): the names addHeaders manages are removed from the
   Connection header, so that the reverse proxy's hop-by-hop deletion cannot drop them.
   [managed(name)]: canonical form of the trimmed token is one of the six literals or the
   canonical form of the configured client-IP / TLS header name; "" is never managed. *)
Definition managed_literals : list str := [K_XRI; K_XFP; K_XFPORT; K_XFH; K_XFPREFIX; K_FWD].

Definition managed_key (cfg : config) (k : str) : bool :=
  negb (sempty k) &&
  (mem_key k managed_literals || beq k (canon_key (c_clientip cfg)) || beq k (canon_key (c_tlsheader cfg))).

Definition managed_token (cfg : config) (tok : str) : bool := managed_key cfg (canon_key (trim tok)).

(* the tokens of one Connection value that stay; strings.Split(v, ",") *)
Definition kept_tokens (cfg : config) (v : str) : list str :=
  filter (fun tok => negb (managed_token cfg tok)) (split_byte v 44).

Definition unlist_managed (cfg : config) (h : hmap) : hmap :=
  match hfind h K_CONN with
  | None => h
  | Some vs =>
      if existsb (fun v => existsb (managed_token cfg) (split_byte v 44)) vs then
        let vals := flat_map (fun v => match kept_tokens cfg v with
                                       | [] => []
                                       | toks => [join toks [44]]      (* tokens verbatim, joined with "," *)
                                       end) vs in
        match vals with
        | [] => hdel h K_CONN                        (* h.Del("Connection") *)
        | _ => (K_CONN, vals) :: hdel h K_CONN       (* h["Connection"] = vals *)
        end
      else h                                         (* nothing managed listed: untouched *)
  end.

(* ---------------- addHeaders(r, cfg, stripPath): the header map afterwards ---------------- *)
Definition add_headers (cfg : config) (strip : str) (r : request) : outcome hmap :=
  match r_peer r with
  | None => Err 0                                   (* "cannot parse " + r.RemoteAddr *)
  | Some peer =>
      let tls := is_tls r in
      let cih := c_clientip cfg in
      (* since 35aa11b only "X-Forwarded-For" (exact spelling) is excluded from the overwrite *)
      let h1 := cset (negb (sempty cih) && negb (beq cih K_XFF))
                     (r_hdr r) (canon_key cih) peer in
      let h2 := cset (sempty (hget h1 K_XRI)) h1 K_XRI peer in
      let h3 := if is_ws h2 then xff_append peer h2 else h2 in
      let proto := scheme h3 tls in
      let h4 := cset (sempty (hget h3 K_XFP)) h3 K_XFP (xfp_of_scheme proto) in
      let h5 := cset (sempty (hget h4 K_XFPORT)) h4 K_XFPORT (local_port (r_host r) tls) in
      let h6 := cset (sempty (hget h5 K_XFH) && negb (sempty (r_host r))) h5 K_XFH (r_host r) in
      let h7 := cset (negb (sempty strip)) h6 K_XFPREFIX strip in
      let h8 := hset h7 K_FWD (forwarded_value cfg r peer proto h7) in
      let th := c_tlsheader cfg in
      let h9 := if sempty th then h8
                else if tls then hset h8 (canon_key th) (c_tlsvalue cfg)
                else hdel h8 (canon_key th) in
      Ok (unlist_managed cfg h9)                     (* since 216337c *)
  end.

(* ---------------- addResponseHeaders: value Set on the response, if any ---------------- *)
Definition sts_value (cfg : config) : str :=
  bs "max-age=" ++ i32toa (c_sts_maxage cfg)
  ++ (if c_sts_sub cfg then bs "; includeSubdomains" else [])
  ++ (if c_sts_preload cfg then bs "; preload" else []).

Definition add_response_headers (cfg : config) (tls : bool) : option str :=
  if tls && (0 <? c_sts_maxage cfg)%Z then Some (sts_value cfg) else None.

(* ---------------- httputil.ReverseProxy on the managed headers (modelled) ---------------- *)

(* the header names removeHopByHopHeaders deletes because [Connection] lists them *)
Definition conn_tokens (h : hmap) : list str :=
  match hfind h K_CONN with
  | Some vs => flat_map (fun f => filter (fun s => negb (sempty s)) (map trim (split_byte f 44))) vs
  | None => []
  end.

Definition hop_headers : list str :=
  [bs "Connection"; bs "Proxy-Connection"; bs "Keep-Alive"; bs "Proxy-Authenticate";
   bs "Proxy-Authorization"; bs "Te"; bs "Trailer"; bs "Transfer-Encoding"; bs "Upgrade"].

Definition hdel_all (h : hmap) (ks : list str) : hmap :=
  fold_left (fun acc k => hdel acc (canon_key k)) ks h.

Definition rp_strip (h : hmap) : hmap := hdel_all h (conn_tokens h ++ hop_headers).

Definition rp_out (peer : str) (h : hmap) : hmap := xff_append peer (rp_strip h).

(* websocket path: r.Write(out) then http.ReadRequest at the upstream *)
Definition wire (h : hmap) : hmap :=
  filter (fun kv => match snd kv with [] => false | _ => true end) h.

(* ---------------- HTTPProxy.ServeHTTP, as far as the managed headers go ---------------- *)
Record target := {
  t_host : str;        (* route option host=: "", "dst" or a host name *)
  t_url_host : str;    (* t.URL.Host *)
  t_strip : str        (* t.StripPath *)
}.

Definition takes_ws_path (h : hmap) : bool :=
  let up := hget h K_UPGRADE in beq up (bs "websocket") || beq up (bs "Websocket").

(* r.Host after the host= rewrite.  Since the repair 7dd13e1 the rewrite runs AFTER
   addHeaders (http_proxy.go: "rewrite the Host header only after the forwarding headers
   have been derived from the host the client asked for"); before it, it ran first (kept
   below as [serve_host_first_unrepaired] for the refutation theorem of F-C08-1). *)
Definition rewritten_host (t : target) (host : str) : str :=
  if beq (t_host t) (bs "dst") then t_url_host t
  else if negb (sempty (t_host t)) then t_host t else host.

(* the request addHeaders sees in ServeHTTP: request-id header set, Host still the client's *)
Definition req_with_reqid (cfg : config) (uuid : str) (r : request) : request :=
  {| r_peer := r_peer r; r_host := r_host r; r_tls := r_tls r; r_proto := r_proto r;
     r_hdr := cset (negb (sempty (c_reqid cfg))) (r_hdr r) (canon_key (c_reqid cfg)) uuid |}.

(* Ok (header map at the upstream, Strict-Transport-Security Set on the response);
   Err 0 = 500 "cannot parse", the upstream is not contacted.
   Order: request-id header, addHeaders, host= rewrite of r.Host, addResponseHeaders,
   websocket handler / ReverseProxy.  The rewritten r.Host does not influence any managed
   header any more; what the upstream receives as Host is [upstream_host]. *)
Definition serve (cfg : config) (t : target) (uuid : str) (r : request) : outcome (hmap * option str) :=
  do h <- add_headers cfg (t_strip t) (req_with_reqid cfg uuid r);
  let _host := rewritten_host t (r_host r) in
  let sts := add_response_headers cfg (is_tls r) in
  match r_peer r with
  | None => Err 0
  | Some peer => Ok (if takes_ws_path h then wire h else rp_out peer h, sts)
  end.

(* The Host the upstream receives: the rewritten r.Host; on the websocket path
   Request.Write falls back to r.URL.Host (= the target's) when r.Host is empty, on the
   ReverseProxy path the transport is handed the request with Host as it is. *)
(* net/http removeZone (Request.Write, modelled): "[fe80::1%eth0]:80" is written as "[fe80::1]:80" *)
Definition remove_zone (host : str) : str :=
  if starts_bracket host then
    match last_index_byte host 93 with
    | None => host
    | Some i =>
        match last_index_byte (firstn i host) 37 with
        | None => host
        | Some j => firstn j host ++ skipn i host
        end
    end
  else host.

Definition upstream_host (cfg : config) (t : target) (uuid : str) (r : request) : outcome str :=
  do h <- add_headers cfg (t_strip t) (req_with_reqid cfg uuid r);
  let host := rewritten_host t (r_host r) in
  Ok (if takes_ws_path h then remove_zone (if sempty host then t_url_host t else host) else host).

(* ---------------- before the repair afbb806 (F-C08-2, fixed) ----------------
   addHeaders and scheme recognised only the lower-case spelling while ServeHTTP sent
   "Websocket" to the websocket handler as well.  Used by the refutation theorem only. *)
Definition is_ws_unrepaired (h : hmap) : bool := beq (hget h K_UPGRADE) (bs "websocket").

Definition conn_scheme_unrepaired (h : hmap) (tls : bool) : str :=
  if is_ws_unrepaired h then (if tls then bs "wss" else bs "ws") else (if tls then bs "https" else bs "http").

Definition scheme_unrepaired (h : hmap) (tls : bool) : str :=
  let xfp := hget h K_XFP in
  let fwd := hget h K_FWD in
  if negb (sempty xfp) && sempty fwd then xfp
  else if negb (sempty fwd) && sempty xfp then
    match index fwd (bs "proto=") with
    | None => conn_scheme_unrepaired h tls
    | Some i =>
        let p1 := skipn (i + 6) fwd in
        match index_byte p1 59 with Some n => firstn n p1 | None => p1 end
    end
  else conn_scheme_unrepaired h tls.

Definition add_headers_unrepaired (cfg : config) (strip : str) (r : request) : outcome hmap :=
  match r_peer r with
  | None => Err 0
  | Some peer =>
      let tls := is_tls r in
      let cih := c_clientip cfg in
      let h1 := cset (negb (sempty cih) && negb (beq cih K_XFF) && negb (beq cih K_XRI))
                     (r_hdr r) (canon_key cih) peer in
      let h2 := cset (sempty (hget h1 K_XRI)) h1 K_XRI peer in
      let h3 := if is_ws_unrepaired h2 then xff_append peer h2 else h2 in
      let proto := scheme_unrepaired h3 tls in
      let h4 := cset (sempty (hget h3 K_XFP)) h3 K_XFP (xfp_of_scheme proto) in
      let h5 := cset (sempty (hget h4 K_XFPORT)) h4 K_XFPORT (local_port (r_host r) tls) in
      let h6 := cset (sempty (hget h5 K_XFH) && negb (sempty (r_host r))) h5 K_XFH (r_host r) in
      let h7 := cset (negb (sempty strip)) h6 K_XFPREFIX strip in
      let h8 := hset h7 K_FWD (forwarded_value cfg r peer proto h7) in
      let th := c_tlsheader cfg in
      Ok (if sempty th then h8
          else if tls then hset h8 (canon_key th) (c_tlsvalue cfg)
          else hdel h8 (canon_key th))
  end.

Definition serve_unrepaired (cfg : config) (t : target) (uuid : str) (r : request) : outcome (hmap * option str) :=
  let h0 := cset (negb (sempty (c_reqid cfg))) (r_hdr r) (canon_key (c_reqid cfg)) uuid in
  let r' := {| r_peer := r_peer r; r_host := rewritten_host t (r_host r); r_tls := r_tls r;
               r_proto := r_proto r; r_hdr := h0 |} in
  do h <- add_headers_unrepaired cfg (t_strip t) r';
  let sts := add_response_headers cfg (is_tls r) in
  match r_peer r with
  | None => Err 0
  | Some peer => Ok (if takes_ws_path h then wire h else rp_out peer h, sts)
  end.

(* ---------------- before the repair 7dd13e1 (F-C08-1, fixed) ----------------
   ServeHTTP rewrote r.Host for host= routes BEFORE addHeaders, which derives
   X-Forwarded-Host / -Port from r.Host.  ([serve_unrepaired] above is the code before both
   repairs: it has this order too.)  Used by the refutation theorem only. *)
Definition serve_host_first_unrepaired (cfg : config) (t : target) (uuid : str) (r : request)
  : outcome (hmap * option str) :=
  let h0 := cset (negb (sempty (c_reqid cfg))) (r_hdr r) (canon_key (c_reqid cfg)) uuid in
  let r' := {| r_peer := r_peer r; r_host := rewritten_host t (r_host r); r_tls := r_tls r;
               r_proto := r_proto r; r_hdr := h0 |} in
  do h <- add_headers cfg (t_strip t) r';
  let sts := add_response_headers cfg (is_tls r) in
  match r_peer r with
  | None => Err 0
  | Some peer => Ok (if takes_ws_path h then wire h else rp_out peer h, sts)
  end.

(* ---------------- before the repairs 35aa11b (F-C08-3) and 216337c (F-C08-4) ----------------
   addHeaders with an arbitrary overwrite guard and an arbitrary last statement; the faithful
   [add_headers] is the instance (current guard, unlist_managed) -- see
   Proofs.Headers.add_headers_is_instance.  The two instances below are used by the
   refutation theorems only. *)
Definition add_headers_with (guard : str -> bool) (fin : config -> hmap -> hmap)
           (cfg : config) (strip : str) (r : request) : outcome hmap :=
  match r_peer r with
  | None => Err 0
  | Some peer =>
      let tls := is_tls r in
      let cih := c_clientip cfg in
      let h1 := cset (guard cih) (r_hdr r) (canon_key cih) peer in
      let h2 := cset (sempty (hget h1 K_XRI)) h1 K_XRI peer in
      let h3 := if is_ws h2 then xff_append peer h2 else h2 in
      let proto := scheme h3 tls in
      let h4 := cset (sempty (hget h3 K_XFP)) h3 K_XFP (xfp_of_scheme proto) in
      let h5 := cset (sempty (hget h4 K_XFPORT)) h4 K_XFPORT (local_port (r_host r) tls) in
      let h6 := cset (sempty (hget h5 K_XFH) && negb (sempty (r_host r))) h5 K_XFH (r_host r) in
      let h7 := cset (negb (sempty strip)) h6 K_XFPREFIX strip in
      let h8 := hset h7 K_FWD (forwarded_value cfg r peer proto h7) in
      let th := c_tlsheader cfg in
      let h9 := if sempty th then h8
                else if tls then hset h8 (canon_key th) (c_tlsvalue cfg)
                else hdel h8 (canon_key th) in
      Ok (fin cfg h9)
  end.

Definition guard_current (cih : str) : bool := negb (sempty cih) && negb (beq cih K_XFF).
(* before 35aa11b: "X-Real-Ip" (exact spelling) was excluded from the overwrite as well *)
Definition guard_xri_unrepaired (cih : str) : bool :=
  negb (sempty cih) && negb (beq cih K_XFF) && negb (beq cih K_XRI).

Definition serve_with (ah : config -> str -> request -> outcome hmap)
           (cfg : config) (t : target) (uuid : str) (r : request) : outcome (hmap * option str) :=
  do h <- ah cfg (t_strip t) (req_with_reqid cfg uuid r);
  let sts := add_response_headers cfg (is_tls r) in
  match r_peer r with
  | None => Err 0
  | Some peer => Ok (if takes_ws_path h then wire h else rp_out peer h, sts)
  end.

(* the code between afbb806/7dd13e1 and 35aa11b: X-Real-Ip guard, Connection untouched *)
Definition serve_xri_guard_unrepaired := serve_with (add_headers_with guard_xri_unrepaired (fun _ h => h)).
(* the code between 35aa11b and 216337c: current guard, Connection untouched *)
Definition serve_conn_unrepaired := serve_with (add_headers_with guard_current (fun _ h => h)).
