(** Executable model of the client side of a websocket upgrade before the relay starts
    (property C09): what net/http's server has read from the connection when the handler
    hijacks it, and how proxy/ws_handler.go passes those bytes on.  No proofs here.

    go1.24 net/http/server.go: the connection is read through c.bufr = bufio.NewReader(connReader)
    (4096 bytes).  readRequest reads the request head line by line (textproto ReadLine ->
    bufio ReadLine -> ReadSlice('\n')) up to the blank line; every fill() is ONE Read of the
    connection into the free part of the buffer, so whatever the client sent in the same
    segment(s) as the request - the start of its stream - sits in that buffer afterwards.  A GET
    has no body: the server starts a background Read of ONE byte on the raw connection
    (connReader.backgroundRead); Hijack aborts it and, if it did take a byte, pushes it behind
    the buffered bytes (hijackLocked: c.bufr.Peek(c.bufr.Buffered()+1)).

    proxy/ws_handler.go:39-69 (since fix commit 66d5585): after r.Write(out),
      if n := brw.Reader.Buffered(); n > 0 { io.CopyN(out, brw.Reader, int64(n)) }
    then the handshake reply is read and the relay copies the RAW connection [in] - whatever
    were still in brw.Reader at that point would never be forwarded. *)
From Coq Require Import String List NArith Bool Arith PeanoNat.
From Fabio Require Import Lib.Outcome Lib.Bytes Model.BufioR Model.Tunnel.
Import ListNotations.
Local Open Scope N_scope.
Local Open Scope outcome_scope.

(* len(c.bufr.buf): bufio.NewReader -> defaultBufSize *)
Definition http_buf_size : nat := N.to_nat 4096.

(* bytes.IndexByte(s, '\n') *)
Fixpoint nl_index (s : str) : option nat :=
  match s with
  | [] => None
  | x :: r => if x =? 10 then Some O else match nl_index r with Some i => Some (S i) | None => None end
  end.

(* bufio.Reader.ReadSlice('\n'): (line incl. delimiter, error kind, reader)
     for {
       if i := IndexByte(buf[r:w], '\n'); i >= 0 { line = buf[r:r+i+1]; r += i+1; break }
       if b.err != nil { line = buf[r:w]; r = w; err = b.readErr(); break }
       if b.Buffered() >= len(b.buf) { r = w; line = b.buf; err = ErrBufferFull; break }
       b.fill()
     } *)
Fixpoint read_slice_loop (fuel : nat) (b : breader) : option (str * N * breader) :=
  match nl_index (b_buf b) with
  | Some i => Some (firstn (S i) (b_buf b), 0, set_buf b (skipn (S i) (b_buf b)))
  | None =>
      if negb (b_err b =? 0) then Some (b_buf b, b_err b, clear_err (set_buf b []))
      else if (b_cap b <=? buffered b)%nat then Some (b_buf b, 3, set_buf b [])
      else match fuel with
           | O => None
           | S f => read_slice_loop f (fill b)
           end
  end.

(* every fill adds a byte or sets the error: cap + 1 rounds suffice (Err 77 = fuel, excluded by
   Proofs.WsHijack.read_slice_never_out_of_fuel) *)
Definition read_slice (b : breader) : outcome (str * N * breader) :=
  match read_slice_loop (S (b_cap b)) b with
  | Some r => Ok r
  | None => Err 77
  end.

Definition is_blank_line (l : str) : bool :=
  match l with
  | [10] => true
  | [13; 10] => true
  | _ => false
  end.

(* readRequest: the request line, then header lines up to the blank line.  Result: the head as
   it was read and the reader as it stands afterwards; [None]: the head is not read (the
   connection ends or fails first, or a line does not fit the buffer - bufio.ReadLine then
   works in pieces, which is outside this model). *)
Fixpoint read_head_loop (fuel : nat) (first : bool) (acc : str) (b : breader) : outcome (option (str * breader)) :=
  match fuel with
  | O => Err 77
  | S f =>
      do '(l, e, b1) <- read_slice b;
      if negb (e =? 0) then Ok None
      else if negb first && is_blank_line l then Ok (Some (acc ++ l, b1))
      else read_head_loop f false (acc ++ l) b1
  end.

Definition http_read_head (b : breader) : outcome (option (str * breader)) :=
  read_head_loop (S (reader_measure b)) true [] b.

(* startBackgroundRead ... Hijack.  [bg]: the background Read got to run before the handler
   hijacked the connection.  It takes ONE byte of whatever the connection holds at that moment
   (nothing there: it blocks and is aborted); hijackLocked then peeks Buffered()+1 bytes, which
   pulls that byte in behind the buffered ones.  A Peek beyond the buffer size is
   ErrBufferFull: Hijack fails ([Err 5], excluded by Proofs.WsHijack: after a head has been
   read the buffer is never full). *)
Definition hijack_bg (bg : bool) (b : breader) : outcome breader :=
  if bg then
    let '(d, s', _) := src_read 1 (b_src b) in
    match d with
    | [] => Ok b
    | _ => if (b_cap b <=? buffered b)%nat then Err 5
           else Ok {| b_cap := b_cap b; b_buf := b_buf b ++ d; b_src := s'; b_err := b_err b |}
    end
  else Ok b.

(* io.CopyN(out, r, n) = io.Copy(out, io.LimitReader(r, n)): the copy buffer has
   min(32 KiB, n) bytes; LimitedReader.Read cuts it to the count that is left and reports
   io.EOF when the count is used up (Copy: err = nil).  Every chunk read is written.
   Result: (bytes written, error kind, reader). *)
Fixpoint limited_copy_loop (fuel m lim : nat) (b : breader) : option (str * N * breader) :=
  match lim with
  | O => Some ([], 0, b)
  | _ =>
    match fuel with
    | O => None
    | S f =>
        let '(d, e, b1) := bread b (Nat.min m lim) in
        if negb (e =? 0) then Some (d, e, b1)
        else match limited_copy_loop f m (lim - length d) b1 with
             | Some (r, e', b2) => Some (d ++ r, e', b2)
             | None => None
             end
    end
  end.

(* ws_handler.go:62-69: if n := brw.Reader.Buffered(); n > 0 { io.CopyN(out, brw.Reader, n) } *)
Definition ws_copy_buffered (b : breader) : outcome (str * N * breader) :=
  let n := buffered b in
  match limited_copy_loop (S n) (Nat.min copy_buf_size n) n b with
  | Some r => Ok r
  | None => Err 77
  end.

(* What the upstream receives after the forwarded request if the client -> upstream direction
   runs to the client's EOF.  [early]: the segments the client sends without waiting for the
   101 (the request, in one or several segments, the last of them possibly carrying the first
   bytes of the stream, and further segments); [late]: what it sends afterwards.
   - the head is read through the server's reader,
   - the background byte, if any, joins the buffer,
   - CopyN forwards the buffered bytes (an error there ends the handler: nothing else goes out),
   - the relay copies the raw connection: what the early segments still hold, then the late
     ones.  Bytes that stayed in the reader are NOT part of it.
   Result: (the head as read, what CopyN forwarded, what the relay copies afterwards); [None]:
   no request, no tunnel. *)
Definition ws_early_upstream (early late : list str) (bg : bool) : outcome (option (str * str * str)) :=
  do r <- http_read_head (new_reader http_buf_size early);
  match r with
  | None => Ok None
  | Some (h, b1) =>
      do b2 <- hijack_bg bg b1;
      do '(fw, e, b3) <- ws_copy_buffered b2;
      if negb (e =? 0) then Ok (Some (h, fw, []))
      else do c <- copy_buffer (b_src b3 ++ late); Ok (Some (h, fw, c))
  end.

(* how many bytes sit in the reader when the handler asks Buffered() (for the evidence and
   the non-vacuity examples: more than the 1024 bytes of the handshake buffer, up to nearly
   the whole 4096) *)
Definition ws_buffered_at_hijack (early : list str) (bg : bool) : outcome (option nat) :=
  do r <- http_read_head (new_reader http_buf_size early);
  match r with
  | None => Ok None
  | Some (_, b1) => do b2 <- hijack_bg bg b1; Ok (Some (buffered b2))
  end.

(* ---------- the specification side: the request head on the flat stream ----------
   independent of segments, buffers and reads: cut the stream into lines at '\n'; the head ends
   with the first blank line after the request line *)
Fixpoint take_line (s : str) : option (str * str) :=
  match s with
  | [] => None
  | x :: r => if x =? 10 then Some ([x], r)
              else match take_line r with Some (l, rest) => Some (x :: l, rest) | None => None end
  end.

Fixpoint flat_head_loop (fuel : nat) (first : bool) (acc s : str) : option (str * str) :=
  match fuel with
  | O => None
  | S f =>
      match take_line s with
      | None => None
      | Some (l, rest) =>
          if negb first && is_blank_line l then Some (acc ++ l, rest)
          else flat_head_loop f false (acc ++ l) rest
      end
  end.

Definition flat_head (s : str) : option (str * str) := flat_head_loop (S (length s)) true [] s.

(* every line of the head fits the server's reader *)
Fixpoint lines_fit (cap : nat) (fuel : nat) (s : str) : bool :=
  match fuel with
  | O => true
  | S f => match take_line s with
           | None => true
           | Some (l, rest) => (length l <=? cap)%nat && lines_fit cap f rest
           end
  end.

(* ---------- the scripted websocket scenario with early bytes ----------
   as Tunnel.scenario_expect's websocket branch, with the client -> upstream stream coming from
   [ws_early_upstream]: [req] the upgrade request, cut after [rsplit] bytes if 0 < rsplit <
   |req|; the first [nearly] segments of the client's stream are sent without waiting for the
   101, the first of them in the same segment as (the rest of) the request. *)
Definition ws_early_segments (req : str) (rsplit : N) (segs : list str) (nearly : N) : list str * list str :=
  let e := firstn (N.to_nat nearly) segs in
  let late := skipn (N.to_nat nearly) segs in
  let cut := (0 <? rsplit) && (rsplit <? nlen' req) in
  let r1 := if cut then [firstn (N.to_nat rsplit) req] else [] in
  let r2 := if cut then skipn (N.to_nat rsplit) req else req in
  match e with
  | [] => (r1 ++ [r2], late)
  | s0 :: more => (r1 ++ (r2 ++ s0) :: more, late)
  end.

Definition scenario_expect_ws_early (req : str) (rsplit : N) (segs : list str) (nearly : N) (bg : bool) (fin : N)
    (cw_in cwait : bool) (ce : cend) (ut : utrig) (reply : str) (rseg1 whead : N) (ue : uend) : outcome expectation :=
  let '(early, late) := ws_early_segments req rsplit segs nearly in
  let out0 := match ut with UAtConnect => reply | _ => firstn (N.to_nat whead) reply end in
  let useg := if (0 <? rseg1) && (rseg1 <? nlen' out0)
              then [firstn (N.to_nat rseg1) out0; skipn (N.to_nat rseg1) out0] else [out0] in
  do u <- ws_early_upstream early late bg;
  match u with
  | None => Ok no_tunnel
  | Some (h, fw, c) =>
    if negb (beq h req) then Err 6       (* the scripted request is what the server reads as the head *)
    else
    do r <- ws_read_first useg;
    match r with
    | None =>        (* error reading handshake: the upstream has what was forwarded with the request, the client nothing *)
        Ok {| e_conn := true; e_up := fw; e_up_lo := nlen' fw; e_cl := []; e_cl_lo := 0; e_cl_hi := 0; e_ends := Some true; e_cl_eof := Some false |}
    | Some (chunk, _) =>
      if has_prefix chunk ws_101 then
        let e := tunnel_expect (fw ++ c) reply cw_in (1 <? fin) cwait ce ut ue in
        Ok {| e_conn := true; e_up := e_up e; e_up_lo := e_up_lo e; e_cl := e_cl e;
              e_cl_lo := N.max whead (e_cl_lo e); e_cl_hi := N.max whead (e_cl_hi e); e_ends := e_ends e; e_cl_eof := e_cl_eof e |}
      else
        Ok {| e_conn := true; e_up := fw; e_up_lo := nlen' fw; e_cl := chunk; e_cl_lo := nlen' chunk; e_cl_hi := nlen' chunk; e_ends := Some true; e_cl_eof := Some false |}
    end
  end.
