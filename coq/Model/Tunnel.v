(** Executable model of fabio's raw tunnels (property C09):
    proxy/tcp/copy_buffer.go, proxy_proto.go, tcp_proxy.go, tcp_dynamic_proxy.go,
    sni_proxy.go and the websocket relay proxy/ws_handler.go.  No proofs here.

    The client is a scripted connection: a list of segments (one Read returns at
    most one segment), then it stays open, half-closes or closes.  Payload bytes
    are never inspected by the code, so streams are lists of [N]: literal bytes are
    < 256 and the harness ships big payloads as positions ([symseq]). *)
From Coq Require Import String List NArith Bool Arith PeanoNat.
From Fabio Require Import Lib.Outcome Lib.Bytes Model.ClientHello Model.BufioR.
Import ListNotations.
Local Open Scope N_scope.
Local Open Scope outcome_scope.

Fixpoint symseq_from (n : nat) (v : N) : str :=
  match n with O => [] | S k => v :: symseq_from k (N.succ v) end.
Definition symseq (off len : N) : str := symseq_from (N.to_nat len) (256 + off).

(* cut a stream into segments of the given lengths (whatever is left becomes a last segment) *)
Fixpoint split_segs (stream : str) (lens : list N) : list str :=
  match lens with
  | [] => match stream with [] => [] | _ => [stream] end
  | n :: rest => firstn (N.to_nat n) stream :: split_segs (skipn (N.to_nat n) stream) rest
  end.

(* ---------- copy_buffer.go: read up to 32 KiB, write what was read, stop at EOF ---------- *)
Definition copy_buf_size : nat := N.to_nat 32768.

(* [m] = len(buf).  Writes to a live destination are complete (nw = nr, ew = nil);
   a failing write ends the loop with an error and is part of the race model below. *)
Fixpoint copy_loop (fuel : nat) (m : nat) (src : list str) : option str :=
  match fuel with
  | O => None
  | S f =>
      let '(d, src', eof) := src_read m src in
      if eof then Some []                        (* nr = 0, er = io.EOF: break, err = nil *)
      else match copy_loop f m src' with         (* dst.Write(buf[0:nr]), next round *)
           | Some r => Some (d ++ r)
           | None => None
           end
  end.

Definition src_measure (src : list str) : nat := length (concat src) + length src.

(* The read step in general: a Read may return bytes TOGETHER with an error (io.Reader allows
   n > 0 with err != nil; crypto/tls connections do it when the last record and close_notify
   arrive together).  [fin] = 0: the source reports io.EOF in a Read of its own; [fin] = k > 0:
   the Read that returns the source's last bytes also returns error k (1 = io.EOF, other = a
   non-EOF error), and so does every later Read.  Status 0 = nil. *)
Definition all_empty (src : list str) : bool :=
  forallb (fun s => match s with [] => true | _ => false end) src.
Definition src_read_st (fin : N) (m : nat) (src : list str) : str * list str * N :=
  let '(d, s', eof) := src_read m src in
  if eof then ([], s', if fin =? 0 then 1 else fin)
  else if negb (fin =? 0) && all_empty s' then (d, s', fin)
  else (d, s', 0).

(* copy_buffer.go:14-37 in this generality: the chunk is written FIRST (nr > 0), THEN the
   status is acted upon (er != nil: break) - bytes that arrive together with an error are
   delivered *)
Fixpoint copy_loop_st (fuel : nat) (m : nat) (fin : N) (src : list str) : option str :=
  match fuel with
  | O => None
  | S f =>
      let '(d, src', st) := src_read_st fin m src in
      if negb (st =? 0) then Some d
      else match copy_loop_st f m fin src' with
           | Some r => Some (d ++ r)
           | None => None
           end
  end.

Definition copy_buffer_st (fin : N) (src : list str) : outcome str :=
  match copy_loop_st (S (src_measure src)) copy_buf_size fin src with
  | Some s => Ok s
  | None => Err 77
  end.

(* what the destination has received when the source is exhausted; [Err 77] = fuel
   (excluded by Proofs.Tunnel.copy_preserves_stream) *)
Definition copy_buffer (src : list str) : outcome str :=
  match copy_loop (S (src_measure src)) copy_buf_size src with
  | Some s => Ok s
  | None => Err 77
  end.

(* ---------- proxy_proto.go: PROXY protocol v1 line ---------- *)
(* the address strings are what net.SplitHostPort returns for in.RemoteAddr() /
   in.LocalAddr(); [is4] = net.ParseIP(clientAddr).To4() != nil (computed by the net
   package in the harness) *)
Definition proxy_line (is4 : bool) (caddr saddr cport sport : str) : str :=
  bs "PROXY "%string ++ (if is4 then bs "TCP4"%string else bs "TCP6"%string) ++ [32] ++ caddr ++ [32] ++ saddr
     ++ [32] ++ cport ++ [32] ++ sport ++ [13; 10].

Inductive kind := KTcp | KSni | KDyn | KWs.

(* ---------- the part of ServeTCP before the copy loops ---------- *)

(* sni_proxy.go:45-130: the handshake through the bufio.Reader.  Result: what has been
   written to the upstream connection (PROXY header, then out.Write(data)) and the reader
   as it stands afterwards.  [None]: no upstream connection is made (handshake rejected). *)
(* len(b.buf) of bufio.NewReader: 4096 *)
Definition sni_buf_size : nat := N.to_nat 4096.

Definition sni_handshake (line : str) (segs : list str) : outcome (option (str * breader)) :=
  let b0 := new_reader sni_buf_size segs in                          (* bufio.NewReader(in) *)
  do '(hdr, e1, b1) <- peek b0 9;                            (* tlsReader.Peek(9) *)
  if negb (e1 =? 0) then Ok None else
  match client_hello_buffer_size hdr with
  | Panic => Panic
  | Err _ => Ok None
  | Ok size =>
    do '(data, e2, b2) <- read_full b1 (N.to_nat size);      (* io.ReadFull(tlsReader, data) *)
    if negb (e2 =? 0) then Ok None else
    match read_server_name (skipn 5 data) with               (* readServerName(data[5:]) *)
    | Panic => Panic
    | Err _ => Ok None
    | Ok [] => Ok None                                       (* server_name missing *)
    | Ok _ => Ok (Some (line ++ data, b2))
    end
  end.

(* copyBuffer(out, tlsReader) (sni_proxy.go since c17abb6): the same loop, reading through
   the bufio.Reader: buffered bytes first, then (buffer empty, 32 KiB >= 4096) straight from
   the connection.  What was read is written; any error, io.EOF included, ends the loop. *)
Fixpoint copy_reader_loop (fuel : nat) (m : nat) (b : breader) : option str :=
  match fuel with
  | O => None
  | S f =>
      let '(d, e, b1) := bread b m in
      if negb (e =? 0) then Some d
      else match copy_reader_loop f m b1 with
           | Some r => Some (d ++ r)
           | None => None
           end
  end.

Definition reader_measure (b : breader) : nat := length (b_buf b) + src_measure (b_src b).

Definition copy_from_reader (b : breader) : outcome str :=
  match copy_reader_loop (S (reader_measure b)) copy_buf_size b with
  | Some s => Ok s
  | None => Err 77
  end.

(* what has been written to the upstream before the copy, and the client connection *)
Record setup := { s_pre : str; s_src : list str }.

Definition tunnel_setup (k : kind) (pp : bool) (line : str) (segs : list str) : setup :=
  match k with
  | KTcp => {| s_pre := if pp then line else []; s_src := segs |}
  | KDyn => {| s_pre := if pp then line else []; s_src := segs |}   (* since fix commit 341d532 *)
  | _ => {| s_pre := []; s_src := segs |}
  end.

(* everything the upstream receives if the client->upstream direction runs to the
   client's EOF *)
Definition upstream_stream (k : kind) (pp : bool) (line : str) (segs : list str) : outcome (option str) :=
  match k with
  | KSni =>
      do h <- sni_handshake (if pp then line else []) segs;
      match h with
      | None => Ok None
      | Some (pre, b) => do c <- copy_from_reader b; Ok (Some (pre ++ c))
      end
  | _ =>
      let st := tunnel_setup k pp line segs in
      do c <- copy_buffer (s_src st); Ok (Some (s_pre st ++ c))
  end.

(* the same with the client's final Read carrying its bytes together with error [fin].
   tcp / tcp-dynamic: the raw copy loop in its general form.  tcp+sni: the flag does not enter
   the bufio.Reader model (partial: bufio keeps such bytes and defers the error, the direct
   read passes both on; only the correspondence run ties that to the real bufio) - the model
   predicts the same stream. *)
Definition upstream_stream_f (k : kind) (pp : bool) (line : str) (segs : list str) (fin : N) : outcome (option str) :=
  match k with
  | KSni => upstream_stream k pp line segs
  | _ =>
      let st := tunnel_setup k pp line segs in
      do c <- copy_buffer_st fin (s_src st); Ok (Some (s_pre st ++ c))
  end.

(* ---------- the unrepaired tcp-dynamic proxy (before fix commit 341d532) ----------
   kept only for the refutation theorem C09_dynamic_ignores_proxyproto_refuted:
   DynamicProxy.ServeTCP never called WriteProxyHeader, whatever the target's pxyproto option *)
Definition upstream_stream_dyn_unrepaired (segs : list str) : outcome (option str) :=
  do c <- copy_buffer segs; Ok (Some c).

(* ---------- the unrepaired tcp+sni copier (before fix commit c17abb6) ----------
   kept only for the refutation theorem C09_sni_leftover_refuted: the copy read the raw
   connection [in], not the bufio.Reader, so whatever the reader still held was never
   forwarded. *)
Definition upstream_stream_sni_unrepaired (pp : bool) (line : str) (segs : list str) : outcome (option str) :=
  do h <- sni_handshake (if pp then line else []) segs;
  match h with
  | None => Ok None
  | Some (pre, b) => do c <- copy_buffer (b_src b); Ok (Some (pre ++ c))
  end.
(* the bytes that were stuck in the reader *)
Definition sni_leftover_unrepaired (line : str) (segs : list str) : str :=
  match sni_handshake line segs with Ok (Some (_, b)) => b_buf b | _ => [] end.

(* ---------- ws_handler.go: the handshake reply ----------
   since fix commit 9c9f13b: io.ReadAtLeast(out, b, 12) with len b = 1024: Reads of the
   upstream connection are accumulated until at least the 12 bytes of "HTTP/1.1 101" are
   there (one Read returns at most one segment of the upstream's output, cut to the room left
   in b).  b[:n] is written to the client and tested for the prefix; the relay starts only if
   it matches.  If the upstream ends (or stays silent beyond the 1 s deadline) before 12 bytes
   have arrived, ReadAtLeast fails: "error reading handshake", nothing is forwarded to the
   client (http.Error on a hijacked connection writes nothing) and the connection is closed.
   Result: Ok (Some (chunk, rest of the upstream's segments)) / Ok None = read error /
   Err 77 = fuel (excluded by Proofs.Tunnel.ws_read_first_never_out_of_fuel). *)
Definition ws_101 : str := bs "HTTP/1.1 101"%string.
Fixpoint ws_read_loop (fuel : nat) (acc : str) (src : list str) : outcome (option (str * list str)) :=
  if (12 <=? length acc)%nat then Ok (Some (acc, src)) else
  match fuel with
  | O => Err 77
  | S f =>
      let '(d, s', eof) := src_read (1024 - length acc)%nat src in
      if eof then Ok None else ws_read_loop f (acc ++ d) s'
  end.
Definition ws_read_first (useg : list str) : outcome (option (str * list str)) := ws_read_loop 12%nat [] useg.

(* ws_handler.go:39-69: what the http server had read beyond the upgrade request is in the
   hijacked bufio reader ([buffered]: bytes the client sent in the request's segment, and the one
   byte the server's background read may have taken); since fix commit 66d5585 it is copied to the
   upstream right after the request, ahead of what the relay then reads from the connection.
   The unrepaired handler discarded the reader (kept for C09_ws_early_bytes_refuted). *)
Definition ws_client_stream (buffered : str) (rest : list str) : outcome str :=
  do c <- copy_buffer rest; Ok (buffered ++ c).
Definition ws_client_stream_unrepaired (buffered : str) (rest : list str) : outcome str :=
  copy_buffer rest.

(* the unrepaired handshake step (before 9c9f13b), kept only for C09_ws_split_101_refuted:
   a single out.Read(b); [useg1] = the upstream's first segment *)
Definition ws_first_chunk_unrepaired (useg1 : str) : str := firstn 1024 useg1.
Definition ws_upgraded_unrepaired (useg1 : str) : bool := has_prefix (ws_first_chunk_unrepaired useg1) ws_101.

Inductive dir := C2U | U2C.

(* ---------- the tunnel (proxy/tcp/tunnel.go since fix commit e0f2d05; inline in ws_handler.go) ----------
   Two copiers.  A copier moves one chunk per step (Read then Write).  When its source reports
   EOF it closes the WRITE side of its destination: if that connection can be closed for writing
   only the direction is done cleanly ([Some true]) and the other one keeps copying; otherwise
   it reports io.EOF ([Some false]).  tunnel() returns - and both connections are closed - as
   soon as a direction reports non-nil, or when both are done cleanly.  [h_cw_out]/[h_cw_in]:
   the upstream / client connection supports CloseWrite (the dialled *net.TCPConn does; the
   client side is whatever the listener hands in).  Write errors end the tunnel at once and
   appear only as the cut cases of the scenario analysis below. *)
Record hstate := {
  h_c_todo : list str;  h_c_eof : bool;  h_c_done : str;  h_c_fin : option bool;
  h_u_todo : list str;  h_u_eof : bool;  h_u_done : str;  h_u_fin : option bool;
  h_cw_out : bool;  h_cw_in : bool
}.

Definition h_ended (s : hstate) : bool :=
  match h_c_fin s, h_u_fin s with
  | Some false, _ => true
  | _, Some false => true
  | Some true, Some true => true
  | _, _ => false
  end.

Definition hstep (d : dir) (s : hstate) : hstate :=
  if h_ended s then s else
  match d with
  | C2U =>
      match h_c_fin s with
      | Some _ => s
      | None =>
        match h_c_todo s with
        | ch :: rest =>
            {| h_c_todo := rest; h_c_eof := h_c_eof s; h_c_done := h_c_done s ++ ch; h_c_fin := None;
               h_u_todo := h_u_todo s; h_u_eof := h_u_eof s; h_u_done := h_u_done s; h_u_fin := h_u_fin s;
               h_cw_out := h_cw_out s; h_cw_in := h_cw_in s |}
        | [] => if h_c_eof s then
            {| h_c_todo := []; h_c_eof := true; h_c_done := h_c_done s; h_c_fin := Some (h_cw_out s);
               h_u_todo := h_u_todo s; h_u_eof := h_u_eof s; h_u_done := h_u_done s; h_u_fin := h_u_fin s;
               h_cw_out := h_cw_out s; h_cw_in := h_cw_in s |}
            else s
        end
      end
  | U2C =>
      match h_u_fin s with
      | Some _ => s
      | None =>
        match h_u_todo s with
        | ch :: rest =>
            {| h_c_todo := h_c_todo s; h_c_eof := h_c_eof s; h_c_done := h_c_done s; h_c_fin := h_c_fin s;
               h_u_todo := rest; h_u_eof := h_u_eof s; h_u_done := h_u_done s ++ ch; h_u_fin := None;
               h_cw_out := h_cw_out s; h_cw_in := h_cw_in s |}
        | [] => if h_u_eof s then
            {| h_c_todo := h_c_todo s; h_c_eof := h_c_eof s; h_c_done := h_c_done s; h_c_fin := h_c_fin s;
               h_u_todo := []; h_u_eof := true; h_u_done := h_u_done s; h_u_fin := Some (h_cw_in s);
               h_cw_out := h_cw_out s; h_cw_in := h_cw_in s |}
            else s
        end
      end
  end.

Definition hrun (sched : list dir) (s : hstate) : hstate := fold_left (fun s d => hstep d s) sched s.

Definition hinit (c : list str) (ceof : bool) (u : list str) (ueof : bool) (cw_out cw_in : bool) : hstate :=
  {| h_c_todo := c; h_c_eof := ceof; h_c_done := []; h_c_fin := None;
     h_u_todo := u; h_u_eof := ueof; h_u_done := []; h_u_fin := None; h_cw_out := cw_out; h_cw_in := cw_in |}.

(* ---------- the unrepaired tunnel (before e0f2d05), kept only for C09_half_close_reply_refuted:
   "the first finished direction ends the tunnel" (tcp_proxy.go:78-90 of that time) ----------
   Two copiers.  A copier moves one chunk per step (Read then Write); when its source
   reports EOF it finishes and ServeTCP returns, closing both connections: nothing
   moves afterwards.  A schedule is the order in which the copiers get to run.
   [t_*_eof]: the source ends with EOF (closed / half-closed peer) rather than
   staying silent. *)
Record tstate := {
  t_c_todo : list str;  t_c_eof : bool;  t_c_done : str;
  t_u_todo : list str;  t_u_eof : bool;  t_u_done : str;
  t_ended : option dir
}.

Definition tstep_unrepaired (d : dir) (s : tstate) : tstate :=
  match t_ended s with
  | Some _ => s
  | None =>
    match d with
    | C2U =>
        match t_c_todo s with
        | ch :: rest =>
            {| t_c_todo := rest; t_c_eof := t_c_eof s; t_c_done := t_c_done s ++ ch;
               t_u_todo := t_u_todo s; t_u_eof := t_u_eof s; t_u_done := t_u_done s; t_ended := None |}
        | [] => if t_c_eof s then
            {| t_c_todo := []; t_c_eof := true; t_c_done := t_c_done s;
               t_u_todo := t_u_todo s; t_u_eof := t_u_eof s; t_u_done := t_u_done s; t_ended := Some C2U |}
            else s
        end
    | U2C =>
        match t_u_todo s with
        | ch :: rest =>
            {| t_c_todo := t_c_todo s; t_c_eof := t_c_eof s; t_c_done := t_c_done s;
               t_u_todo := rest; t_u_eof := t_u_eof s; t_u_done := t_u_done s ++ ch; t_ended := None |}
        | [] => if t_u_eof s then
            {| t_c_todo := t_c_todo s; t_c_eof := t_c_eof s; t_c_done := t_c_done s;
               t_u_todo := []; t_u_eof := true; t_u_done := t_u_done s; t_ended := Some U2C |}
            else s
        end
    end
  end.

Definition trun_unrepaired (sched : list dir) (s : tstate) : tstate := fold_left (fun s d => tstep_unrepaired d s) sched s.

Definition tinit_unrepaired (c : list str) (ceof : bool) (u : list str) (ueof : bool) : tstate :=
  {| t_c_todo := c; t_c_eof := ceof; t_c_done := []; t_u_todo := u; t_u_eof := ueof; t_u_done := []; t_ended := None |}.

(* proxy/tcp/server.go: the tcp handlers get the server's timeout wrapper around the accepted
   connection.  Since fix commit ad209fd the wrapper has a CloseWrite which delegates: it can be
   closed for writing iff the accepted connection can (net.TCPConn and tls.Conn can; the Conn
   of github.com/armon/go-proxyproto - listeners with pxyproto=true - cannot).  Before, it never
   could, whatever it wrapped. *)
Definition wrapper_cw (inner_cw : bool) : bool := inner_cw.
Definition wrapper_cw_unrepaired (inner_cw : bool) : bool := false.

(* ---------- the scripted scenarios of the correspondence run ----------
   client: sends its segments, optionally waits until it has received the whole
   reply, then stays / half-closes / closes.
   upstream: sends its reply when triggered (at connect, after n bytes, at EOF),
   then stays or closes. *)
Inductive cend := CStay | CHalf | CClose.
Inductive utrig := UAtConnect | UAfterBytes (n : N) | UOnEOF.
(* the upstream, after its output: keeps reading and closes when it has seen EOF / closes at
   once / half-closes (CloseWrite) and keeps reading until EOF, then closes *)
Inductive uend := UStay | UClose | UHalf.

(* what must arrive given the forced order of events: each direction delivers a prefix of its
   full stream whose length lies in [lo, hi]; [e_ends]: the tunnel returns on its own
   (Some true), keeps running until the harness stops it (Some false), or either (None: the
   kernel decides) *)
Record expectation := {
  e_conn : bool;
  e_up : str; e_up_lo : N;              (* hi = whole stream *)
  e_cl : str; e_cl_lo : N; e_cl_hi : N;
  e_ends : option bool;
  e_cl_eof : option bool   (* the client sees EOF (its connection's write side is closed by the proxy) *)
}.

Definition nlen' (s : str) : N := N.of_nat (length s).

Definition is_stay (ce : cend) : bool := match ce with CStay => true | _ => false end.

(* the tunnel phase (tunnel.go): [up] = what the upstream gets if the client direction
   completes, [reply] = the upstream's output, [cw_in] = the client connection supports
   CloseWrite.
   - the client's EOF is passed on (CloseWrite on the upstream connection): the upstream sees it,
     sends what it sends at EOF, closes; that EOF ends the other direction and the tunnel;
   - [cut_a]: the upstream CLOSES while client bytes may still be on their way: a write to it
     fails (or its reset is read) and ends the tunnel at once, either direction may be cut;
   - [cut_b]: the upstream HALF-closes while client bytes may still be on their way and the
     client connection cannot be closed for writing only: the direction reports io.EOF, the
     tunnel ends at once, the rest of the client's bytes is not copied (the reply is). *)
Definition tunnel_expect (up reply : str) (cw_in cerr cwait : bool) (ce : cend) (ut : utrig) (ue : uend) : expectation :=
  let U := nlen' up in
  let R := nlen' reply in
  let early := match ut with UAtConnect => true | UAfterBytes n => n <=? U | UOnEOF => false end in
  let seen := match ut with UAtConnect => 0 | UAfterBytes n => N.min n U | UOnEOF => U end in
  let all_before := seen =? U in
  let cut_a := match ue with UClose => early && negb all_before | _ => false end in
  let cut_b := match ue with UHalf => early && negb all_before && negb cw_in | _ => false end in
  (* the client's wait for the whole reply can be satisfied *)
  let wait_ok := negb cwait || early || (R =? 0) in
  (* the upstream's output is sent at all *)
  let sent := match ut with UOnEOF => negb (is_stay ce) && wait_ok | _ => early end in
  let ulo := if cut_a || cut_b then seen else U in
  let clb :=
    if cut_a then (0, R)
    else if negb sent then (0, 0)
    else match ce with
         | CClose => if cwait then (R, R)
                     else match ut with UOnEOF => (0, 0) | _ => (0, R) end   (* a closed client drops what comes after its EOF *)
         | _ => (R, R)
         end in
  let ends :=
    if cut_a then (if cw_in && is_stay ce then None else Some true)
    else Some ((negb (is_stay ce) && wait_ok)
               || (early && negb cw_in && match ue with UStay => false | _ => true end)) in
  (* the upstream's direction reaches EOF (it closes or half-closes after its output, or closes
     when the client's end has reached it) and the client connection can be closed for writing;
     [cerr]: the client's connection failed instead of ending - the tunnel ends at once *)
  let cl_eof := if cut_a || cerr then None
                else Some (cw_in && ((early && match ue with UStay => false | _ => true end)
                                     || (negb (is_stay ce) && wait_ok))) in
  {| e_conn := true; e_up := up; e_up_lo := ulo; e_cl := reply; e_cl_lo := fst clb; e_cl_hi := snd clb; e_ends := ends; e_cl_eof := cl_eof |}.

Definition no_tunnel : expectation :=
  {| e_conn := false; e_up := []; e_up_lo := 0; e_cl := []; e_cl_lo := 0; e_cl_hi := 0; e_ends := Some true; e_cl_eof := Some false |}.

Definition scenario_expect (k : kind) (pp : bool) (line : str) (segs : list str) (fin : N)
    (cw_in cwait : bool) (ce : cend) (ut : utrig) (reply : str) (rseg1 whead : N) (ue : uend) : outcome expectation :=
  match k with
  | KWs =>
      (* the upstream answers the upgrade request at once; unless it also sends its
         payload at once, only the head goes out first *)
      let out0 := match ut with UAtConnect => reply | _ => firstn (N.to_nat whead) reply end in
      (* the upstream pauses after the first rseg1 bytes of that output *)
      let useg := if (0 <? rseg1) && (rseg1 <? nlen' out0)
                  then [firstn (N.to_nat rseg1) out0; skipn (N.to_nat rseg1) out0] else [out0] in
      do r <- ws_read_first useg;
      match r with
      | None =>        (* error reading handshake: nothing reaches either side *)
          Ok {| e_conn := true; e_up := []; e_up_lo := 0; e_cl := []; e_cl_lo := 0; e_cl_hi := 0; e_ends := Some true; e_cl_eof := Some false |}
      | Some (chunk, _) =>
        if has_prefix chunk ws_101 then
          do c <- copy_buffer segs;
          (* the client sends nothing before it has the whole head: the head always arrives *)
          let e := tunnel_expect c reply cw_in (1 <? fin) cwait ce ut ue in
          Ok {| e_conn := true; e_up := e_up e; e_up_lo := e_up_lo e; e_cl := e_cl e;
                e_cl_lo := N.max whead (e_cl_lo e); e_cl_hi := N.max whead (e_cl_hi e); e_ends := e_ends e; e_cl_eof := e_cl_eof e |}
        else
          Ok {| e_conn := true; e_up := []; e_up_lo := 0; e_cl := chunk; e_cl_lo := nlen' chunk; e_cl_hi := nlen' chunk; e_ends := Some true; e_cl_eof := Some false |}
      end
  | _ =>
      do u <- upstream_stream_f k pp line segs fin;
      match u with
      | None => Ok no_tunnel
      | Some up => Ok (tunnel_expect up reply cw_in (1 <? fin) cwait ce ut ue)
      end
  end.

(* ---------- the specification side (what a transparent tunnel delivers) ---------- *)
Definition spec_upstream (k : kind) (pp : bool) (line : str) (stream : str) : str :=
  match k with
  | KWs => stream
  | _ => (if pp then line else []) ++ stream
  end.

Fixpoint is_prefix (p s : str) : bool :=
  match p, s with
  | [], _ => true
  | x :: p', y :: s' => (x =? y) && is_prefix p' s'
  | _ :: _, [] => false
  end.

Definition tunnelled (k : kind) (stream reply : str) : bool :=
  match k with
  | KSni => match sni_route_name stream with Ok (_, _ :: _) => true | _ => false end
  | KWs => has_prefix reply ws_101
  | _ => true
  end.

(* required deliveries and termination.  [sup] = what a transparent tunnel hands to the upstream.
   [early]: the upstream's output does not depend on the client's end; [all_before]: the upstream
   has everything before it sends / closes; [safe]: an upstream CLOSE cannot cut client bytes
   that are still on their way (then nothing is demanded beyond prefixes: a peer that closes
   while data is in flight resets the connection).  An upstream that only half-closes keeps
   reading: everything must still reach it.
   - the client's stream must arrive completely whenever [safe];
   - the upstream's output must arrive completely whenever [safe], it is sent at all (early, or at
     the client's EOF - the half-close is passed on - provided the client gets that far), and the
     client is still there to receive it (it stays, half-closes, or closes only after waiting);
   - the tunnel must end by itself once both sides are done: the client ended (the scripted
     upstream closes when it has seen EOF). *)
Definition spec_early (U : N) (ut : utrig) : bool :=
  match ut with UAtConnect => true | UAfterBytes n => n <=? U | UOnEOF => false end.
Definition spec_safe (U : N) (ut : utrig) (ue : uend) : bool :=
  let all_before := match ut with UAtConnect => U =? 0 | UAfterBytes n => n =? U | UOnEOF => true end in
  match ue with UClose => all_before || negb (spec_early U ut) | _ => true end.
Definition spec_wait_ok (U R : N) (cwait : bool) (ut : utrig) : bool :=
  negb cwait || spec_early U ut || (R =? 0).
Definition spec_req_up (U : N) (ut : utrig) (ue : uend) : bool := spec_safe U ut ue.
Definition spec_req_cl (U R : N) (cwait : bool) (ce : cend) (ut : utrig) (ue : uend) : bool :=
  spec_safe U ut ue &&
  match ut with UOnEOF => negb (is_stay ce) && spec_wait_ok U R cwait ut | _ => spec_early U ut end &&
  match ce with CClose => cwait | _ => true end.
Definition spec_req_ends (U R : N) (cwait : bool) (ce : cend) (ut : utrig) : bool :=
  negb (is_stay ce) && spec_wait_ok U R cwait ut.

(* the client must see EOF after the upstream's data when its connection can be closed for
   writing and the upstream's output has come to an end: the upstream closed or half-closed after
   it, or both sides are done *)
Definition spec_req_eof (U R : N) (cw_in cerr cwait : bool) (ce : cend) (ut : utrig) (ue : uend) : bool :=
  cw_in && negb cerr && spec_safe U ut ue &&
  ((spec_early U ut && match ue with UStay => false | _ => true end) || spec_req_ends U R cwait ce ut).

Definition spec_core (sup reply : str) (cwait : bool) (ce : cend) (ut : utrig) (ue : uend)
    (o_up o_cl : str) : bool :=
  let U := nlen' sup in
  let R := nlen' reply in
  is_prefix o_up sup && is_prefix o_cl reply
  && (if spec_req_up U ut ue then beq o_up sup else true)
  && (if spec_req_cl U R cwait ce ut ue then beq o_cl reply else true).
(* Whether the tunnel returns by itself and whether the client sees EOF are not part of the
   property's statement: they are compared with the model in the correspondence ([e_ends],
   [e_cl_eof]; a deviation is a correspondence break, not a property failure).  [spec_req_ends]
   and [spec_req_eof] say when the model itself guarantees them (Proofs: expect_ends, expect_eof). *)

Definition spec_b (k : kind) (pp : bool) (line stream : str) (cwait : bool) (ce : cend) (ut : utrig)
    (reply : str) (ue : uend) (o_up o_cl : str) : bool :=
  if negb (tunnelled k stream reply) then true
  else spec_core (spec_upstream k pp line stream) reply cwait ce ut ue o_up o_cl.

(* an observation lies within an expectation: a prefix of the full stream with a length in [lo, hi] *)
Definition within (obs full : str) (lo hi : N) : bool :=
  is_prefix obs full && (lo <=? nlen' obs) && (nlen' obs <=? hi).

(* ---------- the finding regions ---------- *)
(* F-C09-1 (bytes stuck in the bufio.Reader) was repaired by c17abb6: no region *)
(* F-C09-2 (a half-closing client lost the reply; first EOF closed both connections) was
   repaired by e0f2d05: no region *)
(* F-C09-7 (open): the upstream half-closes while client bytes are still on their way and the client
   connection cannot be closed for writing only (tunnel.go closeWrite -> io.EOF): the tunnel
   ends at once and the rest of the client's stream is not delivered although the upstream
   still reads.  (proxy/tcp/server.go wraps every accepted connection in a type without
   CloseWrite.) *)
Definition region_upstream_half_close (up : str) (cw_in : bool) (ut : utrig) (ue : uend) : bool :=
  match ue with
  | UHalf => negb cw_in && match ut with
                           | UAtConnect => negb (nlen' up =? 0)
                           | UAfterBytes n => n <? nlen' up
                           | UOnEOF => false
                           end
  | _ => false
  end.
(* F-C09-3 (a 101 reply split inside its first 12 bytes) was repaired by 9c9f13b: no region *)
(* F-C09-4 (tcp-dynamic ignored pxyproto=true) was repaired by 341d532: no region *)
