(** Executable model of fabio's raw tunnels (property C09):
    proxy/tcp/copy_buffer.go, proxy_proto.go, tcp_proxy.go, tcp_dynamic_proxy.go,
    sni_proxy.go and the websocket relay proxy/ws_handler.go.  No proofs here.

    The client is a scripted connection: a list of segments (one Read returns at
    most one segment), then it stays open, half-closes or closes.  Payload bytes
    are never inspected by the code, so streams are lists of [N]: literal bytes are
    < 256 and the harness ships big payloads as positions ([symseq]). *)
From Coq Require Import String List NArith Bool Arith PeanoNat.
From Fabio Require Import Lib.Outcome Lib.Bytes Model.ClientHello Model.BufioR.
Import ListNotations.
Local Open Scope N_scope.
Local Open Scope outcome_scope.

Fixpoint symseq_from (n : nat) (v : N) : str :=
  match n with O => [] | S k => v :: symseq_from k (N.succ v) end.
Definition symseq (off len : N) : str := symseq_from (N.to_nat len) (256 + off).

(* cut a stream into segments of the given lengths (whatever is left becomes a last segment) *)
Fixpoint split_segs (stream : str) (lens : list N) : list str :=
  match lens with
  | [] => match stream with [] => [] | _ => [stream] end
  | n :: rest => firstn (N.to_nat n) stream :: split_segs (skipn (N.to_nat n) stream) rest
  end.

(* ---------- copy_buffer.go: read up to 32 KiB, write what was read, stop at EOF ---------- *)
Definition copy_buf_size : nat := N.to_nat 32768.

(* [m] = len(buf).  Writes to a live destination are complete (nw = nr, ew = nil);
   a failing write ends the loop with an error and is part of the race model below. *)
Fixpoint copy_loop (fuel : nat) (m : nat) (src : list str) : option str :=
  match fuel with
  | O => None
  | S f =>
      let '(d, src', eof) := src_read m src in
      if eof then Some []                        (* nr = 0, er = io.EOF: break, err = nil *)
      else match copy_loop f m src' with         (* dst.Write(buf[0:nr]), next round *)
           | Some r => Some (d ++ r)
           | None => None
           end
  end.

Definition src_measure (src : list str) : nat := length (concat src) + length src.

(* The read step in general: a Read may return bytes TOGETHER with an error (io.Reader allows
   n > 0 with err != nil; crypto/tls connections do it when the last record and close_notify
   arrive together).  [fin] = 0: the source reports io.EOF in a Read of its own; [fin] = k > 0:
   the Read that returns the source's last bytes also returns error k (1 = io.EOF, other = a
   non-EOF error), and so does every later Read.  Status 0 = nil. *)
Definition all_empty (src : list str) : bool :=
  forallb (fun s => match s with [] => true | _ => false end) src.
Definition src_read_st (fin : N) (m : nat) (src : list str) : str * list str * N :=
  let '(d, s', eof) := src_read m src in
  if eof then ([], s', if fin =? 0 then 1 else fin)
  else if negb (fin =? 0) && all_empty s' then (d, s', fin)
  else (d, s', 0).

(* copy_buffer.go:14-37 in this generality: the chunk is written FIRST (nr > 0), THEN the
   status is acted upon (er != nil: break) - bytes that arrive together with an error are
   delivered *)
Fixpoint copy_loop_st (fuel : nat) (m : nat) (fin : N) (src : list str) : option str :=
  match fuel with
  | O => None
  | S f =>
      let '(d, src', st) := src_read_st fin m src in
      if negb (st =? 0) then Some d
      else match copy_loop_st f m fin src' with
           | Some r => Some (d ++ r)
           | None => None
           end
  end.

Definition copy_buffer_st (fin : N) (src : list str) : outcome str :=
  match copy_loop_st (S (src_measure src)) copy_buf_size fin src with
  | Some s => Ok s
  | None => Err 77
  end.

(* what the destination has received when the source is exhausted; [Err 77] = fuel
   (excluded by Proofs.Tunnel.copy_preserves_stream) *)
Definition copy_buffer (src : list str) : outcome str :=
  match copy_loop (S (src_measure src)) copy_buf_size src with
  | Some s => Ok s
  | None => Err 77
  end.

(* ---------- proxy_proto.go: PROXY protocol v1 line ---------- *)
(* the address strings are what net.SplitHostPort returns for in.RemoteAddr() /
   in.LocalAddr(); [is4] = net.ParseIP(clientAddr).To4() != nil (computed by the net
   package in the harness) *)
Definition proxy_line (is4 : bool) (caddr saddr cport sport : str) : str :=
  bs "PROXY "%string ++ (if is4 then bs "TCP4"%string else bs "TCP6"%string) ++ [32] ++ caddr ++ [32] ++ saddr
     ++ [32] ++ cport ++ [32] ++ sport ++ [13; 10].

Inductive kind := KTcp | KSni | KDyn | KWs.

(* ---------- the part of ServeTCP before the copy loops ---------- *)

(* sni_proxy.go:45-130: the handshake through the bufio.Reader.  Result: what has been
   written to the upstream connection (PROXY header, then out.Write(data)) and the reader
   as it stands afterwards.  [None]: no upstream connection is made (handshake rejected). *)
(* len(b.buf) of bufio.NewReader: 4096 *)
Definition sni_buf_size : nat := N.to_nat 4096.

Definition sni_handshake (line : str) (segs : list str) : outcome (option (str * breader)) :=
  let b0 := new_reader sni_buf_size segs in                          (* bufio.NewReader(in) *)
  do '(hdr, e1, b1) <- peek b0 9;                            (* tlsReader.Peek(9) *)
  if negb (e1 =? 0) then Ok None else
  match client_hello_buffer_size hdr with
  | Panic => Panic
  | Err _ => Ok None
  | Ok size =>
    do '(data, e2, b2) <- read_full b1 (N.to_nat size);      (* io.ReadFull(tlsReader, data) *)
    if negb (e2 =? 0) then Ok None else
    match read_server_name (skipn 5 data) with               (* readServerName(data[5:]) *)
    | Panic => Panic
    | Err _ => Ok None
    | Ok [] => Ok None                                       (* server_name missing *)
    | Ok _ => Ok (Some (line ++ data, b2))
    end
  end.

(* copyBuffer(out, tlsReader) (sni_proxy.go since c17abb6): the same loop, reading through
   the bufio.Reader: buffered bytes first, then (buffer empty, 32 KiB >= 4096) straight from
   the connection.  What was read is written; any error, io.EOF included, ends the loop. *)
Fixpoint copy_reader_loop (fuel : nat) (m : nat) (b : breader) : option str :=
  match fuel with
  | O => None
  | S f =>
      let '(d, e, b1) := bread b m in
      if negb (e =? 0) then Some d
      else match copy_reader_loop f m b1 with
           | Some r => Some (d ++ r)
           | None => None
           end
  end.

Definition reader_measure (b : breader) : nat := length (b_buf b) + src_measure (b_src b).

Definition copy_from_reader (b : breader) : outcome str :=
  match copy_reader_loop (S (reader_measure b)) copy_buf_size b with
  | Some s => Ok s
  | None => Err 77
  end.

(* what has been written to the upstream before the copy, and the client connection *)
Record setup := { s_pre : str; s_src : list str }.

Definition tunnel_setup (k : kind) (pp : bool) (line : str) (segs : list str) : setup :=
  match k with
  | KTcp => {| s_pre := if pp then line else []; s_src := segs |}
  | KDyn => {| s_pre := if pp then line else []; s_src := segs |}   (* since fix commit 341d532 *)
  | _ => {| s_pre := []; s_src := segs |}
  end.

(* everything the upstream receives if the client->upstream direction runs to the
   client's EOF *)
Definition upstream_stream (k : kind) (pp : bool) (line : str) (segs : list str) : outcome (option str) :=
  match k with
  | KSni =>
      do h <- sni_handshake (if pp then line else []) segs;
      match h with
      | None => Ok None
      | Some (pre, b) => do c <- copy_from_reader b; Ok (Some (pre ++ c))
      end
  | _ =>
      let st := tunnel_setup k pp line segs in
      do c <- copy_buffer (s_src st); Ok (Some (s_pre st ++ c))
  end.

(* the same with the client's final Read carrying its bytes together with error [fin].
   tcp / tcp-dynamic: the raw copy loop in its general form.  tcp+sni: the flag does not enter
   the bufio.Reader model (partial: bufio keeps such bytes and defers the error, the direct
   read passes both on; only the correspondence run ties that to the real bufio) - the model
   predicts the same stream. *)
Definition upstream_stream_f (k : kind) (pp : bool) (line : str) (segs : list str) (fin : N) : outcome (option str) :=
  match k with
  | KSni => upstream_stream k pp line segs
  | _ =>
      let st := tunnel_setup k pp line segs in
      do c <- copy_buffer_st fin (s_src st); Ok (Some (s_pre st ++ c))
  end.

(* ---------- the unrepaired tcp-dynamic proxy (before fix commit 341d532) ----------
   kept only for the refutation theorem C09_dynamic_ignores_proxyproto_refuted:
   DynamicProxy.ServeTCP never called WriteProxyHeader, whatever the target's pxyproto option *)
Definition upstream_stream_dyn_unrepaired (segs : list str) : outcome (option str) :=
  do c <- copy_buffer segs; Ok (Some c).

(* ---------- the unrepaired tcp+sni copier (before fix commit c17abb6) ----------
   kept only for the refutation theorem C09_sni_leftover_refuted: the copy read the raw
   connection [in], not the bufio.Reader, so whatever the reader still held was never
   forwarded. *)
Definition upstream_stream_sni_unrepaired (pp : bool) (line : str) (segs : list str) : outcome (option str) :=
  do h <- sni_handshake (if pp then line else []) segs;
  match h with
  | None => Ok None
  | Some (pre, b) => do c <- copy_buffer (b_src b); Ok (Some (pre ++ c))
  end.
(* the bytes that were stuck in the reader *)
Definition sni_leftover_unrepaired (line : str) (segs : list str) : str :=
  match sni_handshake line segs with Ok (Some (_, b)) => b_buf b | _ => [] end.

(* ---------- ws_handler.go: the handshake reply ----------
   since fix commit 9c9f13b: io.ReadAtLeast(out, b, 12) with len b = 1024: Reads of the
   upstream connection are accumulated until at least the 12 bytes of "HTTP/1.1 101" are
   there (one Read returns at most one segment of the upstream's output, cut to the room left
   in b).  b[:n] is written to the client and tested for the prefix; the relay starts only if
   it matches.  If the upstream ends (or stays silent beyond the 1 s deadline) before 12 bytes
   have arrived, ReadAtLeast fails: "error reading handshake", nothing is forwarded to the
   client (http.Error on a hijacked connection writes nothing) and the connection is closed.
   Result: Ok (Some (chunk, rest of the upstream's segments)) / Ok None = read error /
   Err 77 = fuel (excluded by Proofs.Tunnel.ws_read_first_never_out_of_fuel). *)
Definition ws_101 : str := bs "HTTP/1.1 101"%string.
Fixpoint ws_read_loop (fuel : nat) (acc : str) (src : list str) : outcome (option (str * list str)) :=
  if (12 <=? length acc)%nat then Ok (Some (acc, src)) else
  match fuel with
  | O => Err 77
  | S f =>
      let '(d, s', eof) := src_read (1024 - length acc)%nat src in
      if eof then Ok None else ws_read_loop f (acc ++ d) s'
  end.
Definition ws_read_first (useg : list str) : outcome (option (str * list str)) := ws_read_loop 12%nat [] useg.

(* the unrepaired handshake step (before 9c9f13b), kept only for C09_ws_split_101_refuted:
   a single out.Read(b); [useg1] = the upstream's first segment *)
Definition ws_first_chunk_unrepaired (useg1 : str) : str := firstn 1024 useg1.
Definition ws_upgraded_unrepaired (useg1 : str) : bool := has_prefix (ws_first_chunk_unrepaired useg1) ws_101.

(* ---------- "the first finished direction ends the tunnel" (tcp_proxy.go:78-90) ----------
   Two copiers.  A copier moves one chunk per step (Read then Write); when its source
   reports EOF it finishes and ServeTCP returns, closing both connections: nothing
   moves afterwards.  A schedule is the order in which the copiers get to run.
   [t_*_eof]: the source ends with EOF (closed / half-closed peer) rather than
   staying silent. *)
Inductive dir := C2U | U2C.
Record tstate := {
  t_c_todo : list str;  t_c_eof : bool;  t_c_done : str;
  t_u_todo : list str;  t_u_eof : bool;  t_u_done : str;
  t_ended : option dir
}.

Definition tstep (d : dir) (s : tstate) : tstate :=
  match t_ended s with
  | Some _ => s
  | None =>
    match d with
    | C2U =>
        match t_c_todo s with
        | ch :: rest =>
            {| t_c_todo := rest; t_c_eof := t_c_eof s; t_c_done := t_c_done s ++ ch;
               t_u_todo := t_u_todo s; t_u_eof := t_u_eof s; t_u_done := t_u_done s; t_ended := None |}
        | [] => if t_c_eof s then
            {| t_c_todo := []; t_c_eof := true; t_c_done := t_c_done s;
               t_u_todo := t_u_todo s; t_u_eof := t_u_eof s; t_u_done := t_u_done s; t_ended := Some C2U |}
            else s
        end
    | U2C =>
        match t_u_todo s with
        | ch :: rest =>
            {| t_c_todo := t_c_todo s; t_c_eof := t_c_eof s; t_c_done := t_c_done s;
               t_u_todo := rest; t_u_eof := t_u_eof s; t_u_done := t_u_done s ++ ch; t_ended := None |}
        | [] => if t_u_eof s then
            {| t_c_todo := t_c_todo s; t_c_eof := t_c_eof s; t_c_done := t_c_done s;
               t_u_todo := []; t_u_eof := true; t_u_done := t_u_done s; t_ended := Some U2C |}
            else s
        end
    end
  end.

Definition trun (sched : list dir) (s : tstate) : tstate := fold_left (fun s d => tstep d s) sched s.

Definition tinit (c : list str) (ceof : bool) (u : list str) (ueof : bool) : tstate :=
  {| t_c_todo := c; t_c_eof := ceof; t_c_done := []; t_u_todo := u; t_u_eof := ueof; t_u_done := []; t_ended := None |}.

(* ---------- the scripted scenarios of the correspondence run ----------
   client: sends its segments, optionally waits until it has received the whole
   reply, then stays / half-closes / closes.
   upstream: sends its reply when triggered (at connect, after n bytes, at EOF),
   then stays or closes. *)
Inductive cend := CStay | CHalf | CClose.
Inductive utrig := UAtConnect | UAfterBytes (n : N) | UOnEOF.
Inductive uend := UStay | UClose.

(* what must arrive given the forced order of events: each direction delivers a
   prefix of its full stream whose length lies in [lo, hi] *)
Record expectation := {
  e_conn : bool;
  e_up : str; e_up_lo : N;              (* hi = whole stream *)
  e_cl : str; e_cl_lo : N; e_cl_hi : N
}.

Definition nlen' (s : str) : N := N.of_nat (length s).

(* the tunnel phase: [up] = what the upstream gets if the client direction completes,
   [reply] = the upstream's output *)
Definition tunnel_expect (up reply : str) (cwait : bool) (ce : cend) (ut : utrig) (ue : uend) : expectation :=
  let U := nlen' up in
  let R := nlen' reply in
  let early := match ut with UAtConnect => true | UAfterBytes n => n <=? U | UOnEOF => false end in
  let seen := match ut with UAtConnect => 0 | UAfterBytes n => N.min n U | UOnEOF => U end in
  let all_before := seen =? U in
  (* the upstream closes while client bytes may still be on their way: the write to the
     closed upstream fails and ends the tunnel, either direction may be cut *)
  let cut := match ue with UClose => early && negb all_before | UStay => false end in
  let mk ulo clo chi := {| e_conn := true; e_up := up; e_up_lo := ulo; e_cl := reply; e_cl_lo := clo; e_cl_hi := chi |} in
  if cut then mk seen 0 R
  else match ce with
  | CStay => if early then mk U R R else mk U 0 0
  | _ =>
      if cwait then (if early then mk U R R else mk U 0 0)
      else
        (* the client's EOF ends the tunnel: the reply is relayed only as far as the
           race lets it; a reply sent at EOF is never relayed
           (and when reply bytes are still unread at that moment the kernel resets the
           upstream connection: client bytes still queued may be discarded as well) *)
        if early then mk 0 0 R else mk U 0 0
  end.

Definition no_tunnel : expectation :=
  {| e_conn := false; e_up := []; e_up_lo := 0; e_cl := []; e_cl_lo := 0; e_cl_hi := 0 |}.

Definition scenario_expect (k : kind) (pp : bool) (line : str) (segs : list str) (fin : N)
    (cwait : bool) (ce : cend) (ut : utrig) (reply : str) (rseg1 whead : N) (ue : uend) : outcome expectation :=
  match k with
  | KWs =>
      (* the upstream answers the upgrade request at once; unless it also sends its
         payload at once, only the head goes out first *)
      let out0 := match ut with UAtConnect => reply | _ => firstn (N.to_nat whead) reply end in
      (* the upstream pauses after the first rseg1 bytes of that output *)
      let useg := if (0 <? rseg1) && (rseg1 <? nlen' out0)
                  then [firstn (N.to_nat rseg1) out0; skipn (N.to_nat rseg1) out0] else [out0] in
      do r <- ws_read_first useg;
      match r with
      | None =>        (* error reading handshake: nothing reaches either side *)
          Ok {| e_conn := true; e_up := []; e_up_lo := 0; e_cl := []; e_cl_lo := 0; e_cl_hi := 0 |}
      | Some (chunk, _) =>
        if has_prefix chunk ws_101 then
          do c <- copy_buffer segs;
          (* the client sends nothing before it has the whole head: the head always arrives *)
          let e := tunnel_expect c reply cwait ce ut ue in
          Ok {| e_conn := true; e_up := e_up e; e_up_lo := e_up_lo e; e_cl := e_cl e;
                e_cl_lo := N.max whead (e_cl_lo e); e_cl_hi := N.max whead (e_cl_hi e) |}
        else
          Ok {| e_conn := true; e_up := []; e_up_lo := 0; e_cl := chunk; e_cl_lo := nlen' chunk; e_cl_hi := nlen' chunk |}
      end
  | _ =>
      do u <- upstream_stream_f k pp line segs fin;
      match u with
      | None => Ok no_tunnel
      | Some up => Ok (tunnel_expect up reply cwait ce ut ue)
      end
  end.

(* ---------- the specification side (what a transparent tunnel delivers) ---------- *)
Definition spec_upstream (k : kind) (pp : bool) (line : str) (stream : str) : str :=
  match k with
  | KWs => stream
  | _ => (if pp then line else []) ++ stream
  end.

Fixpoint is_prefix (p s : str) : bool :=
  match p, s with
  | [], _ => true
  | x :: p', y :: s' => (x =? y) && is_prefix p' s'
  | _ :: _, [] => false
  end.

Definition tunnelled (k : kind) (stream reply : str) : bool :=
  match k with
  | KSni => match sni_route_name stream with Ok (_, _ :: _) => true | _ => false end
  | KWs => has_prefix reply ws_101
  | _ => true
  end.

(* required deliveries.  [sup] = what a transparent tunnel hands to the upstream.
   [early]: the upstream's output does not depend on the client's end; [all_before]: the upstream
   has everything before it sends / closes; [safe]: an upstream close cannot cut client bytes
   that are still on their way (then nothing is demanded beyond prefixes: a peer that closes
   while data is in flight resets the connection).
   - the client's stream must arrive completely whenever [safe];
   - the reply must arrive completely whenever [safe] and: the client stays and the upstream
     sends; or the client half-closes (it keeps reading) and the upstream sends early or at the
     EOF which the half-close is (a client that first waits for a reply which is only sent at
     its EOF never half-closes: nothing demanded); or the client closes after waiting for it. *)
Definition spec_early (U : N) (ut : utrig) : bool :=
  match ut with UAtConnect => true | UAfterBytes n => n <=? U | UOnEOF => false end.
Definition spec_safe (U : N) (ut : utrig) (ue : uend) : bool :=
  let all_before := match ut with UAtConnect => U =? 0 | UAfterBytes n => n =? U | UOnEOF => true end in
  match ue with UStay => true | UClose => all_before || negb (spec_early U ut) end.
Definition spec_req_up (U : N) (ut : utrig) (ue : uend) : bool := spec_safe U ut ue.
Definition spec_req_cl (U : N) (cwait : bool) (ce : cend) (ut : utrig) (ue : uend) : bool :=
  spec_safe U ut ue &&
  match ce with
  | CStay => spec_early U ut
  | CHalf => spec_early U ut || match ut with UOnEOF => negb cwait | _ => false end
  | CClose => cwait && spec_early U ut
  end.

Definition spec_core (sup reply : str) (cwait : bool) (ce : cend) (ut : utrig) (ue : uend) (o_up o_cl : str) : bool :=
  let U := nlen' sup in
  is_prefix o_up sup && is_prefix o_cl reply
  && (if spec_req_up U ut ue then beq o_up sup else true)
  && (if spec_req_cl U cwait ce ut ue then beq o_cl reply else true).

Definition spec_b (k : kind) (pp : bool) (line stream : str) (cwait : bool) (ce : cend) (ut : utrig)
    (reply : str) (ue : uend) (o_up o_cl : str) : bool :=
  if negb (tunnelled k stream reply) then true
  else spec_core (spec_upstream k pp line stream) reply cwait ce ut ue o_up o_cl.

(* an observation lies within an expectation: a prefix of the full stream with a length in [lo, hi] *)
Definition within (obs full : str) (lo hi : N) : bool :=
  is_prefix obs full && (lo <=? nlen' obs) && (nlen' obs <=? hi).

(* the one scenario family in which the kernel decides whether the FINISHER's own bytes survive:
   the client closes without waiting while reply bytes may still be unread in the proxy's
   upstream socket; the close then resets that connection (see F-C09-2 for the half-closing
   variant, which is a finding region).  Not generated by the correspondence run. *)
Definition race_close_unread_reply (up : str) (cwait : bool) (ce : cend) (ut : utrig) : bool :=
  match ce with
  | CClose => negb cwait && match ut with UAtConnect => true | UAfterBytes n => n <=? nlen' up | UOnEOF => false end
  | _ => false
  end.

(* ---------- the finding regions ---------- *)
(* F-C09-1 (bytes stuck in the bufio.Reader) was repaired by c17abb6: no region *)
(* F-C09-2: the client half-closes without first waiting for the reply *)
Definition region_half_close (cwait : bool) (ce : cend) : bool :=
  match ce with CHalf => negb cwait | _ => false end.
(* F-C09-3 (a 101 reply split inside its first 12 bytes) was repaired by 9c9f13b: no region *)
(* F-C09-4 (tcp-dynamic ignored pxyproto=true) was repaired by 341d532: no region *)
