(** Model of the way main.go wires a listener of kind `https+tcp+sni` to the pickers
    (main.go: lookupHostMatcher, lookupHostFn, newHTTPProxy; proxy/serve.go:
    ListenAndServeHTTPSTCPSNI; proxy/tcp/sni_proxy.go: ServeTCP), under
    `proxy.strategy = rr`.

    A TLS connection arrives with a server name.  tcpproxy first asks the MATCHER
    (lookupHostMatcher) whether the name belongs to a tcp route: the matcher calls
    [Table.LookupHost(host, pick)] and looks at the proto of the target it gets.  If it
    says yes, tcp.SNIProxy.ServeTCP calls [p.Lookup(host)] = [Table.LookupHost(host,
    configured picker)] and forwards the connection to that target; if it says no, the
    connection falls through to the https server, whose handler calls
    [HTTPProxy.Lookup(req)] = [Table.Lookup(req, ..., configured picker, ...)].  Either
    way the connection is routed by ONE lookup with the configured picker on the route of
    the server name -- after the matcher's lookup on the same route.

    Since commit 971ce92 the matcher's [pick] is [func(r) { return r.Targets[0] }]
    ([MPFirst]: no state); before, it was the configured picker ([MPConfigured]: with rr
    every connection moved the round-robin cursor of its route twice).  The old variant
    is kept for the refutation.

    The table is a list of routes (one per server name), each with its ring and its
    cursor; a schedule is the list of route indices of the successive connections (an
    index outside the table = a server name without route: the matcher says no, the http
    proxy answers 404, nothing moves).  No proofs in this file. *)
From Coq Require Import List ZArith NArith Bool.
From Fabio Require Import Lib.Outcome Model.Ring Model.Pick.
Import ListNotations.
Local Open Scope outcome_scope.

(** a route as the lookups see it: number of targets, the ring [r.wTargets], the cursor [r.total] *)
Record lroute := { lr_n : nat; lr_ring : ring; lr_total : N }.
Definition lr_set_total (rt : lroute) (total : N) : lroute :=
  {| lr_n := lr_n rt; lr_ring := lr_ring rt; lr_total := total |}.

(** [k] consecutive [Table.lookup]s with the round-robin picker on one route *)
Fixpoint lookups_run (k : nat) (n : nat) (r : ring) (total : N) : outcome (list (option nat) * N) :=
  match k with
  | O => Ok ([], total)
  | S k' =>
      do '(t, total') <- lookup_rr n r total;
      do '(ts, total'') <- lookups_run k' n r total';
      Ok (t :: ts, total'')
  end.

(** the picker lookupHostMatcher hands to Table.LookupHost *)
Inductive mpicker :=
| MPFirst          (* since 971ce92: func(r *route.Route) *route.Target { return r.Targets[0] } *)
| MPConfigured.    (* before: route.Picker[cfg.Proxy.Strategy], here rrPicker *)

(** the matcher's [route.GetTable().LookupHost(host, pick)]: the target it looks at and the cursor
    it leaves.  [Table.lookup]: no target -> nil; one target -> Targets[0] without the picker;
    otherwise [pick(r)]. *)
Definition matcher_lookup (mp : mpicker) (rt : lroute) : outcome (option nat * N) :=
  match mp with
  | MPFirst => Ok (match lr_n rt with O => None | S _ => Some O end, lr_total rt)
  | MPConfigured => lookup_rr (lr_n rt) (lr_ring rt) (lr_total rt)
  end.

(** one connection whose server name selects route [rt]: the matcher's lookup, then the lookup
    that routes it (SNIProxy.ServeTCP for a tcp route, HTTPProxy.ServeHTTP otherwise: the same
    lookup on the same route).  Result: the target the connection is forwarded to. *)
Definition route_conn (mp : mpicker) (rt : lroute) : outcome (option nat * lroute) :=
  do '(_, t1) <- matcher_lookup mp rt;
  do '(u, t2) <- lookup_rr (lr_n rt) (lr_ring rt) t1;
  Ok (u, lr_set_total rt t2).

Definition ltable := list lroute.

(** one connection for the server name of route [j] *)
Definition listener_conn (mp : mpicker) (tb : ltable) (j : nat) : outcome (option nat * ltable) :=
  match nth_error tb j with
  | None => Ok (None, tb)                        (* no route: LookupHost = nil twice, 404 *)
  | Some rt => do '(u, rt') <- route_conn mp rt; Ok (u, set_nth tb j rt')
  end.

(** the connections of a schedule, one after the other *)
Fixpoint listener_run (mp : mpicker) (sched : list nat) (tb : ltable) : outcome (list (option nat) * ltable) :=
  match sched with
  | [] => Ok ([], tb)
  | j :: rest =>
      do '(u, tb1) <- listener_conn mp tb j;
      do '(us, tb2) <- listener_run mp rest tb1;
      Ok (u :: us, tb2)
  end.

(** the upstreams served to the connections of route [j], in order *)
Fixpoint served (j : nat) (sched : list nat) (us : list (option nat)) : list (option nat) :=
  match sched, us with
  | i :: sched', u :: us' => if Nat.eqb i j then u :: served j sched' us' else served j sched' us'
  | _, _ => []
  end.

(** number of connections of route [j] in a schedule *)
Definition conns_of (j : nat) (sched : list nat) : nat := length (filter (Nat.eqb j) sched).

(** ---------- a listener that takes [c] picks per connection (generalisation) ----------
    [c] consecutive round-robin picks on a route with at least two targets, the LAST of which
    routes the connection: c = 1 is the code since 971ce92, c = 2 the code before. *)
Definition conn_picks (c : nat) (r : ring) (total : N) : outcome (option nat * N) :=
  do '(ts, total') <- rr_run c r total;
  Ok (last ts None, total').

Fixpoint conns_run (c : nat) (k : nat) (r : ring) (total : N) : outcome (list (option nat) * N) :=
  match k with
  | O => Ok ([], total)
  | S k' =>
      do '(u, total') <- conn_picks c r total;
      do '(us, total'') <- conns_run c k' r total';
      Ok (u :: us, total'')
  end.

(** the slot of the ring connection number [i] is routed by, with [c] picks per connection
    from cursor [s] on a ring of [U] slots *)
Definition conn_slot (c s U i : nat) : nat := (s + c * i + (c - 1)) mod U.

(** ---------- proxy.strategy = rnd (control) ----------
    rndPicker has no state: whatever the matcher does, the routing lookup returns
    [r.wTargets[randIntn(len)]] for SOME value of the random source. *)
Definition rnd_conn_can (rt : lroute) (u : option nat) : bool :=
  existsb (fun k => match lookup_rnd (lr_n rt) (lr_ring rt) k with
                    | Ok t => slot_eqb t u
                    | _ => false
                    end)
          (seq 0 (Nat.max 1 (length (lr_ring rt)))).
