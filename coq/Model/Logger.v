(** Model of the access logger (logger/pattern.go, logger/logger.go) and of the
    hand-optimised formatters on the request path (proxy/http_headers.go
    [uint16base16], [i32toa]; uuid/format.go [ToString]), transcribed statement by
    statement.  Fixed-size Go arrays are modelled by the part that has been
    written so far together with the array's capacity: a write at [d[p]] is a
    *checked* push that evaluates to [Panic] where Go's index check would fire.
    [Err 99] / [Err 98] mean "the fuel of a loop ran out" (a Go loop that would not
    terminate); Proofs/Logger.v shows they are unreachable.
    The second half of the file is the specification side: declarative
    predicates (digits that parse back to the number, canonical form) and
    textbook renderings that do not share code with the algorithms above. *)
From Coq Require Import String List NArith ZArith Bool Lia.
From Fabio Require Import Lib.Outcome Lib.Bytes.
Import ListNotations.
Local Open Scope N_scope.
Local Open Scope outcome_scope.

(* ---------- checked accesses ---------- *)
Definition lg_idx (d : str) (i : nat) : outcome N :=
  match nth_error d i with Some b => Ok b | None => Panic end.
(* d[a:] *)
Definition lg_from (d : str) (a : nat) : outcome str :=
  if Nat.leb a (length d) then Ok (skipn a d) else Panic.
(* d[:b] *)
Definition lg_upto (d : str) (b : nat) : outcome str :=
  if Nat.leb b (length d) then Ok (firstn b d) else Panic.
(* b[n] = v *)
Definition lg_set (b : str) (n : nat) (v : N) : outcome str :=
  if Nat.ltb n (length b) then Ok (firstn n b ++ v :: skipn (S n) b) else Panic.

(* A [cap]-byte array filled from its end: [acc] = d[p+1:], p = cap-1-len acc.
   The write d[p] = c needs 0 <= p. *)
Definition buf_push (cap : nat) (c : N) (acc : str) : outcome str :=
  if Nat.ltb (length acc) cap then Ok (c :: acc) else Panic.

(* ---------- int64 ---------- *)
Definition wrap64 (z : Z) : Z := ((z + 2 ^ 63) mod 2 ^ 64 - 2 ^ 63)%Z.
Definition min_int64 : Z := (- 2 ^ 63)%Z.
Definition max_int64 : Z := (2 ^ 63 - 1)%Z.
(* byte('0') + byte(i%10) *)
Definition digit_byte (i : Z) : N := (48 + Z.to_N (Z.rem i 10 mod 256)) mod 256.

(* ---------- atoi (pattern.go:314-345) ---------- *)
(* for i >= 0 { d[p] = '0'+byte(i%10); i /= 10; p--; if i == 0 { break } } *)
Fixpoint atoi_loop (fuel : nat) (i : Z) (acc : str) : outcome str :=
  match fuel with
  | O => Err 99
  | S f =>
      if (i <? 0)%Z then Ok acc else
      do acc' <- buf_push 128 (digit_byte i) acc;
      let i' := Z.quot i 10 in
      if (i' =? 0)%Z then Ok acc' else atoi_loop f i' acc'
  end.

(* for n-p-1 < pad { d[p] = '0'; p-- } *)
Fixpoint pad_loop (fuel : nat) (pad : Z) (acc : str) : outcome str :=
  match fuel with
  | O => Err 99
  | S f =>
      if (Z.of_nat (length acc) <? pad)%Z
      then (do acc' <- buf_push 128 48 acc; pad_loop f pad acc')
      else Ok acc
  end.

(* the bytes atoi appends to the buffer *)
Definition atoi (i : Z) (pad : Z) : outcome str :=
  let flag := (i <? 0)%Z in
  let i1 := if flag then wrap64 (- i) else i in
  do a1 <- atoi_loop 20 i1 [];
  do a2 <- pad_loop 130 pad a1;
  if flag then buf_push 128 45 a2 else Ok a2.

(* ---------- i32toa (http_headers.go:164-181) ---------- *)
Fixpoint i32_loop (fuel : nat) (i : Z) (signed : bool) (acc : str) : outcome str :=
  match fuel with
  | O => Err 99
  | S f =>
      do acc' <- buf_push 11 (digit_byte i) acc;
      let i' := Z.quot i 10 in
      if (i' =? 0)%Z
      then (if signed then buf_push 11 45 acc' else Ok acc')
      else i32_loop f i' signed acc'
  end.
Definition i32toa (n : Z) : outcome str :=
  let signed := (n <? 0)%Z in
  i32_loop 10 (if signed then (- n)%Z else n) signed [].

(* ---------- uint16base16 (http_headers.go:150-160) ---------- *)
Definition digit16 : str := [48;49;50;51;52;53;54;55;56;57;97;98;99;100;101;102].
Definition uint16base16 (n : N) : outcome str :=
  do c5 <- lg_idx digit16 (N.to_nat (N.land n 15));
  do c4 <- lg_idx digit16 (N.to_nat (N.shiftr (N.land n 240) 4));
  do c3 <- lg_idx digit16 (N.to_nat (N.shiftr (N.land n 3840) 8));
  do c2 <- lg_idx digit16 (N.to_nat (N.shiftr (N.land n 61440) 12));
  Ok [48; 120; c2; c3; c4; c5].

(* ---------- uuid.ToString (uuid/format.go:36-62) ---------- *)
Definition halfbyte2hexchar : str := digit16.
Definition uuid_pos : list nat := [0;2;4;6;9;11;14;16;19;21;24;26;28;30;32;34]%nat.
Fixpoint uuid_loop (ps : list nat) (i : nat) (u b : str) : outcome str :=
  match ps with
  | [] => Ok b
  | n :: ps' =>
      do x <- lg_idx u i;
      do hi <- lg_idx halfbyte2hexchar (N.to_nat (N.land (N.shiftr x 4) 15));
      do b1 <- lg_set b n hi;
      do lo <- lg_idx halfbyte2hexchar (N.to_nat (N.land x 15));
      do b2 <- lg_set b1 (n + 1) lo;
      uuid_loop ps' (S i) u b2
  end.
Definition uuid_to_string (u : str) : outcome str :=
  do b <- uuid_loop uuid_pos 0 u (repeat 0 36);
  do b <- lg_set b 8 45;
  do b <- lg_set b 13 45;
  do b <- lg_set b 18 45;
  do b <- lg_set b 23 45;
  Ok b.

(* ---------- hostport (pattern.go:288-305) ---------- *)
(* if len(host) > 1 && host[0] == '[' && host[len(host)-1] == ']' { host = host[1:len(host)-1] }
   (since 0f981ad) *)
Definition strip_brackets (h : str) : outcome str :=
  if Nat.ltb 1 (length h) then
    do a <- lg_idx h 0;
    if negb (a =? 91) then Ok h else
    do b <- lg_idx h (length h - 1);
    if negb (b =? 93) then Ok h else
    do t <- lg_upto h (length h - 1); lg_from t 1
  else Ok h.

Definition hostport (s : str) : outcome (str * str) :=
  match s with
  | [] => Ok ([], [])
  | _ => match last_index_byte s 58 with
         | None => Ok (s, [])                  (* no port (since bb1b4e7) *)
         | Some n => do h <- lg_upto s n; do p <- lg_from s (n + 1);
                     do h' <- strip_brackets h; Ok (h', p)
         end
  end.
(* the helper as it was before bb1b4e7 and 0f981ad: n = -1 went straight into s[:n], and an
   IPv6 literal kept its brackets; kept for the refutation theorems only *)
Definition hostport_unrepaired (s : str) : outcome (str * str) :=
  match s with
  | [] => Ok ([], [])
  | _ => match last_index_byte s 58 with
         | None => Panic                       (* s[:-1] *)
         | Some n => do h <- lg_upto s n; do p <- lg_from s (n + 1); Ok (h, p)
         end
  end.

(* ---------- time.Time as the logger sees it ----------
   An instant is (seconds since the epoch, nanosecond within the second, zone
   offset in seconds east of UTC of the Time value's location).  Year(), Month(),
   ... are those of the proleptic Gregorian calendar at unix + offset; this is
   the days-to-civil computation of the standard library (checked against
   time.Time's own methods on every generated event by the harness). *)
(* year-of-era 0, month, day of a day-of-era in [0, 146097) *)
Definition civil_of_doe (doe : Z) : Z * Z * Z :=
  let yoe := ((doe - doe / 1460 + doe / 36524 - doe / 146096) / 365)%Z in
  let doy := (doe - (365 * yoe + yoe / 4 - yoe / 100))%Z in
  let mp := ((5 * doy + 2) / 153)%Z in
  let d := (doy - (153 * mp + 2) / 5 + 1)%Z in
  let m := (if mp <? 10 then mp + 3 else mp - 9)%Z in
  ((if m <=? 2 then yoe + 1 else yoe)%Z, m, d).
Definition civil_of_days (z0 : Z) : Z * Z * Z :=
  let z := (z0 + 719468)%Z in
  let era := (z / 146097)%Z in
  let '(y, m, d) := civil_of_doe (z mod 146097) in
  ((y + era * 400)%Z, m, d).

Record civil := { c_year : Z; c_month : Z; c_day : Z; c_hour : Z; c_min : Z; c_sec : Z }.
Definition civil_of (secs : Z) : civil :=
  let days := (secs / 86400)%Z in
  let r := (secs mod 86400)%Z in
  let '(y, m, d) := civil_of_days days in
  {| c_year := y; c_month := m; c_day := d;
     c_hour := (r / 3600)%Z; c_min := (r mod 3600 / 60)%Z; c_sec := (r mod 60)%Z |}.

(* ---------- Event (logger.go:55-87) ---------- *)
Record request := {
  rq_remote : str; rq_method : str; rq_uri : str; rq_proto : str; rq_host : str;
  (* Header == nil -> None; otherwise key |-> first value, for keys with a value *)
  rq_header : option (list (str * str)) }.
(* what net/url computed for a *url.URL (passed in as data by the harness) *)
Record urlinfo := { u_scheme : str; u_host : str; u_rawquery : str; u_requri : str; u_string : str }.
Record event := {
  e_dur : Z;                    (* End.Sub(Start).Nanoseconds() *)
  e_unix : Z; e_nsec : Z; e_off : Z;     (* End *)
  e_req : option request;
  e_resp : option (Z * Z);      (* StatusCode, ContentLength *)
  e_requrl : option urlinfo;
  e_upaddr : str; e_upsvc : str;
  e_upurl : option urlinfo }.

Definition e_unixnano (e : event) : Z := wrap64 (e_unix e * 1000000000 + e_nsec e).
(* t := e.End.UTC() (since 1da7601): the civil fields of the instant itself *)
Definition e_civil (e : event) : civil := civil_of (e_unix e).
(* before 1da7601: Year(), Hour() ... of End in its own location; refutation theorem only *)
Definition e_civil_unrepaired (e : event) : civil := civil_of (e_unix e + e_off e).

(* ---------- the field table (pattern.go:41-282) ---------- *)
Inductive fld :=
| FRemoteAddr | FRemoteHost | FRemotePort | FRequest | FRequestArgs | FRequestHost
| FRequestMethod | FRequestScheme | FRequestURI | FRequestURL | FRequestProto
| FRespBodySize | FRespStatus | FRespTimeMs | FRespTimeUs | FRespTimeNs
| FTimeUnixMs | FTimeUnixUs | FTimeUnixNs | FTimeCommon
| FTimeRfc | FTimeRfcMs | FTimeRfcUs | FTimeRfcNs
| FUpAddr | FUpHost | FUpPort | FUpReqScheme | FUpReqURI | FUpReqURL | FUpService.

Definition short_month_names : list str :=
  [[45;45;45]; [74;97;110]; [70;101;98]; [77;97;114]; [65;112;114]; [77;97;121]; [74;117;110];
   [74;117;108]; [65;117;103]; [83;101;112]; [79;99;116]; [78;111;118]; [68;101;99]].
Definition month_name (m : Z) : outcome str :=
  if (m <? 0)%Z then Panic else
  match nth_error short_month_names (Z.to_nat m) with Some s => Ok s | None => Panic end.

(* a, b, c ... appended to the buffer in this order; the first panic wins *)
Fixpoint cat (l : list (outcome str)) : outcome str :=
  match l with
  | [] => Ok []
  | x :: r => do a <- x; do b <- cat r; Ok (a ++ b)
  end.
Definition lit (s : str) : outcome str := Ok s.

Definition with_req (e : event) (f : request -> outcome str) : outcome str :=
  match e_req e with None => Ok [] | Some r => f r end.
Definition with_url (u : option urlinfo) (f : urlinfo -> str) : outcome str :=
  match u with None => Ok [] | Some x => Ok (f x) end.
(* e.Response.X : nil dereference when Response == nil *)
Definition with_resp (e : event) (f : Z * Z -> outcome str) : outcome str :=
  match e_resp e with None => Panic | Some r => f r end.

Definition resp_time (e : event) (unit : Z) (pad : Z) : outcome str :=
  let d := e_dur e in
  let s := Z.quot d 1000000000 in
  let frac := Z.quot (Z.rem d 1000000000) unit in
  cat [atoi s 0; lit [46]; atoi frac pad].

Definition rfc3339_prefix (c : civil) : list (outcome str) :=
  [atoi (c_year c) 4; lit [45]; atoi (c_month c) 2; lit [45]; atoi (c_day c) 2; lit [84];
   atoi (c_hour c) 2; lit [58]; atoi (c_min c) 2; lit [58]; atoi (c_sec c) 2].

(* $request_host (since 5d3ea07): the host of the request URL saved before any rewrite when
   there is one, else Request.Host *)
Definition request_host (e : event) : outcome str :=
  match e_requrl e with
  | Some u => Ok (u_host u)
  | None => with_req e (fun r => Ok (rq_host r))
  end.
(* before 5d3ea07: always Request.Host, i.e. the host a host= route option wrote into the live
   request; refutation theorem only *)
Definition request_host_unrepaired (e : event) : outcome str := with_req e (fun r => Ok (rq_host r)).

Definition render_field_with (hostport : str -> outcome (str * str)) (e_civil : event -> civil)
           (request_host : event -> outcome str) (f : fld) (e : event) : outcome str :=
  match f with
  | FRemoteAddr => with_req e (fun r => Ok (rq_remote r))
  | FRemoteHost => with_req e (fun r => do '(h, _) <- hostport (rq_remote r); Ok h)
  | FRemotePort => with_req e (fun r => do '(_, p) <- hostport (rq_remote r); Ok p)
  | FRequest => with_req e (fun r => Ok (rq_method r ++ [32] ++ rq_uri r ++ [32] ++ rq_proto r))
  | FRequestArgs => with_url (e_requrl e) u_rawquery
  | FRequestHost => request_host e
  | FRequestMethod => with_req e (fun r => Ok (rq_method r))
  | FRequestScheme => with_url (e_requrl e) u_scheme
  | FRequestURI => with_req e (fun r => Ok (rq_uri r))
  | FRequestURL => with_url (e_requrl e) u_string
  | FRequestProto => with_req e (fun r => Ok (rq_proto r))
  | FRespBodySize => with_resp e (fun r => atoi (snd r) 0)
  | FRespStatus => with_resp e (fun r => atoi (fst r) 0)
  | FRespTimeMs => resp_time e 1000000 3
  | FRespTimeUs => resp_time e 1000 6
  | FRespTimeNs => resp_time e 1 9
  | FTimeUnixMs => atoi (Z.quot (e_unixnano e) 1000000) 0
  | FTimeUnixUs => atoi (Z.quot (e_unixnano e) 1000) 0
  | FTimeUnixNs => atoi (e_unixnano e) 0
  | FTimeCommon =>
      let c := e_civil e in
      cat [atoi (c_day c) 2; lit [47]; month_name (c_month c); lit [47]; atoi (c_year c) 4; lit [58];
           atoi (c_hour c) 2; lit [58]; atoi (c_min c) 2; lit [58]; atoi (c_sec c) 2;
           lit [32;43;48;48;48;48]]
  | FTimeRfc => cat (rfc3339_prefix (e_civil e) ++ [lit [90]])
  | FTimeRfcMs => cat (rfc3339_prefix (e_civil e) ++ [lit [46]; atoi (Z.quot (e_nsec e) 1000000) 3; lit [90]])
  | FTimeRfcUs => cat (rfc3339_prefix (e_civil e) ++ [lit [46]; atoi (Z.quot (e_nsec e) 1000) 6; lit [90]])
  | FTimeRfcNs => cat (rfc3339_prefix (e_civil e) ++ [lit [46]; atoi (e_nsec e) 9; lit [90]])
  | FUpAddr => Ok (e_upaddr e)
  | FUpHost => do '(h, _) <- hostport (e_upaddr e); Ok h
  | FUpPort => do '(_, p) <- hostport (e_upaddr e); Ok p
  | FUpReqScheme => with_url (e_upurl e) u_scheme
  | FUpReqURI => with_url (e_upurl e) u_requri
  | FUpReqURL => with_url (e_upurl e) u_string
  | FUpService => Ok (e_upsvc e)
  end.

Definition render_field : fld -> event -> outcome str := render_field_with hostport e_civil request_host.
Definition render_field_unrepaired : fld -> event -> outcome str :=
  render_field_with hostport_unrepaired e_civil_unrepaired request_host_unrepaired.

Definition field_names : list (str * fld) :=
  [ (bs "$remote_addr", FRemoteAddr); (bs "$remote_host", FRemoteHost); (bs "$remote_port", FRemotePort);
    (bs "$request", FRequest); (bs "$request_args", FRequestArgs); (bs "$request_host", FRequestHost);
    (bs "$request_method", FRequestMethod); (bs "$request_scheme", FRequestScheme);
    (bs "$request_uri", FRequestURI); (bs "$request_url", FRequestURL); (bs "$request_proto", FRequestProto);
    (bs "$response_body_size", FRespBodySize); (bs "$response_status", FRespStatus);
    (bs "$response_time_ms", FRespTimeMs); (bs "$response_time_us", FRespTimeUs);
    (bs "$response_time_ns", FRespTimeNs);
    (bs "$time_unix_ms", FTimeUnixMs); (bs "$time_unix_us", FTimeUnixUs); (bs "$time_unix_ns", FTimeUnixNs);
    (bs "$time_common", FTimeCommon); (bs "$time_rfc3339", FTimeRfc); (bs "$time_rfc3339_ms", FTimeRfcMs);
    (bs "$time_rfc3339_us", FTimeRfcUs); (bs "$time_rfc3339_ns", FTimeRfcNs);
    (bs "$upstream_addr", FUpAddr); (bs "$upstream_host", FUpHost); (bs "$upstream_port", FUpPort);
    (bs "$upstream_request_scheme", FUpReqScheme); (bs "$upstream_request_uri", FUpReqURI);
    (bs "$upstream_request_url", FUpReqURL); (bs "$upstream_service", FUpService) ]%string.

Fixpoint assoc {A} (k : str) (l : list (str * A)) : option A :=
  match l with
  | [] => None
  | (k', v) :: r => if beq k k' then Some v else assoc k r
  end.
Definition field_of (name : str) : option fld := assoc name field_names.

(* ---------- http.Header.Get for names over [a-zA-Z0-9_-] ----------
   textproto.CanonicalMIMEHeaderKey: first letter and every letter after '-' upper
   case, the rest lower case (all bytes of such a name are valid token bytes). *)
Fixpoint canon_key (s : str) (up : bool) : str :=
  match s with
  | [] => []
  | c :: r => (if up then upper_byte c else lower_byte c) :: canon_key r (c =? 45)
  end.
Definition header_get (h : list (str * str)) (name : str) : str :=
  match assoc (canon_key name true) h with Some v => v | None => [] end.

(* ---------- string <-> []rune (Go's conversions; unicode/utf8) ----------
   parse does s := []rune(format) and later string(s[:n]).  The decoder follows
   utf8.DecodeRune: a byte that does not start a well-formed sequence (bad lead byte,
   missing or out-of-range continuation: over-long forms, surrogates, > U+10FFFF) is ONE
   rune U+FFFD of width 1.  Tested against Go on every generated format. *)
Definition rune_error : N := 65533.
Definition is_cont (b : N) : bool := (128 <=? b) && (b <=? 191).
(* rune and width of the first rune of a non-empty string *)
Definition decode1 (b0 : N) (t : str) : N * nat :=
  if b0 <? 128 then (b0, 1%nat)
  else if (194 <=? b0) && (b0 <=? 223) then
    match t with
    | b1 :: _ => if is_cont b1 then ((b0 - 192) * 64 + (b1 - 128), 2%nat) else (rune_error, 1%nat)
    | _ => (rune_error, 1%nat)
    end
  else if (224 <=? b0) && (b0 <=? 239) then
    match t with
    | b1 :: b2 :: _ =>
        let lo := if b0 =? 224 then 160 else 128 in
        let hi := if b0 =? 237 then 159 else 191 in
        if (lo <=? b1) && (b1 <=? hi) && is_cont b2
        then ((b0 - 224) * 4096 + (b1 - 128) * 64 + (b2 - 128), 3%nat) else (rune_error, 1%nat)
    | _ => (rune_error, 1%nat)
    end
  else if (240 <=? b0) && (b0 <=? 244) then
    match t with
    | b1 :: b2 :: b3 :: _ =>
        let lo := if b0 =? 240 then 144 else 128 in
        let hi := if b0 =? 244 then 143 else 191 in
        if (lo <=? b1) && (b1 <=? hi) && is_cont b2 && is_cont b3
        then ((b0 - 240) * 262144 + (b1 - 128) * 4096 + (b2 - 128) * 64 + (b3 - 128), 4%nat)
        else (rune_error, 1%nat)
    | _ => (rune_error, 1%nat)
    end
  else (rune_error, 1%nat).

Fixpoint utf8_decode_fuel (fuel : nat) (s : str) : list N :=
  match fuel, s with
  | S f, b0 :: t => let '(r, w) := decode1 b0 t in r :: utf8_decode_fuel f (skipn (w - 1) t)
  | _, _ => []
  end.
(* []rune(s): every step consumes at least one byte, so length s steps suffice *)
Definition utf8_decode (s : str) : list N := utf8_decode_fuel (length s) s.

(* utf8.EncodeRune; surrogates and values above U+10FFFF are written as U+FFFD *)
Definition encode_rune (r : N) : str :=
  if r <? 128 then [r]
  else if r <? 2048 then [192 + r / 64; 128 + r mod 64]
  else if ((55296 <=? r) && (r <=? 57343)) || (1114111 <? r) then [239; 191; 189]
  else if r <? 65536 then [224 + r / 4096; 128 + (r / 64) mod 64; 128 + r mod 64]
  else [240 + r / 262144; 128 + (r / 4096) mod 64; 128 + (r / 64) mod 64; 128 + r mod 64].
(* string(runes) *)
Definition utf8_encode (rs : list N) : str := flat_map encode_rune rs.

(* ---------- the format lexer and parser (pattern.go:347-480) ---------- *)
Inductive item := IText (s : str) | IHeader (name : str) | IField (f : fld).
Inductive ityp := TText | TField | THeader.
Inductive lstate := SStart | SText | SDollar | SField | SDot | SHeader.

Definition is_id_char (r : N) : bool :=
  ((97 <=? r) && (r <=? 122)) || ((65 <=? r) && (r <=? 90)) || ((48 <=? r) && (r <=? 57))
  || (r =? 95) || (r =? 45).

Definition s_header : str := [36;104;101;97;100;101;114].   (* "$header" *)

(* [s] is the whole input as runes, [rest] = s[i:].  string(s[:i]) == "$header" is a
   comparison of rune lists here: in state SField s[:i] is '$' followed by ASCII
   identifier characters, which string() leaves as they are *)
Fixpoint lex_loop (s : str) (st : lstate) (i : nat) (rest : str) : ityp * nat :=
  match rest with
  | [] => match st with
          | SDot => (TField, (length s - 1)%nat)    (* SDot is only reached with i >= 8 *)
          | SField => (TField, length s)
          | SHeader => (THeader, length s)
          | _ => (TText, length s)
          end
  | r :: rest' =>
      match st with
      | SStart => lex_loop s (if r =? 36 then SDollar else SText) (S i) rest'
      | SText => if r =? 36 then (TText, i) else lex_loop s SText (S i) rest'
      | SDollar => lex_loop s (if is_id_char r then SField else SText) (S i) rest'
      | SField =>
          if r =? 46 then
            (if beq (firstn i s) s_header then lex_loop s SDot (S i) rest' else (TField, i))
          else if is_id_char r then lex_loop s SField (S i) rest'
          else (TField, i)
      | SDot => if is_id_char r then lex_loop s SHeader (S i) rest' else (TField, i)
      | SHeader => if is_id_char r then lex_loop s SHeader (S i) rest' else (THeader, i)
      end
  end.
Definition lex (s : str) : ityp * nat := lex_loop s SStart 0 s.

(* error kinds: 1 = invalid field, 2 = empty log format (logger.New) *)
(* [s] is a []rune; the item values are strings again: val := string(s[:n]) *)
Fixpoint parse_loop (fuel : nat) (s : list N) (acc : list item) : outcome (list item) :=
  match s with
  | [] => Ok (rev acc)
  | _ =>
      match fuel with
      | O => Err 98
      | S f =>
          let '(typ, n) := lex s in
          do vr <- lg_upto s n;
          let val := utf8_encode vr in
          do s' <- lg_from s n;
          match typ with
          | TText => parse_loop f s' (IText val :: acc)
          | THeader => do name <- lg_from val 8; parse_loop f s' (IHeader name :: acc)
          | TField => match field_of val with
                      | None => Err 1
                      | Some fl => parse_loop f s' (IField fl :: acc)
                      end
          end
      end
  end.
(* s := []rune(format) *)
Definition parse (format : str) : outcome (list item) :=
  let s := utf8_decode format in parse_loop (length s) s [].

Definition new_logger (format : str) : outcome (list item) :=
  do p <- parse format;
  match p with [] => Err 2 | _ => Ok p end.

(* ---------- pattern.write and Logger.Log ---------- *)
Definition render_item_with (rf : fld -> event -> outcome str) (it : item) (e : event) : outcome str :=
  match it with
  | IText s => Ok s
  | IHeader name =>
      match e_req e with
      | None => Ok []
      | Some r => match rq_header r with None => Ok [] | Some h => Ok (header_get h name) end
      end
  | IField f => rf f e
  end.

Fixpoint write_items_with (rf : fld -> event -> outcome str) (p : list item) (e : event) : outcome str :=
  match p with
  | [] => Ok []
  | it :: r => do a <- render_item_with rf it e; do b <- write_items_with rf r e; Ok (a ++ b)
  end.

(* the bytes handed to the single w.Write call of Logger.Log *)
Definition pattern_write_with rf (p : list item) (e : event) : outcome str :=
  do b <- write_items_with rf p e;
  Ok (match b with [] => [] | _ => b ++ [10] end).

Definition log_line_with rf (format : str) (e : event) : outcome str :=
  do p <- new_logger format; pattern_write_with rf p e.

Definition render_item := render_item_with render_field.
Definition write_items := write_items_with render_field.
Definition pattern_write := pattern_write_with render_field.
Definition log_line := log_line_with render_field.
(* the logger as it was before 1da7601 / bb1b4e7 *)
Definition log_line_unrepaired := log_line_with render_field_unrepaired.

(* ---------- proxy.responseWriter (http_proxy.go:283-302) ----------
   what ServeHTTP puts into the event: rw.code = the value of the LAST WriteHeader call
   (0 when there was none: then nothing is logged), rw.size = the sum of the Write
   results *)
Inductive rwcall := RwHeader (code : Z) | RwWrite (n : Z).
Definition rw_step (st : Z * Z) (c : rwcall) : Z * Z :=
  match c with
  | RwHeader code => (code, snd st)
  | RwWrite n => (fst st, (snd st + n)%Z)
  end.
Definition rw_run (calls : list rwcall) : Z * Z := fold_left rw_step calls (0, 0)%Z.

(* ====================== specification side ====================== *)

(* --- decimal: a string IS the rendering of a number iff ... --- *)
Definition is_digit (c : N) : bool := (48 <=? c) && (c <=? 57).
Definition dec_value (s : str) : N := fold_left (fun a c => a * 10 + (c - 48)) s 0.
(* all digits, parses back to n, at least max(1,w) long, and no leading zero
   beyond that width *)
Definition canon_digits (w : nat) (n : N) (ds : str) : bool :=
  forallb is_digit ds && (dec_value ds =? n)
  && Nat.leb (Nat.max 1 w) (length ds)
  && (if Nat.ltb (Nat.max 1 w) (length ds) then negb (hd 0 ds =? 48) else true).
(* '-' first for negatives, then the digits of |z| *)
Definition is_dec (w : nat) (z : Z) (s : str) : bool :=
  if (z <? 0)%Z
  then match s with 45 :: ds => canon_digits w (Z.to_N (- z)) ds | _ => false end
  else canon_digits w (Z.to_N z) s.

(* --- hexadecimal --- *)
Definition is_lhex (c : N) : bool := is_digit c || ((97 <=? c) && (c <=? 102)).
Definition lhex_val (c : N) : N := if is_digit c then c - 48 else c - 87.
Definition hex_value (s : str) : N := fold_left (fun a c => a * 16 + lhex_val c) s 0.
(* fmt.Sprintf("0x%04x", n) for n < 65536: "0x", then exactly four lower-case hex
   digits that parse back to n *)
Definition is_hex16 (n : N) (s : str) : bool :=
  match s with
  | 48 :: 120 :: ds => Nat.eqb (length ds) 4 && forallb is_lhex ds && (hex_value ds =? n)
  | _ => false
  end.

(* --- UUID text form (RFC 4122 section 3): the 16 bytes in hex, 8-4-4-4-12 --- *)
Definition hexd (k : N) : N := if k <? 10 then 48 + k else 87 + k.
Definition hex2 (b : N) : str := [hexd (b / 16 mod 16); hexd (b mod 16)].
Definition uuid_text (u : str) : str :=
  let h := flat_map hex2 (firstn 16 u) in
  firstn 8 h ++ [45] ++ firstn 4 (skipn 8 h) ++ [45] ++ firstn 4 (skipn 12 h) ++ [45]
  ++ firstn 4 (skipn 16 h) ++ [45] ++ skipn 20 h.

(* --- address splitting: "host:port" --- *)
Definition has_colon (s : str) : bool :=
  match index_byte s 58 with Some _ => true | None => false end.
(* "[" ... "]" *)
Definition is_bracketed (h : str) : bool :=
  Nat.ltb 1 (length h) && has_prefix h [91] && has_suffix h [93].
(* net.SplitHostPort-style: the port is what follows the last ':' (it contains none); the
   host is what precedes it, without the brackets when it has the form "[" ... "]" *)
Definition is_hostport_split (s h p : str) : bool :=
  negb (has_colon p)
  && ((beq s (h ++ [58] ++ p) && negb (is_bracketed h)) || beq s ([91] ++ h ++ [93] ++ [58] ++ p)).

(* the same as propositions, for the theorems.  [h] is [h0] without its brackets when [h0]
   has the form "[" inner "]", and [h0] itself otherwise *)
Definition unbracket_spec (h0 h : str) : Prop :=
  (exists inner, h0 = [91] ++ inner ++ [93] /\ h = inner) \/
  ((forall inner, h0 <> [91] ++ inner ++ [93]) /\ h = h0).
(* no ':' at all: the whole string is the host.  Otherwise the last ':' separates the port
   (which therefore contains none) and the host loses its brackets *)
Definition hostport_spec (s h p : str) : Prop :=
  (has_colon s = false /\ h = s /\ p = []) \/
  (exists h0, s = h0 ++ [58] ++ p /\ has_colon p = false /\ unbracket_spec h0 h).

(* ====================== finding regions and domain ====================== *)
Scheme Equality for fld.

Definition uses (p : list item) (fs : list fld) : bool :=
  existsb (fun it => match it with IField f => existsb (fld_beq f) fs | _ => false end) p.

Definition remote_of (e : event) : str := match e_req e with Some r => rq_remote r | None => [] end.
Definition time_fields : list fld := [FTimeCommon; FTimeRfc; FTimeRfcMs; FTimeRfcUs; FTimeRfcNs].

(* what every theorem about a rendered event assumes of the numbers in it *)
Definition int64_ok (z : Z) : bool := (min_int64 <? z)%Z && (z <=? max_int64)%Z.
(* an HTTP log event whose numbers are what time.Time / net/http can produce: the
   instant is one UnixNano can represent, the nanosecond is one, and a Response
   is present.  Nothing is asked of the addresses, the zone or the headers. *)
Definition event_ok (e : event) : bool :=
  int64_ok (e_dur e)
  && (-9000000000 <=? e_unix e)%Z && (e_unix e <=? 9000000000)%Z
  && (0 <=? e_nsec e)%Z && (e_nsec e <? 1000000000)%Z
  && match e_resp e with Some (st, cl) => int64_ok st && int64_ok cl | None => false end.
(* the same event as seen from another zone *)
Definition in_zone (e : event) (off : Z) : event :=
  {| e_dur := e_dur e; e_unix := e_unix e; e_nsec := e_nsec e; e_off := off; e_req := e_req e;
     e_resp := e_resp e; e_requrl := e_requrl e; e_upaddr := e_upaddr e; e_upsvc := e_upsvc e;
     e_upurl := e_upurl e |}.
