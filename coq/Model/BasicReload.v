(** Model of auth/basic.go (newBasicAuth with refresh > 0: the refresh goroutine; basic.Authorized)
    on top of github.com/tg123/go-htpasswd (File.Match, File.Reload, File.ReloadFromReader,
    addHtpasswdUser), as a machine of atomic actions: the environment replaces or removes the
    htpasswd file, the refresh goroutine takes its next step (os.Stat on a tick, os.Open, one
    line of the scanner loop, the final passwds.Store), a request is judged by Match on the
    table in force.  A schedule is a list of such actions; the theorems quantify over all of them.

    What a line of the file means to the parsers (which hash, whether the password matches) is
    data of the case: a well-formed line is [HUser user pw] ("user:<an accepted encoding of
    pw>"), MatchesPassword is equality with [pw].

    No proofs in this file. *)
From Coq Require Import String List NArith Bool.
From Fabio Require Import Lib.Outcome Lib.Bytes Model.Access.
Import ListNotations.
Local Open Scope N_scope.

(* ================= the htpasswd file ================= *)
Inductive hline :=
| HUser (user pw : str)   (* user:<encoding of pw accepted by one of htpasswd.DefaultSystems> *)
| HBad                    (* addHtpasswdUser returns an error: the bad-line handler is called *)
| HBlank.                 (* white space only: ignored *)
Definition hfile := list hline.

(* passwdTable = map[string]EncodedPasswd; pwmap[user] = matcher overrides an earlier entry
   of the same user: association list, newest first, the first hit is the map's entry *)
Definition ptable := list (str * str).
Definition pt_set (t : ptable) (u pw : str) : ptable := (u, pw) :: t.
Fixpoint pt_get (t : ptable) (u : str) : option str :=
  match t with
  | [] => None
  | (u', p) :: t' => if beq u' u then Some p else pt_get t' u
  end.

(* File.Match: matcher, ok := table[username]; ok && matcher.MatchesPassword(password) *)
Definition pt_match (t : ptable) (u pw : str) : bool :=
  match pt_get t u with Some p => beq p pw | None => false end.

(* one iteration of the scanner loop of ReloadFromReader; true = bad(perr) was called *)
Definition add_line (acc : ptable) (l : hline) : ptable * bool :=
  match l with
  | HUser u p => (pt_set acc u p, false)
  | HBad => (acc, true)
  | HBlank => (acc, false)
  end.

(* the whole loop: the table a complete read of the file builds *)
Definition table_of (f : hfile) : ptable := fold_left (fun acc l => fst (add_line acc l)) f [].

(* ================= a request's credentials ================= *)
(* request.BasicAuth(): ok, user, password *)
Record bcreds := { c_ok : bool; c_user : str; c_pw : str }.

(* ================= the machine ================= *)
(* where the refresh goroutine stands *)
Inductive rpc :=
| RIdle                                   (* waiting for the ticker *)
| RClearing                               (* Stat failed, !cleared: about to ReloadFromReader(empty) *)
| RStatted (mt : N)                       (* Stat ok, ModTime differs: about to secrets.Reload *)
| RParsing (mt : N) (whole rest : hfile) (acc : ptable).
                                          (* inside ReloadFromReader: [rest] still to scan, [acc] = newPasswdMap *)

Record rstate := {
  in_force : ptable;                      (* the table bf.passwds points to *)
  fs : option (hfile * N);                (* the file: content and modification time; None = absent *)
  cfg_mtime : N;                          (* cfg.ModTime *)
  cleared : bool;
  pc : rpc
}.

Inductive raction :=
| AWrite (c : hfile) (mt : N)             (* the operator replaces the file (rename), ModTime mt *)
| ARemove                                 (* the operator removes the file *)
| ARefresher                              (* the refresh goroutine takes its next atomic step *)
| ARequest (c : bcreds).                  (* a request reaches basic.Authorized *)

Inductive revent :=
| EvVerdict (c : bcreds) (b : bool)       (* what Authorized returned *)
| EvLoaded (f : hfile)                    (* passwds.Store: a complete read of [f] is now in force *)
| EvBadLine                               (* the bad-line handler was called (a [WARN] log line) *)
| EvStatFailed                            (* [WARN] Error accessing htpasswd file *)
| EvOpenFailed.                           (* [WARN] Error reloading htpasswd file *)

(* basic.Authorized (basic.go:77-86) *)
Definition basic_authorized (st : rstate) (c : bcreds) : bool :=
  if negb (c_ok c) then false else pt_match (in_force st) (c_user c) (c_pw c).

Definition set_pc (st : rstate) (p : rpc) : rstate :=
  {| in_force := in_force st; fs := fs st; cfg_mtime := cfg_mtime st; cleared := cleared st; pc := p |}.

(* the goroutine of newBasicAuth (basic.go:37-68), one atomic step *)
Definition refresher_step (st : rstate) : list revent * rstate :=
  match pc st with
  | RIdle =>
      (* for range ticker: stat, err := os.Stat(cfg.File) *)
      match fs st with
      | None => ([EvStatFailed], if cleared st then st else set_pc st RClearing)
      | Some (_, mt) => ([], if mt =? cfg_mtime st then st else set_pc st (RStatted mt))
      end
  | RClearing =>
      (* secrets.ReloadFromReader(&bytes.Buffer{}, bad): no line, Store of the empty table; cleared = true *)
      ([EvLoaded []],
       {| in_force := []; fs := fs st; cfg_mtime := cfg_mtime st; cleared := true; pc := RIdle |})
  | RStatted mt =>
      (* secrets.Reload(bad): os.Open(bf.filePath) reads whatever file is there NOW *)
      match fs st with
      | None => ([EvOpenFailed], set_pc st RIdle)
      | Some (c, _) => ([], set_pc st (RParsing mt c c []))
      end
  | RParsing mt whole [] acc =>
      (* bf.passwds.Store(&newPasswdMap); cfg.ModTime = stat.ModTime(); cleared = false *)
      ([EvLoaded whole],
       {| in_force := acc; fs := fs st; cfg_mtime := mt; cleared := false; pc := RIdle |})
  | RParsing mt whole (l :: rest) acc =>
      let '(acc', bad) := add_line acc l in
      (if bad then [EvBadLine] else [], set_pc st (RParsing mt whole rest acc'))
  end.

Definition rstep (st : rstate) (a : raction) : list revent * rstate :=
  match a with
  | AWrite c mt =>
      ([], {| in_force := in_force st; fs := Some (c, mt); cfg_mtime := cfg_mtime st; cleared := cleared st; pc := pc st |})
  | ARemove =>
      ([], {| in_force := in_force st; fs := None; cfg_mtime := cfg_mtime st; cleared := cleared st; pc := pc st |})
  | ARefresher => refresher_step st
  | ARequest c => ([EvVerdict c (basic_authorized st c)], st)
  end.

Fixpoint rrun (st : rstate) (sched : list raction) : list revent * rstate :=
  match sched with
  | [] => ([], st)
  | a :: rest =>
      let '(ev, st') := rstep st a in
      let '(evs, st'') := rrun st' rest in
      (ev ++ evs, st'')
  end.

(* newBasicAuth: htpasswd.New read [init] completely; cfg.ModTime = its ModTime *)
Definition rboot (init : hfile) (mt : N) : rstate :=
  {| in_force := table_of init; fs := Some (init, mt); cfg_mtime := mt; cleared := false; pc := RIdle |}.

(* p.AuthSchemes as Target.Authorized sees it at the moment of a request: the one basic scheme *)
Definition basic_scheme_table (name : str) (st : rstate) : scheme_table bcreds :=
  fun n => if beq n name then Some (basic_authorized st) else None.

(* ================= specification side ================= *)
(* the file content the scheme has most recently read completely, according to the trace *)
Fixpoint last_loaded (cur : hfile) (evs : list revent) : hfile :=
  match evs with
  | [] => cur
  | EvLoaded f :: r => last_loaded f r
  | _ :: r => last_loaded cur r
  end.

(* what an htpasswd file says about credentials: they are a Basic pair, the file has a line for
   the user with that password, and no later line for the same user *)
Definition file_accepts (f : hfile) (c : bcreds) : Prop :=
  c_ok c = true /\
  exists pre post, f = pre ++ HUser (c_user c) (c_pw c) :: post /\
                   forall p, ~ In (HUser (c_user c) p) post.

(* boolean reference used by the correspondence check on files without a repeated user *)
Definition line_is (u pw : str) (l : hline) : bool :=
  match l with HUser u' p' => beq u' u && beq p' pw | _ => false end.
Definition file_accepts_b (f : hfile) (c : bcreds) : bool :=
  c_ok c && existsb (line_is (c_user c) (c_pw c)) f.
Fixpoint users_of (f : hfile) : list str :=
  match f with
  | [] => []
  | HUser u _ :: r => u :: users_of r
  | _ :: r => users_of r
  end.
Fixpoint str_nodup (l : list str) : bool :=
  match l with
  | [] => true
  | x :: r => negb (existsb (beq x) r) && str_nodup r
  end.

(* ================= replay of an observed history (used by Check/C12.v) ================= *)
(* the refresh goroutine runs on (nobody else acts) until it emits an event [want] accepts *)
Fixpoint advance_until (want : revent -> bool) (fuel : nat) (st : rstate) : option rstate :=
  match fuel with
  | O => None
  | S f =>
      let '(ev, st') := refresher_step st in
      if existsb want ev then Some st' else advance_until want f st'
  end.
Definition is_bad_line (e : revent) : bool := match e with EvBadLine => true | _ => false end.
Definition is_loaded (e : revent) : bool := match e with EvLoaded _ => true | _ => false end.
