(** Model of proxy/tcp/tcp_proxy.go (tcp.Proxy.ServeTCP) on a route with SEVERAL targets.

    Access rules live on the target: every instance of a service registers its own allow= /
    deny= option, so the targets of one route may well disagree about a peer.  p.Lookup picks one
    of them (rnd / rr picker: which one is not the proxy's business - the k-th call of Lookup of a
    connection is answered by an arbitrary function [tc_pick]); an instance may be gone while it is
    still in the table (its dial fails: [tc_alive]).  ServeTCP (tcp_proxy.go:33-88) asks Lookup
    ONCE, checks AccessDeniedTCP of the target it got, dials THAT target, and on a failed dial
    counts ConnFail and closes the client connection: no other target is tried.

    The theorems (Proofs/TcpTargets.v) quantify over all target lists, all answers of Lookup, all
    aliveness functions and all peers.  No proofs in this file. *)
From Coq Require Import String List NArith Bool.
From Fabio Require Import Lib.Outcome Lib.Bytes Model.Access.
Import ListNotations.

(* what one connection meets: its peer address, what the calls of p.Lookup return while it is
   served (index into the route's target list, None = nil) and which instances accept a dial *)
Record tconn := {
  tc_peer : tcp_peer;
  tc_pick : nat -> option nat;
  tc_alive : nat -> bool
}.

Inductive tevent :=
| TLookup (k : nat) (r : option nat)   (* the k-th call of p.Lookup of this connection and its answer *)
| TDial (i : nat) (ok : bool)          (* net.DialTimeout to the address of target i; ok = connected *)
| TTunnel (i : nat)                    (* bytes are copied between the client and target i *)
| TClose.                              (* the client connection is closed (defer in.Close()) *)

(* p.Lookup(port): a target of the route or nil (an index outside the list = nil) *)
Definition looked_up (ts : list rules) (c : tconn) (k : nat) : option (nat * rules) :=
  match tc_pick c k with
  | None => None
  | Some i => match nth_error ts i with Some r => Some (i, r) | None => None end
  end.

(* tcp_proxy.go:33-88; [ts] = the access rule maps of the route's targets *)
Definition serve_tcp_route (ts : list rules) (c : tconn) : list tevent :=
  match looked_up ts c 0 with
  | None => [TLookup 0 None; TClose]                       (* t == nil: Noroute *)
  | Some (i, r) =>
      if access_denied_tcp r (tc_peer c) then [TLookup 0 (Some i); TClose] else
      if tc_alive c i then [TLookup 0 (Some i); TDial i true; TTunnel i; TClose]
      else [TLookup 0 (Some i); TDial i false; TClose]     (* ConnFail, return err *)
  end.

(* a listener serves one connection after the other (each on a goroutine of its own; the
   connections share nothing but the table) *)
Definition serve_tcp_conns (ts : list rules) (cs : list tconn) : list (list tevent) :=
  map (serve_tcp_route ts) cs.

(* ---- observables ---- *)
Definition is_dial (e : tevent) : bool := match e with TDial _ _ => true | _ => false end.
Definition is_lookup (e : tevent) : bool := match e with TLookup _ _ => true | _ => false end.
Definition connected_to (i : nat) (e : tevent) : bool :=
  match e with TDial j true => Nat.eqb i j | _ => false end.

(* how many connections the instance behind target i accepted *)
Definition accepts_of (tr : list tevent) (i : nat) : N :=
  N.of_nat (List.length (filter (connected_to i) tr)).
Definition lookups_of (tr : list tevent) : N := N.of_nat (List.length (filter is_lookup tr)).

(* ---- replay of an observed connection (used by Check/C12.v) ---- *)
Definition tconn_of (p : tcp_peer) (picks : list (option nat)) (alive : list bool) : tconn :=
  {| tc_peer := p;
     tc_pick := fun k => nth k picks None;
     tc_alive := fun i => nth i alive false |}.
