(** Additions to Model/BasicReload.v for histories in which the htpasswd file is removed MORE THAN
    ONCE (present / removed / restored / removed ...): the refresh goroutine running on alone, and
    how many of its steps a removal needs at most to lock everybody out.  The machine itself is
    unchanged: its [cleared] flag (basic.go: `cleared`) is set by the clearing step and reset by the
    Store of a successful reload, so "already cleared once" is a state the model distinguishes.

    No proofs in this file. *)
From Coq Require Import String List NArith Bool.
From Fabio Require Import Lib.Outcome Lib.Bytes Model.Access Model.BasicReload.
Import ListNotations.

(* the refresh goroutine takes n steps while nobody else acts *)
Fixpoint refresher_steps (n : nat) (st : rstate) : rstate :=
  match n with
  | O => st
  | S k => refresher_steps k (snd (refresher_step st))
  end.

(* steps of the goroutine after which a removed file has locked everybody out: a re-read that is
   under way is finished first (one step per remaining line and the Store), then Stat fails and the
   credentials are cleared *)
Definition removal_bound (st : rstate) : nat :=
  match pc st with
  | RParsing _ _ rest _ => List.length rest + 3
  | _ => 3
  end.

(* nobody gets in, and the goroutine has nothing left to do while the file stays away *)
Definition locked_out (st : rstate) : Prop :=
  fs st = None /\ pc st = RIdle /\ cleared st = true /\ in_force st = [].
