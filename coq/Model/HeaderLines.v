(** C08, the client's side of the header map and the upstream's side of the wire.

    [Model/Headers.v] starts from a header map [r_hdr] and stops at the map handed to the
    transport ([rp_out]) or written by the websocket handler ([wire]).  The X-Forwarded-For
    clause there carries the hypothesis [wf_hdr]: no key is present with a nil slice -- the
    "do not populate X-Forwarded-For" marker of httputil.ReverseProxy (Go issue 38079) that
    fabio's websocket branch honours as well.  This file adds the two ends:

    - [parse_lines]: the header map the net/http server hands to fabio for the header LINES a
      client wrote (textproto.Reader.ReadMIMEHeader as far as it matters here: the name is
      canonicalised, the value loses its leading and trailing blanks, values of lines with
      the same canonical name are appended in the order of the lines; a line with an empty or
      blank value contributes the value "").  MODELLED, NOT VERIFIED: compared with the real
      net/http server on every run (case classes [lines-*] / [wire-*]).  The Host line is
      carried separately ([r_host]); continuation lines, invalid names (answered 400 by the
      server itself) and the body-framing headers are outside.
    - [serve_wire]: what the upstream READS OFF THE WIRE on either path (Request.Write by the
      real http.Transport behind ReverseProxy / by the websocket handler, then ReadRequest at
      the upstream): a key without values is not sent.

    No proofs here (Proofs/HeaderLines.v). *)
From Coq Require Import String List NArith ZArith Bool.
From Fabio Require Import Lib.Outcome Lib.Bytes Model.Headers.
Import ListNotations.
Local Open Scope N_scope.
Local Open Scope outcome_scope.

(* one header line as the client wrote it: (name, bytes between ':' and CRLF) *)
Definition hline := (str * str)%type.

(* ReadMIMEHeader trims SP and HTAB only (a value cannot contain CR / LF) *)
Definition is_lws (c : N) : bool := (c =? 32) || (c =? 9).
Fixpoint trim_lws_left (s : str) : str :=
  match s with
  | c :: t => if is_lws c then trim_lws_left t else s
  | [] => []
  end.
Definition trim_lws (s : str) : str := rev (trim_lws_left (rev (trim_lws_left s))).

(* m[key] = append(m[key], value) *)
Fixpoint happend (h : hmap) (k v : str) : hmap :=
  match h with
  | [] => [(k, [v])]
  | (k', vs) :: t => if beq k k' then (k', vs ++ [v]) :: t else (k', vs) :: happend t k v
  end.

Definition line_key (l : hline) : str := canon_key (fst l).
Definition line_value (l : hline) : str := trim_lws (snd l).

Definition parse_lines (ls : list hline) : hmap :=
  fold_left (fun h l => happend h (line_key l) (line_value l)) ls [].

(* the request fabio sees for connection data [r] (peer, Host, TLS state, proto; its [r_hdr]
   is not read) and header lines [ls] *)
Definition req_of_lines (r : request) (ls : list hline) : request :=
  {| r_peer := r_peer r; r_host := r_host r; r_tls := r_tls r; r_proto := r_proto r;
     r_hdr := parse_lines ls |}.

(* ---- the upstream's end: header map read off the wire, STS Set on the response ---- *)
Definition serve_wire (cfg : config) (t : target) (uuid : str) (r : request) : outcome (hmap * option str) :=
  do res <- serve cfg t uuid r;
  Ok (wire (fst res), snd res).

Definition serve_lines (cfg : config) (t : target) (uuid : str) (r : request) (ls : list hline)
  : outcome (hmap * option str) :=
  serve_wire cfg t uuid (req_of_lines r ls).

(* The Host line the upstream reads: Request.Write on BOTH paths here (the real transport
   writes the outgoing request the way the websocket handler does): the rewritten r.Host,
   r.URL.Host (the target's) when that is empty, zone removed. *)
Definition upstream_host_wire (cfg : config) (t : target) (uuid : str) (r : request) : outcome str :=
  do _h <- add_headers cfg (t_strip t) (req_with_reqid cfg uuid r);
  let host := rewritten_host t (r_host r) in
  Ok (remove_zone (if sempty host then t_url_host t else host)).

(* ---- specification vocabulary for the line level (independent of [happend]/[fold_left]) ----
   the values a client sent under canonical name [k]: the trimmed values of exactly the lines
   whose name canonicalises to [k], in the order of the lines *)
Definition values_of (k : str) (ls : list hline) : list str :=
  map line_value (filter (fun l => beq k (line_key l)) ls).

(* a line whose value is empty or blank *)
Definition blank_line (l : hline) : bool := sempty (line_value l).

(* every X-Forwarded-For line of the client is empty / blank, and there is at least one *)
Definition only_blank_xff (ls : list hline) : bool :=
  let xs := filter (fun l => beq K_XFF (line_key l)) ls in
  negb (match xs with [] => true | _ => false end) && forallb blank_line xs.
