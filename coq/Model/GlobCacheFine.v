(** C06 - the repaired route/glob_cache.go (fix d9b7eff) at FINE granularity, with the mutex explicit.
    Model/GlobCacheC06.v takes the section between c.mu.Lock() and the deferred Unlock as one atomic
    action ([g_step]); this file does not: it is the machine that justifies that step
    (Proofs/GlobCacheFine.v proves the invariants directly on it, for every schedule).

    Assumptions about the Go runtime, and nothing else:
      * sync.Map: each Load / Store / Delete is one linearizable action (they may interleave freely
        with the actions of other goroutines, including those of a goroutine holding the mutex);
      * sync.Mutex: Lock is enabled only while the mutex is free and takes it in the same action;
        Unlock releases it; a goroutine whose Lock is not enabled does not move (a scheduled step of
        a blocked goroutine is a no-op);
      * reads and writes of l, h, n: one action each (word-sized).  They only occur between Lock and
        Unlock - this is a fact of the code which the machine reproduces, not an assumption.

    A goroutine executing Get(pattern):
      FFast    if glb, ok := c.m.Load(pattern); ok { return glb }         -- lock-free, any time
               glob.Compile(pattern) (local); err != nil -> return err
      FLock    c.mu.Lock()                                                 -- enabled iff the mutex is free
      FCrit    the statements of the critical section, one action per shared access, exactly the
               17-state machine [g_step_unrepaired] of Model/GlobCacheC06.v started at its first
               state (its GLoad is the re-check `c.m.Load(pattern)`), running on the goroutine's own
               registers [f_in]; when that machine has returned, the next action is
               (deferred) c.mu.Unlock(): the mutex is released and Get returns the machine's result.
    No proofs in this file. *)
From Coq Require Import List NArith Bool Arith.
From Fabio Require Import Lib.Outcome Lib.Bytes Model.Interleave Model.GlobCacheC06.
Import ListNotations.

Record fshared := { f_c : gshared; f_lock : bool }.
Inductive fpc := FFast | FLock | FCrit | FDone.
Record flocal := { f_at : fpc; f_pat : str; f_ok : bool; f_in : glocal; f_res : option (outcome str) }.

Definition f_init (pat : str) (compiles : bool) : flocal :=
  {| f_at := FFast; f_pat := pat; f_ok := compiles; f_in := g_init_unrepaired pat true; f_res := None |}.
Definition f_goto (l : flocal) (pc : fpc) : flocal :=
  {| f_at := pc; f_pat := f_pat l; f_ok := f_ok l; f_in := f_in l; f_res := f_res l |}.
Definition f_ret (l : flocal) (r : option (outcome str)) : flocal :=
  {| f_at := FDone; f_pat := f_pat l; f_ok := f_ok l; f_in := f_in l; f_res := r |}.
Definition g_is_done (l : glocal) : bool := match g_at l with GDone => true | _ => false end.

Definition f_step (s : fshared) (l : flocal) : fshared * flocal :=
  match f_at l with
  | FFast => match m_load (c_m (f_c s)) (f_pat l) with
             | Some v => (s, f_ret l (Some (Ok v)))
             | None => if f_ok l then (s, f_goto l FLock) else (s, f_ret l (Some (Err 1)))
             end
  | FLock => if f_lock s then (s, l)                                   (* blocked *)
             else ({| f_c := f_c s; f_lock := true |},
                   {| f_at := FCrit; f_pat := f_pat l; f_ok := f_ok l;
                      f_in := g_init_unrepaired (f_pat l) true; f_res := None |})
  | FCrit => if g_is_done (f_in l)
             then ({| f_c := f_c s; f_lock := false |}, f_ret l (g_res (f_in l)))      (* Unlock; return *)
             else let '(c', i') := g_step_unrepaired (f_c s) (f_in l) in
                  ({| f_c := c'; f_lock := f_lock s |},
                   {| f_at := FCrit; f_pat := f_pat l; f_ok := f_ok l; f_in := i'; f_res := None |})
  | FDone => (s, l)
  end.

Definition f_new (size : nat) : fshared := {| f_c := gc_new size; f_lock := false |}.
Definition f_results (ts : list flocal) : list (option (outcome str)) := map f_res ts.
Definition in_cs (l : flocal) : bool := match f_at l with FCrit => true | _ => false end.
