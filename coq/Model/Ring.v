(** Model of the second half of [Route.weighTargets] (route/route.go:289-321):
    slot counts, the ring allocation and the ring fill loop, statement by
    statement.  Go's run-time checks are explicit: [make] with a negative (or
    absurdly large) length, an index outside the ring and a modulo by zero are
    [Panic]; the inner probe loop [for targets[next] != nil] is run with fuel
    [length ring + 1] and answers [Err diverges] exactly when the ring has no empty
    slot, i.e. when the Go loop would spin forever (Proofs/Ring.v: [probe_scan_eq],
    [probe_full_diverges], [ring_of_counts_spec]).  No proofs in this file. *)
From Coq Require Import List ZArith NArith Bool.
From Fabio Require Import Lib.Outcome Model.Weigh.
Import ListNotations.
Local Open Scope outcome_scope.

(** a ring slot: [None] = nil, [Some i] = r.Targets[i] *)
Definition ring := list (option nat).

(** error kind of a non-terminating probe loop *)
Definition diverges : N := 1%N.

(** l.290-298: [usedSlots += n] in Go's wrapping 64-bit int *)
Definition used_slots (counts : list Z) : Z := total_slots counts.

(** l.301: [targets := make([]*Target, usedSlots)].  makeslice panics for a negative
    length and for more than maxAlloc/8 = 2^45 pointers (linux/amd64). *)
Definition make_ring (used : Z) : outcome ring :=
  if ((used <? 0) || (2^45 <? used))%Z then Panic else Ok (repeat None (Z.to_nat used)).

(** l.310-312: [for targets[next] != nil { next = (next + 1) % usedSlots }] *)
Fixpoint probe (fuel : nat) (r : ring) (used next : nat) : outcome nat :=
  match fuel with
  | O => Err diverges
  | S f =>
      match nth_error r next with
      | None => Panic                                   (* index out of range *)
      | Some None => Ok next
      | Some (Some _) =>
          if Nat.eqb used 0 then Panic                  (* integer divide by zero *)
          else probe f r used ((next + 1) mod used)
      end
  end.

Fixpoint set_nth {X} (l : list X) (k : nat) (x : X) : list X :=
  match l, k with
  | [], _ => []
  | _ :: l', O => x :: l'
  | y :: l', S k' => y :: set_nth l' k' x
  end.

(** l.309-317: the [for k := 0; k < s.n; k++] loop for one target [t] *)
Fixpoint place (k : nat) (t : nat) (step used : nat) (r : ring) (next : nat) : outcome ring :=
  match k with
  | O => Ok r
  | S k' =>
      do p <- probe (S (length r)) r used next;
      if Nat.eqb used 0 then Panic else
      place k' t step used (set_nth r p (Some t)) ((p + step) mod used)
  end.

(** l.303-318: all targets in the order [sort.Sort(slots)] left them in.
    [(i, n)] = one [slots] entry. *)
Fixpoint fill_all (slots : list (nat * Z)) (used : nat) (r : ring) : outcome ring :=
  match slots with
  | [] => Ok r
  | (i, n) :: rest =>
      if (n <=? 0)%Z then fill_all rest used r
      else
        let step := Z.to_nat (Z.of_nat used / n) in      (* usedSlots / s.n, s.n > 0 *)
        do r' <- place (Z.to_nat n) i step used r 0;
        fill_all rest used r'
  end.

(** [sort.Sort(slots)] orders by [n] ascending and is NOT stable (pdqsort), so the
    order among equal counts is an input of the model: [sorted] is any arrangement of
    the [(i, n)] pairs.  [stable_order] is the stable one (what Go produces for
    at most 12 targets, where pdqsort is a plain insertion sort). *)
Fixpoint insert_slot (x : nat * Z) (l : list (nat * Z)) : list (nat * Z) :=
  match l with
  | [] => [x]
  | y :: l' => if (snd x <=? snd y)%Z then x :: l else y :: insert_slot x l'
  end.
Definition stable_order (l : list (nat * Z)) : list (nat * Z) := fold_right insert_slot [] l.

Definition indexed (counts : list Z) : list (nat * Z) := combine (seq 0 (length counts)) counts.

(** l.289-321 for a given vector of slot counts and a given post-sort arrangement *)
Definition ring_of_counts (sorted : list (nat * Z)) (counts : list Z) : outcome ring :=
  let used := used_slots counts in
  do r <- make_ring used;
  fill_all sorted (Z.to_nat used) r.

(** What the ring construction does, without building the ring (used for the
    intermediate weighTargets runs of a command sequence, where only "did it
    crash" matters): the make check, then with P = the number of slots the fill
    wants to occupy: nothing to place -> fine; an empty ring -> the first
    [targets[next]] is out of range; more to place than slots -> the probe loop
    never ends.  Proofs/Ring.v proves [ring_status_correct]: for every count vector and
    every arrangement of the sort this IS the status of [ring_of_counts]; Proofs/Split.v
    lifts it to [route_status_correct] (status of [route_ring]).  The correspondence check
    uses it for the intermediate weighTargets runs of a command sequence. *)
Definition wanted_slots (counts : list Z) : Z :=
  fold_left (fun p n => if (n <=? 0)%Z then p else (p + n)%Z) counts 0%Z.
Definition ring_status (counts : list Z) : outcome unit :=
  let used := used_slots counts in
  if ((used <? 0) || (2^45 <? used))%Z then Panic else
  let p := wanted_slots counts in
  if (p =? 0)%Z then Ok tt
  else if (used =? 0)%Z then Panic
  else if (used <? p)%Z then Err diverges
  else Ok tt.

(** the whole of weighTargets BEFORE commit 290c777 (no fallback); kept for the refutations *)
Definition route_ring_unrepaired (A : arith) (order : list (nat * Z) -> list (nat * Z)) (fixed : list (num A))
  : outcome (list (num A) * ring) :=
  let ws := weigh_unrepaired A fixed in
  if Nat.eqb (n_fixed A fixed) 0 then
    Ok (ws, map Some (seq 0 (length fixed)))
  else
    let counts := map (slot_count A) ws in
    do r <- ring_of_counts (order (indexed counts)) counts;
    Ok (ws, r).

(** the whole of weighTargets (since 290c777): effective weights and the ring the pickers use.
    [order] = what sort.Sort does to the slots.  No fixed weight, an unusable weight or
    [usedSlots <= 0]: weighEvenly, [r.wTargets = r.Targets]; otherwise the fill loop. *)
Definition route_ring (A : arith) (order : list (nat * Z) -> list (nat * Z)) (fixed : list (num A))
  : outcome (list (num A) * ring) :=
  let ws := weigh A fixed in
  if uses_fill A fixed then
    let counts := map (slot_count A) ws in
    do r <- ring_of_counts (order (indexed counts)) counts;
    Ok (ws, r)
  else Ok (ws, map Some (seq 0 (length fixed))).

(** the crash status of an outcome, and of weighTargets as a whole (no ring built) *)
Definition status_of {X} (o : outcome X) : outcome unit :=
  match o with Ok _ => Ok tt | Err k => Err k | Panic => Panic end.
Definition route_status_unrepaired (A : arith) (fixed : list (num A)) : outcome unit :=
  if Nat.eqb (n_fixed A fixed) 0 then Ok tt
  else ring_status (map (slot_count A) (weigh_unrepaired A fixed)).
Definition route_status (A : arith) (fixed : list (num A)) : outcome unit :=
  if uses_fill A fixed then ring_status (map (slot_count A) (weigh A fixed)) else Ok tt.

(** number of slots of the ring holding target [t] / holding nil *)
Definition slot_eqb (a b : option nat) : bool :=
  match a, b with
  | Some x, Some y => Nat.eqb x y
  | None, None => true
  | _, _ => false
  end.
Definition occupancy (t : option nat) (r : ring) : nat := length (filter (slot_eqb t) r).

(** ---------- an equivalent single-scan formulation of the probe loop ----------
    [probe (S (length r)) r (length r) next] walks the ring slot by slot, each step a
    list access; for rings of 10^4 slots that is too slow to evaluate inside Coq.
    [probe_scan] finds the same slot (the first empty one at or after [next],
    cyclically) in one scan.  Proofs/Ring.v proves [probe_scan_eq] / [ring_of_counts_scan_eq]:
    the two agree on every input; the correspondence check evaluates this one. *)
Fixpoint find_none (l : ring) : option nat :=
  match l with
  | [] => None
  | None :: _ => Some O
  | Some _ :: l' => match find_none l' with Some j => Some (S j) | None => None end
  end.

Definition probe_scan (r : ring) (next : nat) : outcome nat :=
  match skipn next r with
  | [] => Panic
  | suf =>
      match find_none suf with
      | Some j => Ok (next + j)
      | None => match find_none (firstn next r) with
                | Some j => Ok j
                | None => Err diverges
                end
      end
  end.

Fixpoint place_scan (k : nat) (t : nat) (step used : nat) (r : ring) (next : nat) : outcome ring :=
  match k with
  | O => Ok r
  | S k' =>
      do p <- probe_scan r next;
      if Nat.eqb used 0 then Panic else
      place_scan k' t step used (set_nth r p (Some t)) ((p + step) mod used)
  end.

Fixpoint fill_scan (slots : list (nat * Z)) (used : nat) (r : ring) : outcome ring :=
  match slots with
  | [] => Ok r
  | (i, n) :: rest =>
      if (n <=? 0)%Z then fill_scan rest used r
      else
        let step := Z.to_nat (Z.of_nat used / n) in
        do r' <- place_scan (Z.to_nat n) i step used r 0;
        fill_scan rest used r'
  end.

Definition ring_of_counts_scan (sorted : list (nat * Z)) (counts : list Z) : outcome ring :=
  let used := used_slots counts in
  do r <- make_ring used;
  fill_scan sorted (Z.to_nat used) r.
