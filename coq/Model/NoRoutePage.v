(** The no-route page as it is configured at run time: main.go:638-652
    (watchNoRouteHTML, the goroutine main() starts next to the proxy) carries every value
    the registry backend delivers on its WatchNoRouteHTML channel into the store of package
    noroute (noroute/store.go, one atomic.Value), which proxy.HTTPProxy.ServeHTTP
    (http_proxy.go:102-113) reads once per request that has no route.  A delivered value is
    the page the registry holds at that moment; the empty value means that the page was
    removed (or never configured).

    First part: the model.  [watch_step] is one turn of the watcher's loop; [nr_run] a
    history of deliveries and no-route requests (the granularity at which the harness can
    replay: a request is served when the watcher is back at its channel); [sched_run] the
    same with the watcher cut into its atomic actions (receive / noroute.GetHTML / noroute.SetHTML)
    under an arbitrary schedule of watcher steps and requests.
    Second part: the specification (the page in force is the last one the registry delivered).
    No proofs in this file. *)
From Coq Require Import String List NArith ZArith Bool.
From Fabio Require Import Lib.Outcome Lib.Bytes Model.UrlPathC07 Model.HttpFwd.
Import ListNotations.
Local Open Scope N_scope.

(* ================= model ================= *)

(* one turn of the loop: next := <-html; if next == noroute.GetHTML() { continue };
   noroute.SetHTML(next); log ... -- the value of the store afterwards *)
Definition watch_step (stored next : str) : str :=
  if beq next stored then stored else next.

Definition watch_run (stored : str) (deliveries : list str) : str :=
  fold_left watch_step deliveries stored.

(* a history: the registry delivers a page and the watcher handles it, or a request without
   a route is served *)
Inductive nr_step :=
| NrPage (page : str)
| NrReq (q : request).

Definition nr_answer (u : upstream) : response := {| rs_status := 200; rs_headers := []; rs_body := [] |}.

(* [stored] = what the noroute store holds; every request goes through ServeHTTP as modelled in
   Model.HttpFwd with the lookup finding nothing *)
Fixpoint nr_run (wire : bool) (status : Z) (stored : str) (h : list nr_step)
  : list (outcome (option upstream * response)) :=
  match h with
  | [] => []
  | NrPage p :: r => nr_run wire status (watch_step stored p) r
  | NrReq q :: r =>
      serve_http wire {| cf_noroute_status := status; cf_noroute_html := stored |} None q nr_answer
      :: nr_run wire status stored r
  end.

(* ---- the watcher in atomic actions, any schedule ---- *)
Inductive wpc := WIdle | WGot | WCompared.
Record watcher := {
  w_store : str;          (* noroute.store *)
  w_pc : wpc;
  w_next : str;           (* the local variable next *)
  w_same : bool;          (* next == noroute.GetHTML() as evaluated *)
  w_queue : list str }.   (* what the registry is still going to deliver, in order *)

Definition w_init (stored : str) (deliveries : list str) : watcher :=
  {| w_store := stored; w_pc := WIdle; w_next := []; w_same := false; w_queue := deliveries |}.

Definition w_step (w : watcher) : watcher :=
  match w_pc w with
  | WIdle =>
      match w_queue w with
      | [] => w     (* blocked on the channel *)
      | p :: r => {| w_store := w_store w; w_pc := WGot; w_next := p; w_same := w_same w; w_queue := r |}
      end
  | WGot =>         (* noroute.GetHTML() and the comparison *)
      {| w_store := w_store w; w_pc := WCompared; w_next := w_next w;
         w_same := beq (w_next w) (w_store w); w_queue := w_queue w |}
  | WCompared =>    (* continue, or noroute.SetHTML(next) *)
      {| w_store := if w_same w then w_store w else w_next w; w_pc := WIdle; w_next := w_next w;
         w_same := w_same w; w_queue := w_queue w |}
  end.

Definition w_idle (w : watcher) : bool := match w_pc w with WIdle => true | _ => false end.

(* schedule: true = the watcher makes its next atomic action, false = a request without a route
   is served (one atomic load of the store).  Per request: how many deliveries are still to come,
   whether the watcher was at its channel, and the page the request was answered with *)
Fixpoint sched_run (w : watcher) (sched : list bool) : list (nat * bool * str) :=
  match sched with
  | [] => []
  | true :: r => sched_run (w_step w) r
  | false :: r => (length (w_queue w), w_idle w, w_store w) :: sched_run w r
  end.

(* ================= specification side ================= *)

(* the pages the registry delivered in a history, in order *)
Definition pages_of (h : list nr_step) : list str :=
  flat_map (fun s => match s with NrPage p => [p] | NrReq _ => [] end) h.

(* the configured page after a history: the last one delivered (empty after a removal);
   [init] when nothing was delivered *)
Definition configured_page (init : str) (h : list nr_step) : str := last (pages_of h) init.

(* the configured status: the number itself when it is a three-digit status, 404 otherwise *)
Definition configured_status (status : Z) : Z :=
  if ((100 <=? status) && (status <=? 999))%Z then status else 404%Z.

(* positions of the requests in a history *)
Fixpoint req_positions (i : nat) (h : list nr_step) : list nat :=
  match h with
  | [] => []
  | NrPage _ :: r => req_positions (S i) r
  | NrReq _ :: r => i :: req_positions (S i) r
  end.

(* what every request of the history is to receive: the configured status, no header of fabio's,
   the page configured by the part of the history in front of the request *)
Definition nr_expected (status : Z) (init : str) (h : list nr_step) : list response :=
  map (fun i => {| rs_status := configured_status status; rs_headers := [];
                   rs_body := configured_page init (firstn i h) |}) (req_positions 0 h).

(* the boolean form the check evaluates on the implementation's observables
   (per request: was an upstream contacted, the client's response) *)
Fixpoint nr_spec_go (status : Z) (init : str) (h : list nr_step) (pos : list nat)
         (obs : list (bool * response)) : bool :=
  match pos, obs with
  | [], [] => true
  | i :: pr, (contacted, cl) :: or =>
      negb contacted && (rs_status cl =? configured_status status)%Z
      && beq (rs_body cl) (configured_page init (firstn i h))
      && nr_spec_go status init h pr or
  | _, _ => false
  end.
Definition nr_spec_b (status : Z) (init : str) (h : list nr_step) (obs : list (bool * response)) : bool :=
  nr_spec_go status init h (req_positions 0 h) obs.

(* a history exercises the clause when a page that was in force is removed or replaced
   before a later request *)
Fixpoint nr_changes (stored : str) (h : list nr_step) : nat :=
  match h with
  | [] => 0
  | NrPage p :: r => (if beq p stored then 0 else 1) + nr_changes p r
  | NrReq _ :: r => nr_changes stored r
  end.

(* the observables of a model run in the shape the harness reports them *)
Definition nr_model_obs (m : list (outcome (option upstream * response))) : list (bool * response) :=
  map (fun o => match o with
                | Ok (None, r) => (false, r)
                | Ok (Some _, r) => (true, r)
                | _ => (true, {| rs_status := 0; rs_headers := []; rs_body := [] |})
                end) m.
