(** Model of what SNIProxy.ServeTCP (proxy/tcp/sni_proxy.go:38-98) DECIDES about a connection
    from the bytes its client sends, transcribed branch by branch up to the call of Lookup:
    Peek(9) / clientHelloBufferSize / io.ReadFull of exactly that many bytes /
    readServerName(data[5:]) / the "unable to parse" and "server_name missing" branches.
    [Model.ClientHello.sni_route_name] stops at the parser's result; this is the function
    whose panic ends the whole process (tcp.Server runs ServeTCP on a bare goroutine without
    recover), so its totality is a statement of its own.  Every access to the buffered bytes
    is a checked access: a branch that read [data[i]] without a length check would be [idx data i]
    here and show as [Panic]. *)
From Coq Require Import List NArith Bool.
From Fabio Require Import Lib.Outcome Lib.Bytes Model.ClientHello.
Import ListNotations.
Local Open Scope N_scope.
Local Open Scope outcome_scope.

(* [Dropped]: ServeTCP returned before Lookup (the connection is closed, nothing is dialled);
   [Routed n host]: Lookup(host) is called with [n] bytes buffered for the upstream *)
Inductive serve_decision := Dropped | Routed (n : N) (host : str).

(* [stream] = all the bytes the client will ever send *)
Definition sni_serve (stream : str) : outcome serve_decision :=
  (* tlsReader.Peek(9) fails: fewer than 9 bytes before EOF *)
  if negb (9 <=? nlen stream) then Ok Dropped else
  match client_hello_buffer_size (firstn 9 stream) with
  | Panic => Panic
  | Err _ => Ok Dropped
  | Ok n =>
      (* data := make([]byte, n); io.ReadFull(tlsReader, data) fails: fewer than n bytes *)
      if negb (n <=? nlen stream) then Ok Dropped else
      do data <- slice stream 0 (N.to_nat n);
      do msg <- from data 5;                         (* data[5:] *)
      match read_server_name msg with
      | Panic => Panic
      | Err _ => Ok Dropped                          (* "unable to parse client hello" *)
      | Ok [] => Ok Dropped                          (* "server_name missing" *)
      | Ok host => Ok (Routed n host)
      end
  end.

(* the smallest handshake body a ClientHello can have: version 2, random 32, one length byte
   for the session id, two for the cipher suites, one for the compression methods
   (RFC 5246 7.4.1.2 with every vector empty) *)
Definition min_hello_body : N := 38.
