(** Fixed weights of route targets: the IEEE-754 binary64 values that the route
    command code produces, restricted to zero and to normal numbers with an
    unbounded exponent (no NaN, infinity, subnormals: the harness excludes
    scripts whose weights leave that domain, and [in_range] is checked per case).

    [WP m e] is the positive double  m * 2^e  with 2^52 <= m < 2^53; [WN m e] its
    negation; [WZ] is +0 and -0 (Go's [==], [<], [>] do not distinguish them and
    a weight that is not [> 0] is never printed).

    The only arithmetic the route commands perform on a fixed weight is
      - [weight / float64(n)] in setWeight                    -> [w_divn]
      - [sumFixed += t.FixedWeight] and [1 - sumFixed] (sign) -> [w_add], [w_ge1]
      - [%.4f]                                                -> [w_fmt4]
      - strconv.ParseFloat on a plain decimal                 -> [w_parse_dec]
    Each is computed exactly on rationals and rounded once to nearest-even, which
    is what IEEE-754 prescribes for / and +, what strconv guarantees for parsing
    and what fmt guarantees for %.4f (correct rounding of the exact decimal
    expansion).  No proofs here; the correspondence run compares every weight the
    real code produced with this model bit for bit. *)
From Coq Require Import List NArith ZArith Bool.
From Fabio Require Import Lib.Bytes.
Import ListNotations.
Local Open Scope N_scope.

Inductive wt := WZ | WP (m : N) (e : Z) | WN (m : N) (e : Z).

Definition wt_eqb (a b : wt) : bool :=
  match a, b with
  | WZ, WZ => true
  | WP m e, WP m' e' => (m =? m') && (e =? e')%Z
  | WN m e, WN m' e' => (m =? m') && (e =? e')%Z
  | _, _ => false
  end.

Definition two52 : N := 4503599627370496.
Definition two53 : N := 9007199254740992.

Definition pow2 (e : Z) : N := 2 ^ Z.to_N e.

(* nearest-even double to the positive rational p/q  (p > 0, q > 0) *)
Definition round_q (p q : N) : N * Z :=
  let e0 := (Z.of_N (N.log2 p) - Z.of_N (N.log2 q) - 52)%Z in
  let scale (e : Z) := if (0 <=? e)%Z then (p, q * pow2 e) else (p * pow2 (- e), q) in
  let e := if (fst (scale e0) / snd (scale e0)) <? two52 then (e0 - 1)%Z else e0 in
  let n := fst (scale e) in
  let d := snd (scale e) in
  let m0 := n / d in
  let r := n mod d in
  let m := match 2 * r ?= d with
           | Gt => m0 + 1
           | Eq => if N.odd m0 then m0 + 1 else m0
           | Lt => m0
           end in
  if m =? two53 then (two52, (e + 1)%Z) else (m, e).

(* the rational  m * 2^e  as a fraction *)
Definition frac (m : N) (e : Z) : N * N :=
  if (0 <=? e)%Z then (m * pow2 e, 1) else (m, pow2 (- e)).

Definition w_is_pos (w : wt) : bool := match w with WP _ _ => true | _ => false end.
Definition w_is_neg (w : wt) : bool := match w with WN _ _ => true | _ => false end.

(* addTarget: if fixedWeight < 0 { fixedWeight = 0 } *)
Definition w_clamp (w : wt) : wt := match w with WN _ _ => WZ | _ => w end.

(* weight / float64(n), n >= 1 *)
Definition w_divn (w : wt) (n : N) : wt :=
  match w with
  | WZ => WZ
  | WP m e => let '(p, q) := frac m e in let '(m', e') := round_q p (q * n) in WP m' e'
  | WN m e => let '(p, q) := frac m e in let '(m', e') := round_q p (q * n) in WN m' e'
  end.

(* a + b for a, b >= 0 (the only sums taken: fixed weights > 0 accumulated from 0) *)
Definition w_add (a b : wt) : wt :=
  match a, b with
  | WP m1 e1, WP m2 e2 =>
      let emin := Z.min e1 e2 in
      let s := m1 * pow2 (e1 - emin) + m2 * pow2 (e2 - emin) in
      let '(p, q) := frac s emin in
      let '(m', e') := round_q p q in WP m' e'
  | WZ, x => x
  | x, WZ => x
  | _, _ => WZ      (* negative operands never occur; see header *)
  end.

(* w >= 1 *)
Definition w_ge1 (w : wt) : bool :=
  match w with
  | WP m e => let '(p, q) := frac m e in q <=? p
  | _ => false
  end.

(* round-half-even of w * 10^4 to an integer, for w > 0 (what %.4f prints, times 10^4) *)
Definition w_fmt4 (w : wt) : N :=
  match w with
  | WP m e =>
      let '(p, q) := frac m e in
      let n := p * 10000 in
      let k := n / q in
      let r := n mod q in
      match 2 * r ?= q with
      | Gt => k + 1
      | Eq => if N.odd k then k + 1 else k
      | Lt => k
      end
  | _ => 0
  end.

(* the double nearest to k / 10^d *)
Definition w_of_dec (neg : bool) (k : N) (d : N) : wt :=
  if k =? 0 then WZ else
  let '(m, e) := round_q k (10 ^ d) in
  if neg then WN m e else WP m e.

(* plain decimals  [+-]?digits[.digits]  with at least one digit; None = not of that shape *)
Definition is_digit (c : N) : bool := (48 <=? c) && (c <=? 57).

Fixpoint dec_digits (s : str) (acc : N) (n : N) : option (N * N * str) :=
  match s with
  | c :: s' => if is_digit c then dec_digits s' (acc * 10 + (c - 48)) (n + 1) else Some (acc, n, s)
  | [] => Some (acc, n, [])
  end.

Definition w_parse_dec (s : str) : option wt :=
  let '(neg, s1) := match s with
                    | 45 :: r => (true, r)
                    | 43 :: r => (false, r)
                    | _ => (false, s)
                    end in
  match dec_digits s1 0 0 with
  | Some (ip, ni, 46 :: r) =>
      match dec_digits r ip 0 with
      | Some (k, nf, []) => if (ni + nf =? 0) then None else Some (w_of_dec neg k nf)
      | _ => None
      end
  | Some (ip, ni, []) => if ni =? 0 then None else Some (w_of_dec neg ip 0)
  | _ => None
  end.

(* binary64 normal range: 2^-1022 <= m*2^e with m >= 2^52, and m*2^e < 2^1024 *)
Definition w_in_range (w : wt) : bool :=
  match w with
  | WZ => true
  | WP m e | WN m e => (two52 <=? m) && (m <? two53) && (-1074 <=? e)%Z && (e <=? 971)%Z
  end.
