(** ServiceMonitor.Watch (registry/consul/service.go): the loop AROUND makeConfig -- when the route
    commands of the registered services are published.

        var lastIndex uint64
        for {
            q := QueryOptions{WaitIndex: lastIndex}          (poll mode: no WaitIndex, sleep PollInterval)
            checks, meta, err := Health().State("any", q)    blocks while consul's index <= WaitIndex (WaitIndex 0: never)
            if err != nil { sleep 1 s; continue }
            config, err := makeConfig(passing(checks))       an error when the catalog lookup of ANY passing service fails (c8f84e8)
            if err != nil { sleep 1 s; continue }            lastIndex is NOT advanced: the retry does not wait for consul
            updates <- config
            lastIndex = meta.LastIndex
        }

    Time is abstract: one element of the trace is one turn of the loop (one tick; the 1 s sleep
    after a failed round is the distance between two turns).  What consul holds at a turn is a
    [view]: its index, whether the health query answers an error, and what makeConfig makes of the
    state consul holds (None: a catalog lookup failed).  No proofs in this file. *)
From Coq Require Import List NArith Bool.
From Fabio Require Import Lib.Outcome Lib.Bytes Model.WtF64 Model.TableCmd Model.RouteText Model.RouteCmd.
Import ListNotations.
Local Open Scope N_scope.

Section Loop.
  Variable T : Type.   (* the published configuration *)

  Record view := { v_index : N; v_health_err : bool; v_config : option T }.

  (* the blocking health query stays open: consul has nothing newer than WaitIndex *)
  Definition query_blocks (poll : bool) (last : N) (v : view) : bool :=
    negb poll && negb (last =? 0) && (v_index v <=? last).

  (* one turn of the loop: the new lastIndex and what is sent on the updates channel *)
  Definition watch_turn (poll : bool) (last : N) (v : view) : N * list T :=
    if query_blocks poll last v then (last, [])
    else if v_health_err v then (last, [])                  (* sleep, try again *)
    else match v_config v with
         | None => (last, [])                                (* sleep, try again: the index is NOT remembered *)
         | Some c => (v_index v, [c])
         end.

  (* the loop over a trace of views: the final lastIndex and what was sent at each turn *)
  Fixpoint watch_from (poll : bool) (last : N) (vs : list view) : N * list (list T) :=
    match vs with
    | [] => (last, [])
    | v :: r => let '(l1, out) := watch_turn poll last v in
                let '(l2, outs) := watch_from poll l1 r in (l2, out :: outs)
    end.
  Definition watch_sent (poll : bool) (vs : list view) : list (list T) := snd (watch_from poll 0 vs).

  (* the configuration fabio routes by after a trace: the last one sent *)
  Definition last_sent (outs : list (list T)) : option T := last (map Some (concat outs)) None.

  (* NOT the code: the order of the seeded change C14-M -- the index is remembered right after the
     health query, before makeConfig, and a query that returns the remembered index is skipped.
     Kept for the theorem that the order matters (C14_watch_index_first_refuted). *)
  Definition watch_turn_index_first (poll : bool) (last : N) (v : view) : N * list T :=
    if query_blocks poll last v then (last, [])
    else if v_health_err v then (last, [])
    else if negb poll && negb (last =? 0) && (v_index v =? last) then (last, [])
    else match v_config v with
         | None => (v_index v, [])
         | Some c => (v_index v, [c])
         end.
  Fixpoint watch_from_index_first (poll : bool) (last : N) (vs : list view) : N * list (list T) :=
    match vs with
    | [] => (last, [])
    | v :: r => let '(l1, out) := watch_turn_index_first poll last v in
                let '(l2, outs) := watch_from_index_first poll l1 r in (l2, out :: outs)
    end.
End Loop.
Arguments v_index {T}. Arguments v_health_err {T}. Arguments v_config {T}.
Arguments Build_view {T}.

(* ---- instantiated with makeConfig: consul at one turn ---- *)
Record moment := {
  m_index : N;                (* X-Consul-Index of the health state *)
  m_health_err : bool;        (* the health query answers an error *)
  m_failing : list str;       (* the services whose catalog lookup answers an error *)
  m_regs : list reg           (* the catalog entries of the instances that pass *)
}.

(* serviceConfig looks up every service that has a passing instance, except the empty name *)
Definition lookup_fails (failing : list str) (regs : list reg) : bool :=
  existsb (fun g => negb (beq (g_name g) []) && existsb (beq (g_name g)) failing) regs.

Section Monitor.
  Variable pweight : str -> outcome wt.
  Variable canon : str -> option str.
  Variable glob_ok : str -> bool.
  Variable env : env_t.
  Variable prefix : str.

  (* makeConfig on the passing instances: all commands, reverse-sorted, joined *)
  Definition monitor_text (regs : list reg) : str :=
    config_text (sort_lines_desc (flat_map (build pweight canon glob_ok env prefix) regs)).
  Definition monitor_config (failing : list str) (regs : list reg) : option str :=
    if lookup_fails failing regs then None else Some (monitor_text regs).

  Definition view_of (m : moment) : view str :=
    {| v_index := m_index m; v_health_err := m_health_err m; v_config := monitor_config (m_failing m) (m_regs m) |}.
  Definition readable (m : moment) : bool := negb (m_health_err m) && negb (lookup_fails (m_failing m) (m_regs m)).

  Definition monitor_sent (poll : bool) (ms : list moment) : list (list str) := watch_sent str poll (map view_of ms).

  (* phases: consul stays as it is for a number of turns; what is sent during each phase *)
  Fixpoint monitor_phases (poll : bool) (last : N) (phases : list (moment * nat)) : list (list str) :=
    match phases with
    | [] => []
    | (m, n) :: r => let '(l1, outs) := watch_from str poll last (repeat (view_of m) n) in
                     concat outs :: monitor_phases poll l1 r
    end.
End Monitor.
