(** C08, specification side: the property's clauses as boolean predicates on what
    an observer sees (header map at the upstream [up], Strict-Transport-Security
    values at the client [sts]) and on what the CLIENT did (its header map [hdr],
    the Host it asked for, whether its connection used TLS, its peer address).
    Nothing here mentions [add_headers]/[serve]: the clauses are stated on
    observables only.  Definitions only (used by Proofs.Headers and Check.C08). *)
From Coq Require Import String List NArith ZArith Bool.
From Fabio Require Import Lib.Outcome Lib.Bytes Model.Headers.
Import ListNotations.
Local Open Scope N_scope.

Definition veq (a b : option (list str)) : bool := opt_eqb (list_eqb beq) a b.

(* header maps a client can produce: no key with an empty value slice *)
Definition wf_hdr (h : hmap) : bool :=
  forallb (fun kv => match snd kv with [] => false | _ => true end) h.

(* ---- configurations the clauses are stated for: the configured header names are
   header tokens, differ from each other, from the names fabio manages itself, and
   from the hop-by-hop names (ClientIPHeader may be X-Forwarded-For / X-Real-Ip in
   any case: those get their own clause) ---- *)
Definition builtin_keys : list str := [K_XFF; K_XRI; K_XFP; K_XFPORT; K_XFH; K_XFPREFIX; K_FWD].
Definition reserved_keys : list str :=
  hop_headers ++ [bs "User-Agent"; bs "Host"; bs "Content-Length"].
Definition mem (k : str) (l : list str) : bool := existsb (beq k) l.

Definition name_ok (n : str) : bool :=
  forallb is_token_byte n && negb (mem (canon_key n) reserved_keys).

Definition cfg_sane (cfg : config) : bool :=
  let cih := canon_key (c_clientip cfg) in
  let th := canon_key (c_tlsheader cfg) in
  let rid := canon_key (c_reqid cfg) in
  (sempty (c_clientip cfg) ||
     name_ok (c_clientip cfg) && negb (mem cih [K_XFP; K_XFPORT; K_XFH; K_XFPREFIX; K_FWD])) &&
  (sempty (c_tlsheader cfg) ||
     name_ok (c_tlsheader cfg) && negb (mem th builtin_keys) &&
     (sempty (c_clientip cfg) || negb (beq th cih))) &&
  (sempty (c_reqid cfg) ||
     name_ok (c_reqid cfg) && negb (mem rid builtin_keys) &&
     (sempty (c_clientip cfg) || negb (beq rid cih)) &&
     (sempty (c_tlsheader cfg) || negb (beq rid th))).

(* ---- former finding regions (predicates on INPUTS).  All four defects have been repaired in
   /repo; the predicates are kept for the refutation theorems about the [_unrepaired]
   definitions and no longer restrict any theorem about the current code ---- *)
(* 1 (REPAIRED by 7dd13e1, no longer a region of the current code): the route's host= option
      changed r.Host before addHeaders ran.  Kept for the refutation theorem about
      [serve_host_first_unrepaired]. *)
Definition F_host_rewrite (t : target) (host : str) : bool :=
  negb (beq (rewritten_host t host) host).
(* 2 (REPAIRED by afbb806, no longer a region of the current code): Upgrade: Websocket
      (capital W) went to the websocket handler, which relies on addHeaders for
      X-Forwarded-For, but addHeaders only knew "websocket".  The predicate is kept for the
      refutation theorem about the unrepaired definitions. *)
Definition F_capital_websocket (hdr : hmap) : bool :=
  beq (hget hdr K_UPGRADE) (bs "Websocket").
(* 3 (REPAIRED by 35aa11b): ClientIPHeader is exactly "X-Real-Ip" and the client sent one *)
Definition F_cih_xrealip_forged (cfg : config) (hdr : hmap) : bool :=
  beq (c_clientip cfg) K_XRI && negb (sempty (hget hdr K_XRI)).
(* 4 (REPAIRED by 216337c): (requests that do not take the websocket path) the client's
      Connection header names the managed header [k]: httputil.ReverseProxy deleted it after
      fabio had set it; addHeaders now removes such names from Connection *)
Definition F_conn_lists (hdr : hmap) (k : str) : bool :=
  negb (is_ws hdr) && existsb (fun tok => beq (canon_key tok) k) (conn_tokens hdr).

(* ---- clauses ---- *)
Definition last_elem_is (v peer : str) : bool :=
  beq v peer || has_suffix v (bs ", " ++ peer).

Definition cl_xff (up : hmap) (peer : str) : bool :=
  match hfind up K_XFF with Some [v] => last_elem_is v peer | _ => false end.

Definition cl_clientip (cfg : config) (up : hmap) (peer : str) : bool :=
  veq (hfind up (canon_key (c_clientip cfg))) (Some [peer]).

Definition cl_xri (hdr up : hmap) (peer : str) : bool :=
  veq (hfind up K_XRI) (Some [peer]) ||
  (negb (sempty (hget hdr K_XRI)) && veq (hfind up K_XRI) (hfind hdr K_XRI)).

Definition cl_tls (cfg : config) (tls : bool) (up : hmap) : bool :=
  if tls then veq (hfind up (canon_key (c_tlsheader cfg))) (Some [c_tlsvalue cfg])
  else veq (hfind up (canon_key (c_tlsheader cfg))) None.

(* the client sent neither X-Forwarded-Proto nor Forwarded *)
Definition fresh (hdr : hmap) : bool := sempty (hget hdr K_XFP) && sempty (hget hdr K_FWD).

Definition true_scheme (tls : bool) : str := if tls then bs "https" else bs "http".

Definition cl_proto (tls : bool) (up : hmap) : bool :=
  veq (hfind up K_XFP) (Some [true_scheme tls]).

Definition cl_port (host : str) (tls : bool) (up : hmap) : bool :=
  veq (hfind up K_XFPORT) (Some [local_port host tls]).

Definition cl_host (host : str) (up : hmap) : bool :=
  veq (hfind up K_XFH) (Some [host]).

(* [v] is [base] possibly followed by further ";"-separated items *)
Definition starts_item (v base : str) : bool := beq v base || has_prefix v (base ++ [59]).

Definition cl_fwd (hdr : hmap) (peer : str) (tls : bool) (up : hmap) : bool :=
  match hfind up K_FWD with
  | Some [v] =>
      if negb (sempty (hget hdr K_FWD)) then has_prefix v (hget hdr K_FWD)      (* appended to only *)
      else if fresh hdr then
        existsb (fun p => starts_item v (bs "for=" ++ peer ++ bs "; proto=" ++ p))
                (if tls then [bs "https"; bs "wss"] else [bs "http"; bs "ws"])
      else has_prefix v (bs "for=" ++ peer ++ bs "; proto=")
  | _ => false
  end.

Definition cl_sts (cfg : config) (tls : bool) (sts : list str) : bool :=
  match sts with
  | [] => negb (tls && (0 <? c_sts_maxage cfg)%Z)
  | [v] => tls && has_prefix v (bs "max-age=")
  | _ => false
  end.

(* ---- one observation = the list of (clause holds?, region that explains a failure).
   No open finding region is left: every explanation is [None], i.e. any failing clause
   is a violation (the second component is kept so that the driver code in Check is unchanged) ---- *)

(* [xff_here]: X-Forwarded-For is expected at this observation point *)
Definition clauses (cfg : config) (hdr : hmap) (peer host : str) (tls : bool)
           (xff_here : bool) (up : hmap) : list (bool * option N) :=
  let cih := canon_key (c_clientip cfg) in
  [ (* configured client-IP header carries the peer *)
    (sempty (c_clientip cfg) ||
     (if beq cih K_XFF then negb xff_here || negb (wf_hdr hdr) || cl_xff up peer
      else cl_clientip cfg up peer), None);
    (negb xff_here || negb (wf_hdr hdr) || cl_xff up peer, None);
    (cl_xri hdr up peer, None);
    (sempty (c_tlsheader cfg) || cl_tls cfg tls up, None);
    (negb (fresh hdr) || cl_proto tls up, None);
    (negb (sempty (hget hdr K_XFPORT)) || cl_port host tls up, None);
    (negb (sempty (hget hdr K_XFH)) || sempty host || cl_host host up, None);
    (cl_fwd hdr peer tls up, None) ].

Definition all_hold (l : list (bool * option N)) : bool := forallb fst l.

(* Some k: every failing clause is explained by a region, k = the first one's *)
Definition failing_region (l : list (bool * option N)) : option N :=
  match filter (fun c => negb (fst c)) l with
  | [] => None
  | (_, r) :: rest =>
      if forallb (fun c => match snd c with Some _ => true | None => false end) rest then r else None
  end.
