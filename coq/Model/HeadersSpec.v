(** C08, specification side: the property's clauses as boolean predicates on what
    an observer sees (header map at the upstream [up], Strict-Transport-Security
    values at the client [sts]) and on what the CLIENT did (its header map [hdr],
    the Host it asked for, whether its connection used TLS, its peer address).
    Nothing here mentions [add_headers]/[serve]: the clauses are stated on
    observables only.  Definitions only (used by Proofs.Headers and Check.C08). *)
From Coq Require Import String List NArith ZArith Bool.
From Fabio Require Import Lib.Outcome Lib.Bytes Model.Headers.
Import ListNotations.
Local Open Scope N_scope.

Definition veq (a b : option (list str)) : bool := opt_eqb (list_eqb beq) a b.

(* header maps a client can produce: no key with an empty value slice *)
Definition wf_hdr (h : hmap) : bool :=
  forallb (fun kv => match snd kv with [] => false | _ => true end) h.

(* ---- configurations the clauses are stated for: the configured header names are
   header tokens, differ from each other, from the names fabio manages itself, and
   from the hop-by-hop names (ClientIPHeader may be X-Forwarded-For / X-Real-Ip in
   any case: those get their own clause) ---- *)
Definition builtin_keys : list str := [K_XFF; K_XRI; K_XFP; K_XFPORT; K_XFH; K_XFPREFIX; K_FWD].
Definition reserved_keys : list str :=
  hop_headers ++ [bs "User-Agent"; bs "Host"; bs "Content-Length"].
Definition mem (k : str) (l : list str) : bool := existsb (beq k) l.

Definition name_ok (n : str) : bool :=
  forallb is_token_byte n && negb (mem (canon_key n) reserved_keys).

Definition cfg_sane (cfg : config) : bool :=
  let cih := canon_key (c_clientip cfg) in
  let th := canon_key (c_tlsheader cfg) in
  let rid := canon_key (c_reqid cfg) in
  (sempty (c_clientip cfg) ||
     name_ok (c_clientip cfg) && negb (mem cih [K_XFP; K_XFPORT; K_XFH; K_XFPREFIX; K_FWD])) &&
  (sempty (c_tlsheader cfg) ||
     name_ok (c_tlsheader cfg) && negb (mem th builtin_keys) &&
     (sempty (c_clientip cfg) || negb (beq th cih))) &&
  (sempty (c_reqid cfg) ||
     name_ok (c_reqid cfg) && negb (mem rid builtin_keys) &&
     (sempty (c_clientip cfg) || negb (beq rid cih)) &&
     (sempty (c_tlsheader cfg) || negb (beq rid th))).

(* "k differs from the configured name, or no name is configured" (hypotheses of the theorems) *)
Definition off (k name : str) : Prop := name = [] \/ canon_key name <> k.

(* the items addHeaders appends to the Forwarded value (by=, httpproto=, tlsver=, tlscipher=) *)
Definition fwd_items (cfg : config) (r : request) : str :=
  (if sempty (c_localip cfg) then [] else bs "; by=" ++ c_localip cfg) ++
  (if sempty (r_proto r) then [] else bs "; httpproto=" ++ lower (r_proto r)) ++
  (match r_tls r with Some (v, _) => if 0 <? v then bs "; tlsver=" ++ tls_ver_name v else [] | None => [] end) ++
  (match r_tls r with Some (_, cs) => if negb (cs =? 0) then bs "; tlscipher=" ++ uint16base16 cs else [] | None => [] end).

(* concrete configurations / requests / targets the witness theorems are stated about *)
Definition ex_cfg : config :=
  {| c_clientip := bs "X-Client-Ip"; c_tlsheader := bs "X-Tls"; c_tlsvalue := bs "true"; c_localip := [];
     c_reqid := []; c_sts_maxage := 31536000%Z; c_sts_sub := false; c_sts_preload := false |}.
Definition ex_cfg_xri : config :=
  {| c_clientip := bs "X-Real-Ip"; c_tlsheader := []; c_tlsvalue := []; c_localip := [];
     c_reqid := []; c_sts_maxage := 0%Z; c_sts_sub := false; c_sts_preload := false |}.
Definition ex_peer : str := bs "1.2.3.4".
Definition ex_req (tls : option (N * N)) (hdr : hmap) : request :=
  {| r_peer := Some ex_peer; r_host := bs "example.com"; r_tls := tls; r_proto := bs "HTTP/1.1"; r_hdr := hdr |}.
Definition ex_tgt (hostopt : str) : target :=
  {| t_host := hostopt; t_url_host := bs "10.0.0.9:9000"; t_strip := [] |}.
Definition ex_conn_hdr : hmap := [(K_CONN, [bs "X-Client-Ip, X-Real-Ip"; bs "x-tls"])].

(* ---- the port a Host header value names, declaratively (RFC 3986 authority = host [":" port],
   IP-literal in brackets), written with strings.Split-style decomposition and independent of
   [split_host_port]/[local_port]'s index arithmetic:
     "[" a "]:" p   ->  p      (a, p non-empty, no further brackets, p without colon)
     a ":" p        ->  p      (exactly one colon, a, p non-empty, no brackets)
     anything else  ->  the connection's default port (no port, bracketed literal alone,
                        several colons without brackets, empty host, trailing colon, stray brackets) ---- *)
Definition clean (s : str) : bool := negb (has_byte s 91) && negb (has_byte s 93).

Definition spec_port (host : str) (tls : bool) : str :=
  match host with
  | 91 :: rest =>
      match split_byte rest 93 with
      | [a; 58 :: p] =>
          if negb (sempty a) && negb (sempty p) && negb (has_byte a 91) && clean p && negb (has_byte p 58)
          then p else default_port tls
      | _ => default_port tls
      end
  | _ =>
      match split_byte host 58 with
      | [a; p] => if negb (sempty a) && negb (sempty p) && clean a && clean p then p else default_port tls
      | _ => default_port tls
      end
  end.

(* ---- finding regions (predicates on INPUTS).  Regions 1-4 (and the localPort defect, which
   never had a region) have been repaired in /repo; their predicates are kept for the refutation
   theorems about the [_unrepaired] definitions.  Regions 5 and 6 are OPEN: fabio trusts a
   Forwarded / X-Forwarded-Proto header the client sent when it derives the other one (a design
   decision: a proxy in front of fabio is believed), so the supplied header does not describe the
   client's actual connection ---- *)
(* 1 (REPAIRED by 7dd13e1, no longer a region of the current code): the route's host= option
      changed r.Host before addHeaders ran.  Kept for the refutation theorem about
      [serve_host_first_unrepaired]. *)
Definition F_host_rewrite (t : target) (host : str) : bool :=
  negb (beq (rewritten_host t host) host).
(* 2 (REPAIRED by afbb806, no longer a region of the current code): Upgrade: Websocket
      (capital W) went to the websocket handler, which relies on addHeaders for
      X-Forwarded-For, but addHeaders only knew "websocket".  The predicate is kept for the
      refutation theorem about the unrepaired definitions. *)
Definition F_capital_websocket (hdr : hmap) : bool :=
  beq (hget hdr K_UPGRADE) (bs "Websocket").
(* 3 (REPAIRED by 35aa11b): ClientIPHeader is exactly "X-Real-Ip" and the client sent one *)
Definition F_cih_xrealip_forged (cfg : config) (hdr : hmap) : bool :=
  beq (c_clientip cfg) K_XRI && negb (sempty (hget hdr K_XRI)).
(* 4 (REPAIRED by 216337c): (requests that do not take the websocket path) the client's
      Connection header names the managed header [k]: httputil.ReverseProxy deleted it after
      fabio had set it; addHeaders now removes such names from Connection *)
Definition F_conn_lists (hdr : hmap) (k : str) : bool :=
  negb (is_ws hdr) && existsb (fun tok => beq (canon_key tok) k) (conn_tokens hdr).

(* 5 (OPEN, F-C08-6): no X-Forwarded-Proto but a Forwarded header with a proto= item:
      scheme() takes the proto from it and addHeaders supplies X-Forwarded-Proto with that value *)
Definition F_fwd_proto_trusted (hdr : hmap) : bool :=
  sempty (hget hdr K_XFP) && contains (hget hdr K_FWD) (bs "proto=").
(* 6 (OPEN, F-C08-7): no Forwarded but an X-Forwarded-Proto header: the generated Forwarded
      carries proto=<that value> *)
Definition F_xfp_trusted (hdr : hmap) : bool :=
  sempty (hget hdr K_FWD) && negb (sempty (hget hdr K_XFP)).

(* ---- clauses ---- *)
Definition last_elem_is (v peer : str) : bool :=
  beq v peer || has_suffix v (bs ", " ++ peer).

Definition cl_xff (up : hmap) (peer : str) : bool :=
  match hfind up K_XFF with Some [v] => last_elem_is v peer | _ => false end.

Definition cl_clientip (cfg : config) (up : hmap) (peer : str) : bool :=
  veq (hfind up (canon_key (c_clientip cfg))) (Some [peer]).

Definition cl_xri (hdr up : hmap) (peer : str) : bool :=
  veq (hfind up K_XRI) (Some [peer]) ||
  (negb (sempty (hget hdr K_XRI)) && veq (hfind up K_XRI) (hfind hdr K_XRI)).

Definition cl_tls (cfg : config) (tls : bool) (up : hmap) : bool :=
  if tls then veq (hfind up (canon_key (c_tlsheader cfg))) (Some [c_tlsvalue cfg])
  else veq (hfind up (canon_key (c_tlsheader cfg))) None.

(* the client sent neither X-Forwarded-Proto nor Forwarded *)
Definition fresh (hdr : hmap) : bool := sempty (hget hdr K_XFP) && sempty (hget hdr K_FWD).

Definition true_scheme (tls : bool) : str := if tls then bs "https" else bs "http".

Definition cl_proto (tls : bool) (up : hmap) : bool :=
  veq (hfind up K_XFP) (Some [true_scheme tls]).

(* [port] = the port the clause expects: [spec_port host tls] in the correspondence check,
   [local_port host tls] in the theorems (the two are proved equal on every syntactic shape of
   Host, Properties C08_port_*, and compared on every generated Host) *)
Definition cl_port (port : str) (up : hmap) : bool :=
  veq (hfind up K_XFPORT) (Some [port]).

Definition cl_host (host : str) (up : hmap) : bool :=
  veq (hfind up K_XFH) (Some [host]).

(* [v] is [base] possibly followed by further ";"-separated items *)
Definition starts_item (v base : str) : bool := beq v base || has_prefix v (base ++ [59]).

(* Forwarded: a value the client sent is only appended to; a generated one starts with
   for=<peer>; proto=<p> where p describes the connection (http/ws on plain, https/wss on TLS) *)
Definition cl_fwd (hdr : hmap) (peer : str) (tls : bool) (up : hmap) : bool :=
  match hfind up K_FWD with
  | Some [v] =>
      if negb (sempty (hget hdr K_FWD)) then has_prefix v (hget hdr K_FWD)      (* appended to only *)
      else
        existsb (fun p => starts_item v (bs "for=" ++ peer ++ bs "; proto=" ++ p))
                (if tls then [bs "https"; bs "wss"] else [bs "http"; bs "ws"])
  | _ => false
  end.

(* [sts] = the Strict-Transport-Security values fabio itself put on the response (values the
   upstream's own response carried are passed through by ReverseProxy and are not fabio's).
   "only on TLS": presence on TLS with max-age > 0 is the configuration's meaning, not the
   property's, and is left to the correspondence (same), not demanded here. *)
Definition cl_sts (cfg : config) (tls : bool) (sts : list str) : bool :=
  match sts with
  | [] => true
  | [v] => tls && has_prefix v (bs "max-age=")
  | _ => false
  end.

(* ---- one observation = the list of (clause holds?, region that explains a failure) ---- *)
Definition expl (l : list (bool * N)) : option N :=
  match filter fst l with (_, k) :: _ => Some k | [] => None end.

(* [xff_here]: X-Forwarded-For is expected at this observation point; [port]: see cl_port *)
Definition clauses (cfg : config) (hdr : hmap) (peer host port : str) (tls : bool)
           (xff_here : bool) (up : hmap) : list (bool * option N) :=
  let cih := canon_key (c_clientip cfg) in
  [ (* configured client-IP header carries the peer *)
    (sempty (c_clientip cfg) ||
     (if beq cih K_XFF then negb xff_here || negb (wf_hdr hdr) || cl_xff up peer
      else cl_clientip cfg up peer), None);
    (negb xff_here || negb (wf_hdr hdr) || cl_xff up peer, None);
    (cl_xri hdr up peer, None);
    (sempty (c_tlsheader cfg) || cl_tls cfg tls up, None);
    (* X-Forwarded-Proto supplied when absent describes the connection (no [fresh] gating) *)
    (negb (sempty (hget hdr K_XFP)) || cl_proto tls up, expl [(F_fwd_proto_trusted hdr, 5)]);
    (negb (sempty (hget hdr K_XFPORT)) || cl_port port up, None);
    (negb (sempty (hget hdr K_XFH)) || sempty host || cl_host host up, None);
    (cl_fwd hdr peer tls up, expl [(F_xfp_trusted hdr, 6)]) ].

Definition all_hold (l : list (bool * option N)) : bool := forallb fst l.

(* Some k: every failing clause is explained by a region, k = the first one's *)
Definition failing_region (l : list (bool * option N)) : option N :=
  match filter (fun c => negb (fst c)) l with
  | [] => None
  | (_, r) :: rest =>
      if forallb (fun c => match snd c with Some _ => true | None => false end) rest then r else None
  end.

(* no open region applies to this input *)
Definition no_region (hdr : hmap) : bool :=
  negb (F_fwd_proto_trusted hdr) && negb (F_xfp_trusted hdr).
