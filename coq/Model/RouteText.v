(** The route command language as text:
    route/parse_new.go  Parse, parseRouteAdd/Del/Weight, parseTags, parseOpts (the parser);
    route/table.go      NewTable, Table.config/String;  route/route.go  TargetConfig, config
                        (the renderer).

    The anchored regular expressions are modelled by a deterministic scanner.  That is an
    equivalence, not an approximation: every [\S+] is delimited by [\s+] / a literal / [$] on
    both sides, [\s] and [\S] are complementary classes, the optional groups start with
    distinct keywords and the quoted clauses (quote, non-quotes, quote) end at the first quote, so RE2's
    leftmost-first search has at most one way to match and the scanner finds it.

    Domain: ASCII text (every byte < 128; the harness excludes anything else), lines shorter
    than bufio.Scanner's 64 KiB token limit.  [\s] of RE2 is [\t\n\f\r ]; strings.TrimSpace and
    strings.Fields use unicode.IsSpace, which on ASCII adds \v.

    parseWeight's number reader -- strconv.ParseFloat followed, since /repo 0b2a40e, by the rejection
    of NaN and +-Inf -- is a parameter [pweight] of the parser (Err = 'weight value invalid');
    [pweight_dec] is the in-model instance for plain decimals (all the renderer ever prints),
    compared with strconv on every weight literal of every generated case.
    No proofs in this file. *)
From Coq Require Import List NArith Bool.
From Fabio Require Import Lib.Outcome Lib.Bytes Model.WtF64 Model.TableCmd.
Import ListNotations.
Local Open Scope N_scope.
Local Open Scope outcome_scope.

(* parser error kinds (by message) *)
Definition e_route_expected : N := 1.   (* 'syntax error: 'route' expected' *)
Definition e_add_invalid : N := 2.      (* 'syntax error: 'route add' invalid' *)
Definition e_del_invalid : N := 3.      (* 'syntax error: 'route del' invalid' *)
Definition e_weight_invalid : N := 4.   (* 'syntax error: 'route weight' invalid' *)
Definition e_weight_value : N := 5.     (* 'syntax error: weight value invalid' *)

Definition re_space (c : N) : bool := (c =? 9) || (c =? 10) || (c =? 12) || (c =? 13) || (c =? 32).
Definition go_space (c : N) : bool := re_space c || (c =? 11).

Fixpoint drop_while (p : N -> bool) (s : str) : str :=
  match s with
  | c :: s' => if p c then drop_while p s' else s
  | [] => []
  end.

Fixpoint span (p : N -> bool) (s : str) : str * str :=
  match s with
  | c :: s' => if p c then let '(a, b) := span p s' in (c :: a, b) else ([], s)
  | [] => ([], [])
  end.

(* strings.TrimSpace on ASCII *)
Definition trim_space (s : str) : str := rev (drop_while go_space (rev (drop_while go_space s))).

(* strings.Fields on ASCII *)
Fixpoint fields_aux (s : str) (cur : str) : list str :=
  match s with
  | [] => match cur with [] => [] | _ => [rev cur] end
  | c :: s' => if go_space c
               then match cur with [] => fields_aux s' [] | _ => rev cur :: fields_aux s' [] end
               else fields_aux s' (c :: cur)
  end.
Definition fields (s : str) : list str := fields_aux s [].

(* ---- scanner primitives; [option]: None = this regular expression does not match ---- *)
Definition obind {A B} (o : option A) (f : A -> option B) : option B :=
  match o with Some a => f a | None => None end.
Local Notation "'let?' x := o 'in' k" := (obind o (fun x => k)) (at level 200, x name, right associativity).
Local Notation "'let?' ' p := o 'in' k" := (obind o (fun x => match x with p => k end))
  (at level 200, p pattern, right associativity).

(* \s+ *)
Definition ws1 (s : str) : option str :=
  match span re_space s with ([], _) => None | (_, r) => Some r end.
(* (\S+) *)
Definition tok (s : str) : option (str * str) :=
  match span (fun c => negb (re_space c)) s with ([], _) => None | (t, r) => Some (t, r) end.
(* a literal *)
Definition lit (l s : str) : option str :=
  if has_prefix s l then Some (skipn (length l) s) else None.
(* a quoted clause: quote, any non-quote bytes, quote *)
Definition quoted (s : str) : option (str * str) :=
  match s with
  | 34 :: r => match span (fun c => negb (c =? 34)) r with
               | (q, 34 :: r') => Some (q, r')
               | _ => None
               end
  | _ => None
  end.
(* $ *)
Definition at_end (s : str) : bool := match s with [] => true | _ => false end.

Definition k_route : str := [114;111;117;116;101].
Definition k_add : str := [97;100;100].
Definition k_del : str := [100;101;108].
Definition k_weight : str := [119;101;105;103;104;116].
Definition k_tags : str := [116;97;103;115].
Definition k_opts : str := [111;112;116;115].

(* \s+<kw>\s+ followed by a token / a quoted clause; optional groups fall back to 'absent' *)
Definition kw_tok (kw : str) (s : str) : option (str * str) :=
  let? r := ws1 s in let? r := lit kw r in let? r := ws1 r in tok r.
Definition kw_quoted (kw : str) (s : str) : option (str * str) :=
  let? r := ws1 s in let? r := lit kw r in let? r := ws1 r in quoted r.
Definition opt_group (g : str -> option (str * str)) (s : str) : option str * str :=
  match g s with Some (v, r) => (Some v, r) | None => (None, s) end.

(* ---- parseTags / parseOpts ---- *)
Definition parse_tags (s : str) : list str :=
  match s with [] => [] | _ => map trim_space (split_byte s 44) end.

Fixpoint opt_insert (k v : str) (m : list (str * str)) : list (str * str) :=
  match m with
  | [] => [(k, v)]
  | (k', v') :: m' =>
      match str_cmp k k' with
      | Eq => (k, v) :: m'
      | Lt => (k, v) :: m
      | Gt => (k', v') :: opt_insert k v m'
      end
  end.

Definition split_eq (f : str) : str * str :=
  match index_byte f 61 with
  | None => (f, [])
  | Some i => (firstn i f, skipn (S i) f)
  end.

Definition parse_opts (s : str) : list (str * str) :=
  fold_left (fun m f => let '(k, v) := split_eq f in opt_insert k v m) (fields s) [].

Section Parser.
  (* strconv.ParseFloat(s, 64) on a non-empty token: Ok w, or Err when it reports an error *)
  Variable pweight : str -> outcome wt.

  Definition parse_weight (o : option str) : outcome wt :=
    match o with None => Ok WZ | Some [] => Ok WZ | Some s => pweight s end.

  Definition mk (c : cmd) svc src dst w tags opts : def :=
    {| d_cmd := c; d_svc := svc; d_src := src; d_dst := dst; d_w := w; d_tags := tags; d_opts := opts |}.

  Definition ostr (o : option str) : str := match o with Some s => s | None => [] end.

  (* reAdd; [s] is what follows 'route\s+add' *)
  Definition match_add (s : str) : option (str * str * str * option str * option str * option str) :=
    let? r := ws1 s in let? '(svc, r) := tok r in
    let? r := ws1 r in let? '(src, r) := tok r in
    let? r := ws1 r in let? '(dst, r) := tok r in
    let '(w, r) := opt_group (kw_tok k_weight) r in
    let '(tg, r) := opt_group (kw_quoted k_tags) r in
    let '(op, r) := opt_group (kw_quoted k_opts) r in
    if at_end r then Some (svc, src, dst, w, tg, op) else None.

  Definition parse_route_add (s : str) : outcome def :=
    match match_add s with
    | Some (svc, src, dst, w, tg, op) =>
        (* the Go code returns the def and the error together; Parse discards the def *)
        match parse_weight w with
        | Ok f => Ok (mk CmdAdd svc src dst f (parse_tags (ostr tg)) (parse_opts (ostr op)))
        | _ => Err e_weight_value
        end
    | None => Err e_add_invalid
    end.

  (* reDelSvcTags, reDelTags, reDel in that order *)
  Definition match_del_svc_tags (s : str) : option (str * str) :=
    let? r := ws1 s in let? '(svc, r) := tok r in
    let? '(tg, r) := kw_quoted k_tags r in
    if at_end r then Some (svc, tg) else None.
  Definition match_del_tags (s : str) : option str :=
    let? '(tg, r) := kw_quoted k_tags s in
    if at_end r then Some tg else None.
  Definition match_del (s : str) : option (str * option str * option str) :=
    let? r := ws1 s in let? '(svc, r) := tok r in
    match (let? r1 := ws1 r in tok r1) with
    | None => if at_end r then Some (svc, None, None) else None
    | Some (src, r) =>
        match (let? r1 := ws1 r in tok r1) with
        | None => if at_end r then Some (svc, Some src, None) else None
        | Some (dst, r) => if at_end r then Some (svc, Some src, Some dst) else None
        end
    end.

  Definition parse_route_del (s : str) : outcome def :=
    match match_del_svc_tags s with
    | Some (svc, tg) => Ok (mk CmdDel svc [] [] WZ (parse_tags tg) [])
    | None =>
    match match_del_tags s with
    | Some tg => Ok (mk CmdDel [] [] [] WZ (parse_tags tg) [])
    | None =>
    match match_del s with
    | Some (svc, src, dst) => Ok (mk CmdDel svc (ostr src) (ostr dst) WZ [] [])
    | None => Err e_del_invalid
    end end end.

  (* reWeightSvc, reWeightSrc in that order *)
  Definition match_weight_svc (s : str) : option (str * str * str * option str) :=
    let? r := ws1 s in let? '(svc, r) := tok r in
    let? r := ws1 r in let? '(src, r) := tok r in
    let? '(w, r) := kw_tok k_weight r in
    let '(tg, r) := opt_group (kw_quoted k_tags) r in
    if at_end r then Some (svc, src, w, tg) else None.
  Definition match_weight_src (s : str) : option (str * str * str) :=
    let? r := ws1 s in let? '(src, r) := tok r in
    let? '(w, r) := kw_tok k_weight r in
    let? '(tg, r) := kw_quoted k_tags r in
    if at_end r then Some (src, w, tg) else None.

  Definition parse_route_weight (s : str) : outcome def :=
    match match_weight_svc s with
    | Some (svc, src, w, tg) =>
        match parse_weight (Some w) with
        | Ok f => Ok (mk CmdWeight svc src [] f (parse_tags (ostr tg)) [])
        | _ => Err e_weight_value
        end
    | None =>
    match match_weight_src s with
    | Some (src, w, tg) =>
        match parse_weight (Some w) with
        | Ok f => Ok (mk CmdWeight [] src [] f (parse_tags tg) [])
        | _ => Err e_weight_value
        end
    | None => Err e_weight_invalid
    end end.

  (* one (already trimmed) line: None = comment or blank *)
  Definition is_comment (s : str) : bool :=
    match s with 35 :: _ => true | 47 :: 47 :: _ => true | _ => false end.

  (* ^route\s+<kw> : what follows the keyword *)
  Definition route_kw (kw : str) (s : str) : option str :=
    let? r := lit k_route s in let? r := ws1 r in lit kw r.

  Definition parse_line (line : str) : outcome (option def) :=
    let s := trim_space line in
    if is_comment s || at_end s then Ok None else
    match route_kw k_add s with
    | Some r => do d <- parse_route_add r; Ok (Some d)
    | None =>
    match route_kw k_del s with
    | Some r => do d <- parse_route_del r; Ok (Some d)
    | None =>
    match route_kw k_weight s with
    | Some r => do d <- parse_route_weight r; Ok (Some d)
    | None => Err e_route_expected
    end end end.

  (* bufio.ScanLines: split at \n, drop one trailing \r *)
  Definition drop_cr (l : str) : str :=
    match rev l with 13 :: r => rev r | _ => l end.

  Fixpoint parse_lines (ls : list str) : outcome (list def) :=
    match ls with
    | [] => Ok []
    | l :: ls' =>
        do o <- parse_line (drop_cr l);
        do ds <- parse_lines ls';
        Ok (match o with Some d => d :: ds | None => ds end)
    end.

  (* route.Parse *)
  Definition parse (text : str) : outcome (list def) := parse_lines (split_byte text 10).

  (* route.NewTable *)
  Definition new_table (canon : str -> option str) (glob_ok : str -> bool) (text : str) : outcome table :=
    do ds <- parse text;
    do t <- run canon glob_ok ds;
    Ok (sort_table t).

  (* NewTable before /repo commit b80fb7f (del / weight did not lower-case the host);
     used by the refutation theorems only *)
  Definition new_table_unrepaired (canon : str -> option str) (glob_ok : str -> bool) (text : str) : outcome table :=
    do ds <- parse text;
    do t <- run_unrepaired canon glob_ok ds;
    Ok (sort_table t).
End Parser.

(* strconv.ParseFloat restricted to plain decimals; anything else is outside this instance *)
Definition pweight_dec (s : str) : outcome wt :=
  match w_parse_dec s with Some w => Ok w | None => Err e_weight_value end.

(* ================= rendering ================= *)

(* which targets have an effective Weight > 0 after weighTargets (route.go:215-256): all of them
   unless some fixed weight is set; then the fixed ones, and the dynamic ones iff sumFixed < 1 *)
Definition sum_fixed (ts : list target) : wt :=
  fold_left (fun acc t => if w_is_pos (t_fw t) then w_add acc (t_fw t) else acc) ts WZ.
Definition live (ts : list target) (t : target) : bool :=
  w_is_pos (t_fw t) || negb (w_ge1 (sum_fixed ts)).

Definition hexdig (n : N) : N := if n <? 10 then 48 + n else 87 + n.

(* strconv.Quote on ASCII bytes (what %q prints) *)
Definition quote_byte (c : N) : str :=
  if c =? 34 then [92; 34] else
  if c =? 92 then [92; 92] else
  if (32 <=? c) && (c <? 127) then [c] else
  if c =? 7 then [92; 97] else
  if c =? 8 then [92; 98] else
  if c =? 12 then [92; 102] else
  if c =? 10 then [92; 110] else
  if c =? 13 then [92; 114] else
  if c =? 9 then [92; 116] else
  if c =? 11 then [92; 118] else
  [92; 120; hexdig (c / 16); hexdig (c mod 16)].
Definition quote_go (s : str) : str := 34 :: flat_map quote_byte s ++ [34].

Definition pad4 (n : N) : str :=
  [48 + (n / 1000) mod 10; 48 + (n / 100) mod 10; 48 + (n / 10) mod 10; 48 + n mod 10].
(* %.4f of a weight > 0 *)
Definition fmt4 (w : wt) : str :=
  let k := w_fmt4 w in itoa (k / 10000) ++ [46] ++ pad4 (k mod 10000).

Definition sp : str := [32].

(* Route.TargetConfig(t, false) *)
Definition target_config (host path : str) (t : target) : str :=
  k_route ++ sp ++ k_add ++ sp ++ t_svc t ++ sp ++ host ++ path ++ sp ++ t_url t
  ++ (if w_is_pos (t_fw t) then sp ++ k_weight ++ sp ++ fmt4 (t_fw t) else [])
  (* tags: the joined bytes between plain quotes, like the options (since /repo dfc4ae0; it was %q) *)
  ++ (match t_tags t with [] => [] | _ => sp ++ k_tags ++ sp ++ [34] ++ join (t_tags t) [44] ++ [34] end)
  ++ (match t_opts t with
      | [] => []
      | _ => sp ++ k_opts ++ sp ++ [34] ++ join (map (fun kv => fst kv ++ [61] ++ snd kv) (t_opts t)) sp ++ [34]
      end).

(* TargetConfig before dfc4ae0: tags printed with %q (finding F-C05-3a, fixed); used by the
   refutation theorem only, as are [route_config_unrepaired] .. [render_unrepaired] below *)
Definition target_config_unrepaired (host path : str) (t : target) : str :=
  k_route ++ sp ++ k_add ++ sp ++ t_svc t ++ sp ++ host ++ path ++ sp ++ t_url t
  ++ (if w_is_pos (t_fw t) then sp ++ k_weight ++ sp ++ fmt4 (t_fw t) else [])
  ++ (match t_tags t with [] => [] | _ => sp ++ k_tags ++ sp ++ quote_go (join (t_tags t) [44]) end)
  ++ (match t_opts t with
      | [] => []
      | _ => sp ++ k_opts ++ sp ++ [34] ++ join (map (fun kv => fst kv ++ [61] ++ snd kv) (t_opts t)) sp ++ [34]
      end).

(* Route.config(false): every target, also those whose effective weight is 0 (since /repo cb21db5;
   only config(true), the listing with effective weights, still leaves them out) *)
Definition route_config (host : str) (r : route) : list str :=
  map (target_config host (r_path r)) (r_targets r).

(* hosts in descending order, '' last (Table.config) *)
Fixpoint insert_host_desc (h : str) (hs : list str) : list str :=
  match hs with
  | [] => [h]
  | x :: hs' => if str_ltb x h then h :: hs else x :: insert_host_desc h hs'
  end.
Definition config_hosts (t : table) : list str :=
  fold_right insert_host_desc [] (filter (fun h => negb (at_end h)) (map fst t)) ++ [[]].

Definition table_config (t : table) : list str :=
  flat_map (fun h => match lookup h t with
                     | Some rs => flat_map (route_config h) rs
                     | None => []
                     end) (config_hosts t).

(* Table.String() *)
Definition render (t : table) : str := join (table_config t) [10].

(* Table.String() between dfc4ae0 and cb21db5: targets with effective weight 0 are left out
   (finding F-C05-2, fixed); refutation theorem only *)
Definition route_config_skipping (host : str) (r : route) : list str :=
  map (target_config host (r_path r)) (filter (live (r_targets r)) (r_targets r)).
Definition table_config_skipping (t : table) : list str :=
  flat_map (fun h => match lookup h t with
                     | Some rs => flat_map (route_config_skipping h) rs
                     | None => []
                     end) (config_hosts t).
Definition render_skipping (t : table) : str := join (table_config_skipping t) [10].

(* Table.String() before /repo dfc4ae0 (tags with %q, and zero-weight targets left out) *)
Definition route_config_unrepaired (host : str) (r : route) : list str :=
  map (target_config_unrepaired host (r_path r)) (filter (live (r_targets r)) (r_targets r)).
Definition table_config_unrepaired (t : table) : list str :=
  flat_map (fun h => match lookup h t with
                     | Some rs => flat_map (route_config_unrepaired h) rs
                     | None => []
                     end) (config_hosts t).
Definition render_unrepaired (t : table) : str := join (table_config_unrepaired t) [10].
