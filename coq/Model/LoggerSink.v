(** Model of several Logger.Log calls (logger/logger.go:133-143) that finish at the
    same time and share one logger, i.e. one mutex [mu] and one writer [w].

    Every call has rendered its line into a buffer of its own (Model/Logger.v says what
    the line is); what is left of Log is

        l.mu.Lock(); l.w.Write(b.Bytes()); l.mu.Unlock()

    io.Writer does not promise that a Write is atomic: a pipe, a socket, a bufio.Writer
    or a rotating file takes a long line in several pieces.  The writer is therefore
    modelled as appending the line piece by piece, every piece being one atomic action,
    and the pieces of one call are arbitrary (any way of cutting the line).  The atomic
    actions of one call are: acquire [mu] and enter Write; append the next piece; return
    from Write, release [mu] and return from Log.  A schedule is a list of thread ids;
    a step of a thread that is parked in mu.Lock() (or has returned already) does nothing
    and says so.

    [Exclusive] is the code as it is (sync.Mutex, Lock/Unlock).  [Shared] is the variant
    in which Log takes a read lock (sync.RWMutex, RLock/RUnlock; seeded change C20-N):
    nobody ever holds the write lock, so RLock never waits.  No proofs in this file. *)
From Coq Require Import String List NArith Bool.
From Fabio Require Import Lib.Outcome Lib.Bytes.
Import ListNotations.
Local Open Scope N_scope.

Inductive lockmode := Exclusive | Shared.

(* one Log call: before mu.Lock() (its line cut into the pieces the writer will take it in);
   inside w.Write ([pre] has been appended, [rest] is still to come); returned *)
Inductive tstate :=
| TReady (ps : list str)
| TWriting (pre : str) (rest : list str)
| TDone (l : str).

(* the line the call is logging *)
Definition tline (ts : tstate) : str :=
  match ts with
  | TReady ps => concat ps
  | TWriting pre rest => pre ++ concat rest
  | TDone l => l
  end.
Definition is_writing (ts : tstate) : bool := match ts with TWriting _ _ => true | _ => false end.
Definition is_done (ts : tstate) : bool := match ts with TDone _ => true | _ => false end.
(* what the call has appended so far while it is inside Write *)
Definition wpre (ts : tstate) : str := match ts with TWriting pre _ => pre | _ => [] end.

(* [sk_lock]: who holds [mu] exclusively (a sync.Mutex only knows that it is taken; the
   step function only tests for None, the owner is kept for the proofs).
   [sk_sink]: every byte the writer has taken so far, in order.
   [sk_done]: the lines whose Write has returned, in the order of their return. *)
Record sstate := { sk_threads : list tstate; sk_lock : option nat; sk_sink : str; sk_done : list str }.

Fixpoint upd {A} (n : nat) (x : A) (l : list A) : list A :=
  match l with
  | [] => []
  | y :: r => match n with O => x :: r | S k => y :: upd k x r end
  end.

Definition sink_init (pieces : list (list str)) : sstate :=
  {| sk_threads := map TReady pieces; sk_lock := None; sk_sink := []; sk_done := [] |}.

Definition lock_taken (st : sstate) : bool := match sk_lock st with Some _ => true | None => false end.

(* one atomic action of thread [t]; the boolean says whether it did anything *)
Definition sink_step (m : lockmode) (st : sstate) (t : nat) : sstate * bool :=
  match nth_error (sk_threads st) t with
  | None => (st, false)
  | Some (TReady ps) =>
      match m with
      | Exclusive =>
          if lock_taken st then (st, false)      (* parked in mu.Lock() *)
          else ({| sk_threads := upd t (TWriting [] ps) (sk_threads st); sk_lock := Some t;
                   sk_sink := sk_sink st; sk_done := sk_done st |}, true)
      | Shared =>                                  (* mu.RLock(): no writer, never waits *)
          ({| sk_threads := upd t (TWriting [] ps) (sk_threads st); sk_lock := sk_lock st;
              sk_sink := sk_sink st; sk_done := sk_done st |}, true)
      end
  | Some (TWriting pre (p :: rest)) =>
      ({| sk_threads := upd t (TWriting (pre ++ p) rest) (sk_threads st); sk_lock := sk_lock st;
          sk_sink := sk_sink st ++ p; sk_done := sk_done st |}, true)
  | Some (TWriting pre []) =>                      (* Write returns, mu.Unlock() / mu.RUnlock() *)
      ({| sk_threads := upd t (TDone pre) (sk_threads st);
          sk_lock := match m with Exclusive => None | Shared => sk_lock st end;
          sk_sink := sk_sink st; sk_done := sk_done st ++ [pre] |}, true)
  | Some (TDone _) => (st, false)
  end.

(* a whole schedule; the flags say which steps did something *)
Fixpoint sink_run (m : lockmode) (st : sstate) (sched : list nat) : sstate * list bool :=
  match sched with
  | [] => (st, [])
  | t :: r => let '(st1, b) := sink_step m st t in
              let '(st2, bs) := sink_run m st1 r in (st2, b :: bs)
  end.

Definition all_done (st : sstate) : bool := forallb is_done (sk_threads st).

(* ---- the writer's way of cutting a line: pieces of the given sizes, the rest last ---- *)
Fixpoint carve (sizes : list nat) (s : str) : list str :=
  match sizes with
  | [] => [s]
  | k :: r => firstn k s :: carve r (skipn k s)
  end.

Fixpoint carve_all (cuts : list (list nat)) (lines : list str) : list (list str) :=
  match lines with
  | [] => []
  | l :: ls => match cuts with
               | [] => [l] :: carve_all [] ls
               | c :: cs => carve c l :: carve_all cs ls
               end
  end.

(* ---- "the log consists of the events' lines, each whole, each once" as a test ----
   [tiles n sink lines]: [sink] is the concatenation of the lines in some order
   (n >= number of lines).  Every line in turn is tried as the next one. *)
Fixpoint picks {A} (l : list A) : list (A * list A) :=
  match l with
  | [] => []
  | x :: r => (x, r) :: map (fun yr => (fst yr, x :: snd yr)) (picks r)
  end.

Fixpoint tiles (fuel : nat) (sink : str) (lines : list str) : bool :=
  match lines with
  | [] => match sink with [] => true | _ => false end
  | _ => match fuel with
         | O => false
         | S f => existsb (fun xr => has_prefix sink (fst xr)
                                     && tiles f (skipn (List.length (fst xr)) sink) (snd xr))
                          (picks lines)
         end
  end.

Definition whole_lines (sink : str) (lines : list str) : bool := tiles (List.length lines) sink lines.

(* the steps of the canonical sequential schedule: thread 0 to the end, then thread 1, ... *)
Fixpoint seq_sched (t : nat) (pieces : list (list str)) : list nat :=
  match pieces with
  | [] => []
  | ps :: r => repeat t (S (S (List.length ps))) ++ seq_sched (S t) r
  end.

(* two calls, every line taken in two halves, the second call let in between the halves *)
Definition ex_pieces : list (list str) := [[bs "GET /alpha "; bs "200" ++ [10]]; [bs "GET /beta "; bs "404" ++ [10]]].
Definition ex_sched : list nat := [0; 1; 0; 1; 0; 1; 0; 1; 1; 1; 1]%nat.
