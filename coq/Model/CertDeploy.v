(** Model of what lies around the certificate store of Model/CertStore.v:
    - cert/load.go [loadPath]: the walk over the certificate directory of a path source, with
      the file-system facts it can see - for every entry the kind, size and modification time
      that Lstat reports (filepath.Walk hands the callback Lstat information: for a symbolic
      link that of the link itself) and what os.ReadFile of the entry's path returns at that
      moment (os.ReadFile follows symbolic links);
    - main.go [makeTLSConfig] as startAdmin / startServers call it: one tls.Config per
      listener, made from the listener's certificate source and the listener's own
      strictmatch setting.
    The code modelled is the code as it is: loadPath reads every wanted file on every call,
    makeTLSConfig makes a new source, a new store and a new GetCertificate closure per call.
    Two variants that keep state between calls are kept for refutation theorems only:
    [walk_stat_cached] (a file is read again only when its Lstat size or modification time
    changed) and [start_listeners_sharing] (listeners of one certificate source share the
    tls.Config made first); so is [walk_skipping_empty] (entries of Lstat size 0 are left
    out of the load instead of being read) and [pinned_loads] (the configured path resolved
    once, when the source is created).
    - cert/path_source.go: the configured path is handed to loadPath as it is on every
      iteration, so what it denotes - through the symbolic links among its parents - is found
      anew by every load ([world], [denoted], [path_load]). *)
From Coq Require Import String List NArith Bool.
From Fabio Require Import Lib.Outcome Lib.Bytes Model.CertStore.
Import ListNotations.
Local Open Scope N_scope.

(* ---- cert/load.go loadPath ---- *)
Inductive ekind := KRegular | KSymlink | KDir.
(* an entry below the root, as the walk meets it: [d_size], [d_mtime] = FileInfo.Size(),
   FileInfo.ModTime() of Lstat; [d_read] = what os.ReadFile(path) yields now: None = an error
   (a link that dangles or points to a directory, a file that vanished), Some f = bytes,
   abstracted as in Model/CertStore.v to their identity and what tls.X509KeyPair finds *)
Record dentry := { d_kind : ekind; d_size : N; d_mtime : N; d_read : option pfile }.
(* the entries below the root (the root itself excluded), by path relative to the root *)
Definition dirstate := list (str * dentry).
Definition max_size : N := 1048576.                       (* cert.MaxSize = 1 << 20 *)
Definition is_dir (e : dentry) : bool := match d_kind e with KDir => true | _ => false end.
(* info.Name(): the last element of the path *)
Definition base_name (p : str) : str :=
  match last_index_byte p 47 with Some i => skipn (S i) p | None => p end.
(* filepath.Ext(name) != ".pem" || strings.HasPrefix(name, ".") : "pem" holds no dot, so the
   extension is ".pem" exactly when the name ends in ".pem" *)
Definition pem_name (p : str) : bool :=
  has_suffix (base_name p) s_pem && negb (has_prefix (base_name p) [46]).
(* the callback of filepath.Walk, entry by entry; None = the callback returned an error and
   Walk stopped: loadPath returns (nil, err) *)
Fixpoint walk (d : dirstate) (acc : blocks) : option blocks :=
  match d with
  | [] => Some acc
  | (p, e) :: r =>
      if is_dir e then walk r acc                          (* descended by Walk, entries follow *)
      else if negb (pem_name p) then walk r acc
      else if max_size <? d_size e then walk r acc         (* "[WARN] cert: File too large" *)
      else match d_read e with
           | None => None
           | Some f => walk r (acc ++ [(p, f)])
           end
  end.
(* loadPath(root) for an existing root *)
Definition dir_load (d : dirstate) : load :=
  match walk d [] with None => LoadErr | Some b => Loaded (Some b) end.

(* NOT the code: a walk that leaves out the entries Lstat reports as empty ("an empty
   placeholder file should not make the whole directory fail to load"): a certificate file
   that is there with nothing in it - a rewrite caught between truncation and write, a full
   disk - is not delivered as unusable material any more, it is not delivered at all *)
Fixpoint walk_skipping_empty (d : dirstate) (acc : blocks) : option blocks :=
  match d with
  | [] => Some acc
  | (p, e) :: r =>
      if is_dir e then walk_skipping_empty r acc
      else if negb (pem_name p) then walk_skipping_empty r acc
      else if max_size <? d_size e then walk_skipping_empty r acc
      else if d_size e =? 0 then walk_skipping_empty r acc
      else match d_read e with
           | None => None
           | Some f => walk_skipping_empty r (acc ++ [(p, f)])
           end
  end.
Definition dir_load_skipping_empty (d : dirstate) : load :=
  match walk_skipping_empty d [] with None => LoadErr | Some b => Loaded (Some b) end.

(* NOT the code: a walk that remembers (size, modification time, bytes) per path between
   calls and reads a file again only when Lstat reports another size or time *)
Definition stat_cache := list (str * (N * N * pfile)).
Fixpoint cache_find (c : stat_cache) (p : str) : option (N * N * pfile) :=
  match c with
  | [] => None
  | (k, v) :: r => if beq k p then Some v else cache_find r p
  end.
Fixpoint cache_drop (c : stat_cache) (p : str) : stat_cache :=
  match c with
  | [] => []
  | (k, v) :: r => if beq k p then cache_drop r p else (k, v) :: cache_drop r p
  end.
Fixpoint walk_stat_cached (c : stat_cache) (d : dirstate) (acc : blocks) : option blocks * stat_cache :=
  match d with
  | [] => (Some acc, c)
  | (p, e) :: r =>
      if is_dir e then walk_stat_cached c r acc
      else if negb (pem_name p) then walk_stat_cached c r acc
      else if max_size <? d_size e then walk_stat_cached c r acc
      else
        let hit := match cache_find c p with
                   | Some (sz, mt, f) => if (sz =? d_size e) && (mt =? d_mtime e) then Some f else None
                   | None => None
                   end in
        match hit with
        | Some f => walk_stat_cached c r (acc ++ [(p, f)])
        | None => match d_read e with
                  | None => (None, cache_drop c p)
                  | Some f => walk_stat_cached ((p, (d_size e, d_mtime e, f)) :: cache_drop c p) r (acc ++ [(p, f)])
                  end
        end
  end.
(* the loads such a loader yields over a history of directory states *)
Fixpoint stat_cached_loads (c : stat_cache) (dirs : list dirstate) : list load :=
  match dirs with
  | [] => []
  | d :: r => let '(b, c') := walk_stat_cached c d [] in
              (match b with None => LoadErr | Some m => Loaded (Some m) end) :: stat_cached_loads c' r
  end.

(* ---- what a handshake is presented, by the names of its leaf (the model's certificate):
   a certificate of another set is told from the one of the current set that stands at the
   same position ---- *)
Inductive seen := SCert (c : cert) | SNone | SErrNoCerts | SOutside (i : nat).
Definition seen_on (cur : certset) (n : str) (s : bool) : seen :=
  match store_pick cur n s with
  | PCert i => match nth_error cur i with Some c => SCert c | None => SOutside i end
  | PNone => SNone
  | PErrNoCerts => SErrNoCerts
  end.
Fixpoint run_store_seen (cur : certset) (sched : list action) : list seen :=
  match sched with
  | [] => []
  | APublish c :: r => run_store_seen c r
  | AHandshake n s :: r => seen_on cur n s :: run_store_seen cur r
  end.
Definition seen_eqb (a b : seen) : bool :=
  match a, b with
  | SCert c, SCert d => cert_eqb c d
  | SNone, SNone => true
  | SErrNoCerts, SErrNoCerts => true
  | SOutside i, SOutside j => Nat.eqb i j
  | _, _ => false
  end.

(* ---- main.go: makeTLSConfig per listener ---- *)
(* a listener of the configuration, as far as certificates go: the name of its certificate
   source ([] = none: a listener without TLS) and its strictmatch setting *)
Record listener := { l_cs : str; l_strict : bool }.
(* a tls.Config of fabio, as far as certificates go: the source its own store is fed from and
   the strictness its GetCertificate closure was made with *)
Definition tlsconf := (str * bool)%type.
Definition make_tls_config (l : listener) : option tlsconf :=
  match l_cs l with [] => None | _ => Some (l_cs l, l_strict l) end.
(* startAdmin (the ui listener) and the loop of startServers: one call per listener *)
Definition start_listeners (ls : list listener) : list (option tlsconf) := map make_tls_config ls.
(* NOT the code: the tls.Config made first for a certificate source is handed to every later
   listener of that source *)
Fixpoint memo_find (m : list (str * tlsconf)) (cs : str) : option tlsconf :=
  match m with
  | [] => None
  | (k, v) :: r => if beq k cs then Some v else memo_find r cs
  end.
Fixpoint start_listeners_sharing (memo : list (str * tlsconf)) (ls : list listener) : list (option tlsconf) :=
  match ls with
  | [] => []
  | l :: r =>
      match l_cs l with
      | [] => None :: start_listeners_sharing memo r
      | _ => match memo_find memo (l_cs l) with
             | Some c => Some c :: start_listeners_sharing memo r
             | None => let c := (l_cs l, l_strict l) in
                       Some c :: start_listeners_sharing ((l_cs l, c) :: memo) r
             end
      end
  end.
(* the certificate sources of the configuration by name, each with the history of loads its
   watchers see *)
Definition sources := list (str * list load).
Fixpoint history_of (srcs : sources) (cs : str) : list load :=
  match srcs with
  | [] => []
  | (k, h) :: r => if beq k cs then h else history_of r cs
  end.
(* the handshakes for [n] on a listener with this tls.Config, one after every load of its
   source: its own watch loop, its own store, its own strictness; None: no TLS *)
Definition conf_handshakes (srcs : sources) (c : option tlsconf) (n : str) : option (list pick) :=
  match c with
  | None => None
  | Some (cs, strict) => Some (run_store [] (e2e_actions watch_step false None (history_of srcs cs) n strict))
  end.
(* ... and the one after the whole history (an empty store before any load) *)
Definition conf_answer (srcs : sources) (c : option tlsconf) (n : str) : option pick :=
  match conf_handshakes srcs c n with
  | None => None
  | Some l => Some (last l PErrNoCerts)
  end.
Definition listener_answers (srcs : sources) (ls : list listener) (n : str) : list (option pick) :=
  map (fun c => conf_answer srcs c n) (start_listeners ls).
Definition listener_answers_sharing (srcs : sources) (ls : list listener) (n : str) : list (option pick) :=
  map (fun c => conf_answer srcs c n) (start_listeners_sharing [] ls).

(* ---- cert/path_source.go: the configured certificate path, handed to loadPath as it is on
   every iteration of the reload loop ---- *)
(* what the configured path denotes at one moment, the symbolic links among its parent
   directories followed by the operating system at that moment (Lstat of the path itself does
   not follow a link that is its last element):
   - [RAbsent]: nothing there (a parent link dangles, the directory is not created yet):
     Lstat(root) fails with a *PathError, the callback returns nil for the root, loadPath
     returns an empty map and no error;
   - [RFile name e]: not a directory - a file, or a symbolic link as the last element of the
     path, which filepath.Walk does not follow: the callback is called for the root alone;
   - [RDir d]: a directory with these entries below it *)
Inductive rootview := RAbsent | RFile (name : str) (e : dentry) | RDir (d : dirstate).
Definition root_load (r : rootview) : load :=
  match r with
  | RAbsent => Loaded (Some [])
  | RFile name e => dir_load [(name, e)]
  | RDir d => dir_load d
  end.
(* the places of the file tree the path has led to or will lead to (release directories), by
   an identity, each with what is there now *)
Definition tree := list (N * rootview).
Fixpoint tree_find (t : tree) (k : N) : rootview :=
  match t with
  | [] => RAbsent
  | (i, r) :: t' => if i =? k then r else tree_find t' k
  end.
(* the file tree at one moment: the place the links on the configured path lead to NOW (None:
   nowhere) and the content of every place *)
Record world := { w_at : option N; w_tree : tree }.
Definition denoted (w : world) : rootview :=
  match w_at w with None => RAbsent | Some k => tree_find (w_tree w) k end.
(* PathSource.Certificates: makePath once, then watch(ch, refresh, path, loadPath): every
   iteration calls loadPath(path) with the path as configured *)
Definition path_load (w : world) : load := root_load (denoted w).
(* NOT the code: the configured path resolved with filepath.EvalSymlinks when the source is
   created, the watcher polling the resolved place for ever (a path that cannot be resolved
   at that moment is used as it is) *)
Definition pinned_loads (ws : list world) : list load :=
  match ws with
  | [] => []
  | w0 :: _ => match w_at w0 with
               | Some k => map (fun w => root_load (tree_find (w_tree w) k)) ws
               | None => map path_load ws
               end
  end.
