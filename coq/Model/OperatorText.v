(** The operator's side of property C01: "with the operator's route commands applied on top of
    the service routes".

    What an operator writes into the manual overrides (KV store, static file) is a list of route
    COMMANDS; what fabio receives is TEXT.  This file describes the commands as values
    ([opcmd]), the text an operator writes for them ([render_op], [operator_text]: one command
    per line, the documented grammar of route/parse_new.go), which commands the language can say
    ([op_expressible]: words without blanks, quoted tags / options free of the double quote --
    ANY other byte is data between the quotes, a blank followed by '#' included), the definition
    each command stands for ([op_def], no parser involved) and what "applied on top" means for
    the content of a table ([apply_ops]: an abstract machine on sets of
    (host, path, service, URL, tags); add brings its target in, del takes the selected targets
    out -- the documented reading of the four 'route del' forms).

    The parser (Model/RouteText.v [parse], property C05) and the table builder (Model/TableCmd.v)
    are tied to this reading by Proofs/OperatorText.v: the text of expressible commands parses to
    exactly their definitions, the combined text is accepted, and the table is [apply_ops] of the
    service routes.  No proofs in this file. *)
From Coq Require Import String List NArith ZArith Bool.
From Fabio Require Import Lib.Outcome Lib.Bytes Model.WtF64 Model.TableCmd Model.RouteText Model.RouteCmd.
Import ListNotations.
Local Open Scope N_scope.

Inductive opcmd :=
| OpAdd (i : intent)                              (* route add svc src dst [weight w] [tags "t1,t2"] [opts "k=v k2"] *)
| OpDel (svc src dst : str)                       (* route del svc [src [dst]]          ([] = absent) *)
| OpDelTags (svc : str) (tags : list str)         (* route del [svc] tags "t1,t2" *)
| OpWeight (svc src w : str) (tags : list str)    (* route weight svc src weight w [tags "t1,t2"] *)
| OpNote (text : str)                             (* #text   (a comment line) *)
| OpBlank.                                        (* an empty line *)

Definition s_route_del : str := bs "route del".
Definition s_route_weight : str := bs "route weight".

(* [ tags "t1,t2"] *)
Definition tags_clause (ts : list str) : str :=
  match ts with [] => [] | _ => s_tags ++ [34] ++ join ts [44] ++ [34] end.
(* [ word] *)
Definition word_clause (w : str) : str := match w with [] => [] | _ => sp ++ w end.

Definition render_op (o : opcmd) : str :=
  match o with
  | OpAdd i => render_intent i
  | OpDel svc src dst => s_route_del ++ sp ++ svc ++ word_clause src ++ word_clause dst
  | OpDelTags svc ts => s_route_del ++ word_clause svc ++ tags_clause ts
  | OpWeight svc src w ts => s_route_weight ++ sp ++ svc ++ sp ++ src ++ s_weight ++ w ++ tags_clause ts
  | OpNote text => 35 :: text
  | OpBlank => []
  end.

(* the manual text: one command per line *)
Definition operator_text (ops : list opcmd) : str := join (map render_op ops) [10].

(* ---- the definition a command stands for (route.RouteDef), read off the command ---- *)
Definition op_def (pw : str -> outcome wt) (o : opcmd) : outcome (option def) :=
  match o with
  | OpAdd i => match intent_def pw i with Ok d => Ok (Some d) | Err k => Err k | Panic => Panic end
  | OpDel svc src dst => Ok (Some (mk CmdDel svc src dst WZ [] []))
  | OpDelTags svc ts => Ok (Some (mk CmdDel svc [] [] WZ ts []))
  | OpWeight svc src w ts =>
      match parse_weight pw (Some w) with
      | Ok f => Ok (Some (mk CmdWeight svc src [] f ts []))
      | _ => Err e_weight_value
      end
  | OpNote _ | OpBlank => Ok None
  end.

Fixpoint op_defs (pw : str -> outcome wt) (ops : list opcmd) : outcome (list def) :=
  match ops with
  | [] => Ok []
  | o :: r =>
      match op_def pw o with
      | Ok od => match op_defs pw r with
                 | Ok ds => Ok (match od with Some d => d :: ds | None => ds end)
                 | e => e
                 end
      | Err k => Err k
      | Panic => Panic
      end
  end.

(* ---- which commands the language can say ---- *)
Definition word_opt (s : str) : bool := match s with [] => true | _ => word_ok s end.
(* a selector word that would be read as the keyword of a tags clause *)
Definition not_tags_kw (s : str) : bool := negb (has_prefix s k_tags).
Definition is_some {A} (o : option A) : bool := match o with Some _ => true | None => false end.

Section Expressible.
  Variable pw : str -> outcome wt.
  Variable canon : str -> option str.
  Variable gl : str -> bool.

  Definition op_expressible (o : opcmd) : bool :=
    match o with
    | OpAdd i => intent_expressible pw canon gl i
    | OpDel svc src dst =>
        word_ok svc && not_tags_kw svc && word_opt src && not_tags_kw src && word_opt dst
        && (match src, dst with [], _ :: _ => false | _, _ => true end)          (* a destination only after a source *)
        && (match dst with [] => true | _ => is_some (canon dst) end)            (* delRoute parses the destination *)
    | OpDelTags svc ts => word_opt svc && (match ts with [] => false | _ => true end) && tags_ok ts
    | OpWeight svc src w ts => word_ok svc && word_ok src && word_ok w && is_ok (pw w) && tags_ok ts
    | OpNote text => no_nl text && no_cr text
    | OpBlank => true
    end.
End Expressible.

Definition is_weight_op (o : opcmd) : bool := match o with OpWeight _ _ _ _ => true | _ => false end.
Definition is_add_or_note (o : opcmd) : bool :=
  match o with OpAdd _ | OpNote _ | OpBlank => true | _ => false end.

(* ---- "applied on top": the content of the table, as a set ---- *)
(* what identifies a target apart from weight and options: (lower-cased host, path, service,
   URL text, tags) *)
Definition ocore := (str * str * str * str * list str)%type.
Definition oc_host (c : ocore) : str := match c with (h, _, _, _, _) => h end.
Definition oc_path (c : ocore) : str := match c with (_, p, _, _, _) => p end.
Definition oc_svc (c : ocore) : str := match c with (_, _, s, _, _) => s end.
Definition oc_url (c : ocore) : str := match c with (_, _, _, u, _) => u end.
Definition oc_tags (c : ocore) : list str := match c with (_, _, _, _, ts) => ts end.

Definition here (src : str) (c : ocore) : bool :=
  beq (oc_host c) (lower (fst (hostpath src))) && beq (oc_path c) (snd (hostpath src)).
Definition has_all_tags (ts : list str) (c : ocore) : bool :=
  forallb (fun w => existsb (fun s => beq s w) (oc_tags c)) ts.

(* the target a 'route add' stands for *)
Definition intent_core (canon : str -> option str) (i : intent) : list ocore :=
  match canon (i_dst i) with
  | Some u => [(lower (fst (hostpath (i_route i))), snd (hostpath (i_route i)), i_svc i, u, i_tags i)]
  | None => []
  end.

(* the targets a 'route del' selects: by service; service and source; service, source and
   destination (compared as URL text); by tags (all of them) and, if given, service *)
Definition op_selects (canon : str -> option str) (o : opcmd) (c : ocore) : bool :=
  match o with
  | OpDel svc [] _ => beq (oc_svc c) svc
  | OpDel svc src [] => here src c && beq (oc_svc c) svc
  | OpDel svc src dst =>
      match canon dst with
      | Some u => here src c && (beq (oc_svc c) svc && beq (oc_url c) u)
      | None => false
      end
  | OpDelTags svc ts => (match svc with [] => true | _ => beq (oc_svc c) svc end) && has_all_tags ts c
  | _ => false
  end.

Definition apply_op (canon : str -> option str) (s : list ocore) (o : opcmd) : list ocore :=
  match o with
  | OpAdd i => s ++ intent_core canon i
  | OpDel _ _ _ | OpDelTags _ _ => filter (fun c => negb (op_selects canon o c)) s
  | _ => s
  end.
Definition apply_ops (canon : str -> option str) (s : list ocore) (ops : list opcmd) : list ocore :=
  fold_left (apply_op canon) ops s.

(* the same content read off a table *)
Definition core_of (x : str * str * target) : ocore :=
  (fst (fst x), snd (fst x), t_svc (snd x), t_url (snd x), t_tags (snd x)).
Definition table_cores (t : table) : list ocore := map core_of (flat t).
