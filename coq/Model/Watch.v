(** Model of the default branch of main.go:watchBackend (lines 598-631): the loop that
    receives the service-derived config text and the manual config text, concatenates them
    (service text, "\n", manual text), builds a table and installs it.
    Generic over the table type and the table builder: [build text = None] when
    route.NewTable returns an error.  No proofs here (see Proofs/Watch.v). *)
From Coq Require Import String List NArith Bool.
From Fabio Require Import Lib.Bytes.
Import ListNotations.
Local Open Scope N_scope.

(* what arrives on the two channels of the select *)
Inductive event :=
| Svc (text : str)     (* svccfg = <-svc *)
| Man (text : str).    (* mancfg = <-man *)

(* tableBuffer after the three WriteString calls *)
Definition next_text (svccfg mancfg : str) : str := svccfg ++ 10 :: mancfg.

Section Watch.
  Variable table : Type.
  Variable build : str -> option table.     (* route.NewTable on the text *)

  Record wstate := mkW {
    w_svc : str;            (* svccfg *)
    w_man : str;            (* mancfg *)
    w_last : str;           (* lastTable: text of the table installed last, "" initially *)
    w_active : table;       (* route.GetTable() *)
    w_first : bool          (* the `first` channel has been closed *)
  }.

  Definition w_init (t0 : table) : wstate :=
    {| w_svc := []; w_man := []; w_last := []; w_active := t0; w_first := false |}.

  (* the select: one of the two locals is overwritten *)
  Definition receive (w : wstate) (e : event) : wstate :=
    match e with
    | Svc t => {| w_svc := t; w_man := w_man w; w_last := w_last w; w_active := w_active w; w_first := w_first w |}
    | Man t => {| w_svc := w_svc w; w_man := t; w_last := w_last w; w_active := w_active w; w_first := w_first w |}
    end.

  (* one iteration of the for loop; the second component is the text of the table
     installed in this iteration, if any (route.SetTable was called) *)
  Definition step_inst (w : wstate) (e : event) : wstate * option str :=
    let w1 := receive w e in
    let next := next_text (w_svc w1) (w_man w1) in
    if beq next (w_last w1) then (w1, None)                       (* continue *)
    else match build next with
         | None => (w1, None)                                     (* NewTable failed: continue *)
         | Some t => ({| w_svc := w_svc w1; w_man := w_man w1; w_last := next;
                         w_active := t; w_first := true |}, Some next)
         end.

  Definition step (w : wstate) (e : event) : wstate := fst (step_inst w e).

  Definition run (w : wstate) (h : list event) : wstate := fold_left step h w.

  (* the active table after every step *)
  Fixpoint trace (w : wstate) (h : list event) : list wstate :=
    match h with
    | [] => []
    | e :: r => let w' := step w e in w' :: trace w' r
    end.

  (* the texts installed by a history, in order *)
  Fixpoint installs (w : wstate) (h : list event) : list str :=
    match h with
    | [] => []
    | e :: r => let '(w', i) := step_inst w e in
                match i with Some t => t :: installs w' r | None => installs w' r end
    end.
End Watch.

Arguments w_svc {table}. Arguments w_man {table}. Arguments w_last {table}.
Arguments w_active {table}. Arguments w_first {table}.
