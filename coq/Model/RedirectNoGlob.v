(** C13, round 8: Table.Lookup with glob matching DISABLED (glob.matching.disabled=true).

    MODEL PART (what the code does):
    - route/table.go:308-320 [normalizeHost]: the default port of the connection's scheme is cut
      off (":80" on a plain, ":443" on a TLS connection), then strings.ToLower;
    - route/table.go:351-362 [matchingHostNoGlob]: the host keys of the table whose normalised
      text EQUALS the normalised req.Host (no pattern is interpreted), most specific first;
    - route/table.go:440-449 [Table.Lookup], branch `if globDisabled`: these hosts, then the
      key "" of the host-less routes, go through the SAME host loop as with glob matching
      ([lookup] of Model/Redirect.v: a redirect target is copied, its RedirectURL is built,
      a redirect that points back at the request is skipped).  There is no other way out of
      Lookup: also when no table host matches, the host-less routes are visited by the loop.
    The table is seen through its [table_view] for the path of one request: every host key (in
    the order sortHostsReverseHostPort gives to the whole key set; a filter of it is in the
    order matchingHostNoGlob returns) with what Table.lookup yields for that key and the path.
    Path matching inside one host is not modelled (read from the real table by the harness).

    SPECIFICATION PART (independent of normalizeHost):
    - [bare_of]: a host text without the default port of the connection's scheme, as a relation;
    - [same_host_said]: pattern and request host are the same name up to letter case, where
      either may leave out or carry that default port;
    - [cands_said]: the routes visited are those of the table hosts that ARE the request's host
      in this reading, in table order;
    - [same_hostb]: a boolean reading of [same_host_said] written as three alternatives (used by
      Check/C13.v to judge the implementation; proved equivalent in Proofs/RedirectNoGlob.v).
    No proofs in this file. *)
From Coq Require Import String List NArith ZArith Bool.
From Fabio Require Import Lib.Bytes Model.Redirect.
Import ListNotations.
Local Open Scope N_scope.

Definition p80 : str := [58;56;48].        (* ":80" *)
Definition p443 : str := [58;52;52;51].    (* ":443" *)

(* route/table.go:312-320 *)
Definition normalize_host_nolower (h : str) (tls : bool) : str :=
  if negb tls && has_suffix h p80 then firstn (List.length h - List.length p80) h
  else if tls && has_suffix h p443 then firstn (List.length h - List.length p443) h
  else h.
(* route/table.go:308-310 *)
Definition normalize_host (h : str) (tls : bool) : str := lower (normalize_host_nolower h tls).

(* per host key of the table: what t.lookup(key, req.URL.Path) yields *)
Definition table_view := list (str * option target).

(* route/table.go:351-362 (the order of [tv] is that of sortHostsReverseHostPort) *)
Definition host_matches_noglob (host : str) (tls : bool) (e : str * option target) : bool :=
  beq (normalize_host (fst e) tls) (normalize_host host tls).
Definition matching_noglob (tv : table_view) (host : str) (tls : bool) : list (option target) :=
  map snd (filter (host_matches_noglob host tls) tv).

(* route/table.go:440-449 + the loop: hosts = matchingHostNoGlob(req); hosts = append(hosts, "") *)
Definition cands_noglob (q : request) (tv : table_view) (fb : option target) : list (option target) :=
  matching_noglob tv (q_host q) (q_tls q) ++ [fb].
Definition lookup_noglob (q : request) (tv : table_view) (fb : option target) : chosen :=
  lookup q (cands_noglob q tv fb).
(* one request through ServeHTTP with glob matching disabled *)
Definition handle_noglob (q : request) (tv : table_view) (fb : option target) : response :=
  serve (lookup_noglob q tv fb).

(* ------------------------------------------------------------------ *)
(** * specification *)
Definition default_port (tls : bool) : str := if tls then p443 else p80.

(* [bare_of tls x b]: b is the host text x without the default port of the connection's scheme *)
Inductive bare_of (tls : bool) : str -> str -> Prop :=
| bare_port : forall b, bare_of tls (b ++ default_port tls) b
| bare_plain : forall h, (forall b, h <> b ++ default_port tls) -> bare_of tls h h.

(* the pattern IS the request's host: the same name up to letter case, the default port of the
   connection's scheme written or left out on either side; nothing else (no glob) *)
Definition same_host_said (tls : bool) (pat host : str) : Prop :=
  exists b, bare_of tls (lower pat) b /\ bare_of tls (lower host) b.

Inductive cands_said (tls : bool) (host : str) : table_view -> list (option target) -> Prop :=
| cs_nil : cands_said tls host [] []
| cs_match : forall pat o tv l, same_host_said tls pat host -> cands_said tls host tv l ->
                                cands_said tls host ((pat, o) :: tv) (o :: l)
| cs_skip : forall pat o tv l, ~ same_host_said tls pat host -> cands_said tls host tv l ->
                               cands_said tls host ((pat, o) :: tv) l.

(* the same reading as a decision: equal, or exactly one side carries the default port *)
Definition same_hostb (tls : bool) (pat host : str) : bool :=
  let p := lower pat in let h := lower host in let d := default_port tls in
  beq p h
  || (negb (has_suffix h d) && beq p (h ++ d))
  || (negb (has_suffix p d) && beq (p ++ d) h).
Definition cands_saidb (q : request) (tv : table_view) (fb : option target) : list (option target) :=
  map snd (filter (fun e => same_hostb (q_tls q) (fst e) (q_host q)) tv) ++ [fb].
