(** Calls that are still in flight while other things happen to the proxy (other calls, table
    changes, cleanup ticks, connections entering Shutdown), on top of the history machine of
    Model/GrpcPool.v, and target URLs as the routing table writes them -- scheme://rest with
    whatever scheme: `route add svc /pkg.Svc http://host:port/` and the consul registry's
    rendering of a service tagged without proto=grpc are targets of a gRPC listener like any
    grpc:// one (grpc_handler.go newConnection: everything that is not a grpcs:// target behind
    a listener with a tls.Config is dialled in the clear at URL.Host).

    A call in flight runs on the connection the pool handed out when it began
    (grpc_handler.go:78 connectionPool.Get in the director).  It is delivered -- the caller
    gets the backend's remaining messages, trailers and status -- iff that connection is not
    in Shutdown when the backend ends the call: cleanup() closes the connections it drops
    (cs.Close() after at most GRPCGShutdownTimeout, grpc_handler.go:337-343), and
    ClientConn.Close cancels every stream on the connection ("grpc: the client connection is
    closing", code Canceled).

    No proofs in this file. *)
From Coq Require Import String List NArith Bool.
From Fabio Require Import Lib.Outcome Lib.Bytes Model.GrpcPool.
Import ListNotations.
Local Open Scope N_scope.

(* url.URL.String() of a target written scheme://rest *)
Definition s_sep : str := bs "://".
Definition render (sch rest : str) : url := sch ++ s_sep ++ rest.

Record fstate := mkf {
  f_st : state;                          (* table and pool *)
  f_fly : list (N * (url * N))           (* call id -> backend, connection the call runs on *)
}.
Definition f_init (t : table) : fstate := mkf (mks t p_init) [].

Inductive fop :=
| FOp (o : op)                                       (* a call that ends at once, SetTable, CleanupTick, ConnShutdown *)
| FBegin (id : N) (m : md) (path : str) (k : nat)    (* a call begins and stays in flight (k: the picker's choice) *)
| FEnd (id : N).                                     (* the backend ends the call *)

Definition fly_of (id : N) (l : list (N * (url * N))) : option (url * N) :=
  match find (fun x => fst x =? id) l with
  | Some x => Some (snd x)
  | None => None
  end.

Definition fstep (ng : bool) (fs : fstate) (o : fop) : fstate :=
  match o with
  | FOp o => mkf (step ng (f_st fs) o) (f_fly fs)
  | FBegin id m p k =>
      mkf (step ng (f_st fs) (Call m p k))
          (match call_conn ng (f_st fs) m p k with
           | Some uc => (id, uc) :: f_fly fs
           | None => f_fly fs                        (* no route: answered NotFound at once *)
           end)
  | FEnd id => mkf (f_st fs) (filter (fun x => negb (fst x =? id)) (f_fly fs))
  end.
Definition frun (ng : bool) (fs : fstate) (ops : list fop) : fstate := fold_left (fstep ng) ops fs.

(* what the pool does during the history: a call in flight is a call *)
Definition fproj (o : fop) : list op :=
  match o with
  | FOp o => [o]
  | FBegin _ m p k => [Call m p k]
  | FEnd _ => []
  end.

(* the call [id] is in flight and its connection is not in Shutdown: when the backend ends it
   now, the caller gets the rest of it *)
Definition f_delivered (fs : fstate) (id : N) : bool :=
  match fly_of id (f_fly fs) with
  | Some (_, c) => live (s_pool (f_st fs)) c
  | None => false
  end.
Definition code_canceled : N := 1.

(* ---- a variant that is NOT the code: hasTarget looks only at grpc:// and grpcs:// targets
   (a "don't render the URLs of the http and tcp targets" optimisation) ---- *)
Definition grpc_scheme (u : url) : bool := has_prefix u (bs "grpc://") || has_prefix u (bs "grpcs://").
Definition p_tick_grpc_only (urls : list url) (s : pstate) : pstate := p_tick (filter grpc_scheme urls) s.
