(** Model of what happens to [metrics.interval] between config.Load and the start of the
    metrics providers (main.go:135 metrics.Initialize):
    - config/load.go:369-371 (fix 8131dd0): [if cfg.Metrics.Interval <= 0] is an error, for
      every metrics.target;
    - metrics/provider_statsd.go:26, provider_dogstatsd.go:38, provider_graphite.go:62:
      [time.NewTicker(interval)], which panics ("non-positive interval for NewTicker") for
      interval <= 0; the other targets (flat, label, prometheus, circonus, none) start no ticker.
    The interval is a time.Duration in nanoseconds ([Z]).  No proofs here (Proofs/StartUp.v). *)
From Coq Require Import List NArith ZArith Bool.
From Fabio Require Import Lib.Outcome.
Import ListNotations.

(* time.NewTicker(d) *)
Definition new_ticker (d : Z) : outcome unit :=
  if (d <=? 0)%Z then Panic else Ok tt.

(* metrics.Initialize for a target list that does / does not contain a ticker-driven provider
   (address resolution errors etc. are Err and not modelled: [ticker_target] only) *)
Definition start_metrics (interval : Z) (ticker_target : bool) : outcome unit :=
  if ticker_target then new_ticker interval else Ok tt.

(* config.Load's validation (after fix 8131dd0) *)
Definition load_accepts_metrics_interval (interval : Z) : bool := (0 <? interval)%Z.
(* before 8131dd0 there was no check (repaired in /repo; refutation theorem only) *)
Definition load_accepts_metrics_interval_unrepaired (interval : Z) : bool := true.

(* Load, then (if a configuration was returned) start the providers.  Err 1 = Load returned an error *)
Definition load_then_start_metrics (interval : Z) (ticker_target : bool) : outcome unit :=
  if load_accepts_metrics_interval interval then start_metrics interval ticker_target else Err 1%N.
Definition load_then_start_metrics_unrepaired (interval : Z) (ticker_target : bool) : outcome unit :=
  if load_accepts_metrics_interval_unrepaired interval then start_metrics interval ticker_target else Err 1%N.
