(** Model of the routing table as the route commands build it:
    route/table.go  hostpath, addRoute, weighRoute, delRoute, route, NewTable's command loop
                    and final sort;
    route/route.go  addTarget (de-duplication), filter, setWeight, contains;
    route/routes.go find, Less.

    A table is an association list host -> routes (Go: map[string]Routes; keys are
    unique by construction, order = order of creation, irrelevant for every
    observable because String() and the check sort hosts).  A route is a path and
    its targets in order.  A target carries what the commands can set or select on:
    service, URL text (url.Parse(dst).String()), fixed weight, tags, options.

    Everything that comes from a library is a parameter:
      [canon d]   = Some (url.Parse(d).String()), None when url.Parse fails;
      [glob_ok p] = glob.Compile(p) succeeds (used for paths and, since c9fb527, new hosts).
    The harness computes both with the real libraries for every string of a case.

    Faithful to the code: [add_route], [del_route] and [weigh_route] all lower-case the host.
    Until /repo commit b80fb7f delRoute and weighRoute did NOT (finding F-C05-1, fixed); that
    behaviour is kept as [del_route_unrepaired] / [weigh_route_unrepaired] (and
    [apply_def_unrepaired], [run_unrepaired]) for the refutation theorems only.
    No proofs in this file. *)
From Coq Require Import List NArith Bool.
From Fabio Require Import Lib.Outcome Lib.Bytes Model.WtF64.
Import ListNotations.
Local Open Scope N_scope.
Local Open Scope outcome_scope.

Record target := {
  t_svc : str;
  t_url : str;
  t_fw : wt;
  t_tags : list str;
  t_opts : list (str * str)      (* sorted by key, keys unique: the observable content of the Go map *)
}.

Record route := { r_path : str; r_targets : list target }.

Definition table := list (str * list route).

Inductive cmd := CmdAdd | CmdDel | CmdWeight.

(* route.RouteDef *)
Record def := {
  d_cmd : cmd;
  d_svc : str;
  d_src : str;
  d_dst : str;
  d_w : wt;
  d_tags : list str;
  d_opts : list (str * str)
}.

(* error kinds of NewTable (6.. : table errors; 1-5 are the parser's, see Model/RouteText.v) *)
Definition e_invalid_prefix : N := 6.   (* errInvalidPrefix *)
Definition e_invalid_target : N := 7.   (* errInvalidTarget *)
Definition e_url : N := 8.              (* "route: invalid target. ..." *)
Definition e_no_match : N := 9.         (* errNoMatch *)
Definition e_glob : N := 10.            (* glob.Compile(path) error *)
Definition e_invalid_host : N := 11.    (* "route: invalid host. ..." (glob.Compile(host) error, since c9fb527) *)

(* ---- hostpath (table.go:77-89) ---- *)
Definition hostpath (prefix : str) : str * str :=
  match prefix with
  | 58 :: _ => (prefix, [])                       (* ":port" *)
  | _ => match index_byte prefix 47 with
         | None => (prefix, [47])
         | Some i => (firstn i prefix, skipn i prefix)   (* p[0], "/" + p[1] *)
         end
  end.

Definition str_list_eqb : list str -> list str -> bool := list_eqb beq.

(* route.go contains(src, dst): every element of dst occurs in src *)
Definition contains_all (src dst : list str) : bool :=
  forallb (fun d => existsb (fun s => beq s d) src) dst.

(* ---- association-list plumbing ---- *)
Fixpoint lookup (h : str) (t : table) : option (list route) :=
  match t with
  | [] => None
  | (k, rs) :: t' => if beq k h then Some rs else lookup h t'
  end.

(* Routes.find *)
Fixpoint find (p : str) (rs : list route) : option route :=
  match rs with
  | [] => None
  | r :: rs' => if beq (r_path r) p then Some r else find p rs'
  end.

(* apply f to the routes stored under h (first and only key h) *)
Fixpoint upd_host (h : str) (f : list route -> list route) (t : table) : table :=
  match t with
  | [] => []
  | (k, rs) :: t' => if beq k h then (k, f rs) :: t' else (k, rs) :: upd_host h f t'
  end.

(* apply f to the first route with path p *)
Fixpoint upd_route (p : str) (f : route -> route) (rs : list route) : list route :=
  match rs with
  | [] => []
  | r :: rs' => if beq (r_path r) p then f r :: rs' else r :: upd_route p f rs'
  end.

(* Table.route(host, path) *)
Definition get_route (h p : str) (t : table) : option route :=
  match lookup h t with
  | None => None
  | Some rs => find p rs
  end.

(* ---- Route.addTarget (route.go:46-110): de-dup on service, URL text, fixed weight, tags ---- *)
Definition same_target (svc url : str) (w : wt) (tags : list str) (t : target) : bool :=
  beq (t_svc t) svc && beq (t_url t) url && wt_eqb (t_fw t) w && str_list_eqb (t_tags t) tags.

Definition add_target (svc url : str) (w : wt) (tags : list str) (opts : list (str * str)) (r : route) : route :=
  let w := w_clamp w in
  if existsb (same_target svc url w tags) (r_targets r) then r
  else {| r_path := r_path r;
          r_targets := r_targets r ++ [ {| t_svc := svc; t_url := url; t_fw := w; t_tags := tags; t_opts := opts |} ] |}.

(* Route.filter(skip) *)
Definition filter_route (skip : target -> bool) (r : route) : route :=
  {| r_path := r_path r; r_targets := filter (fun t => negb (skip t)) (r_targets r) |}.

(* ---- Route.setWeight (route.go:124-150) ---- *)
Definition weight_match (svc : str) (tags : list str) (t : target) : bool :=
  (match svc with [] => true | _ => beq (t_svc t) svc end)
  && (match tags with [] => true | _ => contains_all (t_tags t) tags end).

Definition set_fw (w : wt) (t : target) : target :=
  {| t_svc := t_svc t; t_url := t_url t; t_fw := w; t_tags := t_tags t; t_opts := t_opts t |}.

Definition count_match (svc : str) (tags : list str) (r : route) : N :=
  N.of_nat (length (filter (weight_match svc tags) (r_targets r))).

(* n = number of matches must be > 0 here: w / float64(n) *)
Definition set_weight (svc : str) (w : wt) (tags : list str) (r : route) : route :=
  let w' := w_divn w (count_match svc tags r) in
  {| r_path := r_path r;
     r_targets := map (fun t => if weight_match svc tags t then set_fw w' t else t) (r_targets r) |}.

(* ---- delRoute's two sweeps (table.go:253-270) ---- *)
Definition has_targets (r : route) : bool := match r_targets r with [] => false | _ => true end.
Definition has_routes (hr : str * list route) : bool := match snd hr with [] => false | _ => true end.

Definition sweep (t : table) : table :=
  filter has_routes (map (fun hr => (fst hr, filter has_targets (snd hr))) t).

Definition filter_all (skip : target -> bool) (t : table) : table :=
  map (fun hr => (fst hr, map (filter_route skip) (snd hr))) t.

Definition filter_one (h p : str) (skip : target -> bool) (t : table) : table :=
  upd_host h (upd_route p (filter_route skip)) t.

Section Env.
  Variable canon : str -> option str.
  Variable glob_ok : str -> bool.

  (* ---- Table.addRoute (table.go:149-194) ---- *)
  Definition add_route (t : table) (d : def) : outcome table :=
    let '(host0, path) := hostpath (d_src d) in
    let host := lower host0 in
    match d_src d with [] => Err e_invalid_prefix | _ =>
    match d_dst d with [] => Err e_invalid_target | _ =>
    match canon (d_dst d) with None => Err e_url | Some url =>
      let fresh := add_target (d_svc d) url (d_w d) (d_tags d) (d_opts d)
                              {| r_path := path; r_targets := [] |} in
      match lookup host t with
      | None =>
          (* a host seen for the first time must compile as a glob (since /repo c9fb527);
             [glob_ok] is applied to the lower-cased host; existing hosts are not re-checked *)
          if glob_ok host then
            if glob_ok path then Ok (t ++ [(host, [fresh])]) else Err e_glob
          else Err e_invalid_host
      | Some rs =>
          match find path rs with
          | None =>
              if glob_ok path then Ok (upd_host host (fun rs => rs ++ [fresh]) t) else Err e_glob
          | Some _ =>
              Ok (upd_host host (upd_route path (add_target (d_svc d) url (d_w d) (d_tags d) (d_opts d))) t)
          end
      end
    end end end.

  (* ---- Table.weighRoute (table.go:196-212) ---- *)
  Definition weigh_route (t : table) (d : def) : outcome table :=
    let '(host0, path) := hostpath (d_src d) in
    let host := lower host0 in                       (* host = strings.ToLower(host), since b80fb7f *)
    match d_src d with [] => Err e_invalid_prefix | _ =>
    match get_route host path t with
    | None => Err e_no_match
    | Some r =>
        if count_match (d_svc d) (d_tags d) r =? 0 then Err e_no_match
        else Ok (upd_host host (upd_route path (set_weight (d_svc d) (d_w d) (d_tags d))) t)
    end end.

  (* weighRoute before b80fb7f: the host is looked up as written *)
  Definition weigh_route_unrepaired (t : table) (d : def) : outcome table :=
    let '(host, path) := hostpath (d_src d) in
    match d_src d with [] => Err e_invalid_prefix | _ =>
    match get_route host path t with
    | None => Err e_no_match
    | Some r =>
        if count_match (d_svc d) (d_tags d) r =? 0 then Err e_no_match
        else Ok (upd_host host (upd_route path (set_weight (d_svc d) (d_w d) (d_tags d))) t)
    end end.

  (* ---- Table.delRoute (table.go:220-273) ---- *)
  Definition del_tags_sel (d : def) (tg : target) : bool :=
    (match d_svc d with [] => true | _ => beq (t_svc tg) (d_svc d) end)
    && contains_all (t_tags tg) (d_tags d).
  Definition del_svc_sel (d : def) (tg : target) : bool := beq (t_svc tg) (d_svc d).
  Definition del_dst_sel (d : def) (url : str) (tg : target) : bool :=
    beq (t_svc tg) (d_svc d) && beq (t_url tg) url.

  Definition del_route (t : table) (d : def) : outcome table :=
    match d_tags d with
    | _ :: _ => Ok (sweep (filter_all (del_tags_sel d) t))
    | [] =>
      match d_src d, d_dst d with
      | [], [] => Ok (sweep (filter_all (del_svc_sel d) t))
      | _, [] =>
          let '(host0, path) := hostpath (d_src d) in
          let host := lower host0 in                    (* strings.ToLower(host), since b80fb7f *)
          match get_route host path t with
          | None => Ok t                                (* return nil before the sweeps *)
          | Some _ => Ok (sweep (filter_one host path (del_svc_sel d) t))
          end
      | _, _ =>
          match canon (d_dst d) with
          | None => Err e_url
          | Some url =>
              let '(host0, path) := hostpath (d_src d) in
              let host := lower host0 in
              match get_route host path t with
              | None => Ok t
              | Some _ => Ok (sweep (filter_one host path (del_dst_sel d url) t))
              end
          end
      end
    end.

  (* delRoute before b80fb7f: the host is looked up as written *)
  Definition del_route_unrepaired (t : table) (d : def) : outcome table :=
    match d_tags d with
    | _ :: _ => Ok (sweep (filter_all (del_tags_sel d) t))
    | [] =>
      match d_src d, d_dst d with
      | [], [] => Ok (sweep (filter_all (del_svc_sel d) t))
      | _, [] =>
          let '(host, path) := hostpath (d_src d) in   (* the host as written *)
          match get_route host path t with
          | None => Ok t                                (* return nil before the sweeps *)
          | Some _ => Ok (sweep (filter_one host path (del_svc_sel d) t))
          end
      | _, _ =>
          match canon (d_dst d) with
          | None => Err e_url
          | Some url =>
              let '(host, path) := hostpath (d_src d) in
              match get_route host path t with
              | None => Ok t
              | Some _ => Ok (sweep (filter_one host path (del_dst_sel d url) t))
              end
          end
      end
    end.

  Definition apply_def (t : table) (d : def) : outcome table :=
    match d_cmd d with
    | CmdAdd => add_route t d
    | CmdDel => del_route t d
    | CmdWeight => weigh_route t d
    end.

  (* the command loop of NewTable / NewTableCustom *)
  Fixpoint run_from (t : table) (ds : list def) : outcome table :=
    match ds with
    | [] => Ok t
    | d :: ds' => do t' <- apply_def t d; run_from t' ds'
    end.

  Definition run (ds : list def) : outcome table := run_from [] ds.

  (* the same loop over the pre-b80fb7f del / weight (refutation theorems only) *)
  Definition apply_def_unrepaired (t : table) (d : def) : outcome table :=
    match d_cmd d with
    | CmdAdd => add_route t d
    | CmdDel => del_route_unrepaired t d
    | CmdWeight => weigh_route_unrepaired t d
    end.
  Fixpoint run_from_unrepaired (t : table) (ds : list def) : outcome table :=
    match ds with
    | [] => Ok t
    | d :: ds' => do t' <- apply_def_unrepaired t d; run_from_unrepaired t' ds'
    end.
  Definition run_unrepaired (ds : list def) : outcome table := run_from_unrepaired [] ds.
End Env.

(* ---- the final sort.Sort(h) of NewTable (routes.go Routes.Less, since /repo c1f03c0): routes in
        DESCENDING order of (strings.ToLower(path), then path) -- lower-cased paths first, the raw
        byte order only breaks ties.  Paths of one host are pairwise distinct and the order is a
        strict total order on distinct paths, so the (unstable) sort has exactly one possible result.
        The two-level comparison is expressed as the plain byte-string order of one key per path:
        [path_key p] = (every byte of lower p, plus 1) ++ [0] ++ p.  The 0 is below every shifted
        byte, so a proper prefix sorts first, exactly as for strings; when the lower-cased parts
        are equal the raw paths decide.  Proofs.TableCmd.path_key_cmp states this equivalence.
        (Until c1f03c0 the order was the raw byte order alone: [insert_desc_bytes] below.) ---- *)
Definition path_key (p : str) : str := map N.succ (lower p) ++ [0] ++ p.
Definition route_key (r : route) : str := path_key (r_path r).
Fixpoint insert_desc (r : route) (rs : list route) : list route :=
  match rs with
  | [] => [r]
  | x :: rs' => if str_ltb (route_key x) (route_key r) then r :: rs else x :: insert_desc r rs'
  end.
(* the comparator before c1f03c0 (raw byte order), kept for reference *)
Fixpoint insert_desc_bytes (r : route) (rs : list route) : list route :=
  match rs with
  | [] => [r]
  | x :: rs' => if str_ltb (r_path x) (r_path r) then r :: rs else x :: insert_desc_bytes r rs'
  end.
Definition sort_routes (rs : list route) : list route := fold_right insert_desc [] rs.
Definition sort_table (t : table) : table := map (fun hr => (fst hr, sort_routes (snd hr))) t.

(* all (host, path, target) triples, in table order: the content of a table *)
Definition flat_routes (h : str) (rs : list route) : list (str * str * target) :=
  flat_map (fun r => map (fun tg => (h, r_path r, tg)) (r_targets r)) rs.
Definition flat (t : table) : list (str * str * target) :=
  flat_map (fun hr => flat_routes (fst hr) (snd hr)) t.
