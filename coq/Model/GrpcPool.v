(** Model of proxy/grpc_handler.go: the interceptor's route lookup (synthetic request made of
    the method path and the single [dsthost] metadata value), the director's connection pool
    (Get / newConnection / Set / cleanup), the outcome of a call with and without a route, and
    the relay of mwitkow/grpc-proxy's handler as far as the property talks about it.

    Route selection itself is C03's model (Model/Lookup.v), composed here, not re-modelled.
    No proofs in this file. *)
From Coq Require Import String List NArith Bool.
From Fabio Require Import Lib.Outcome Lib.Bytes.
From Fabio Require Model.Glob Model.Lookup.
Import ListNotations.
Local Open Scope N_scope.

Definition url := str.
(* grpc metadata.MD: key -> values in order; keys are lower-case on the wire *)
Definition md := list (str * list str).

Fixpoint assoc {A} (k : str) (l : list (str * A)) : option A :=
  match l with
  | [] => None
  | (k', v) :: r => if beq k k' then Some v else assoc k r
  end.
Definition mem (u : str) (l : list str) : bool := existsb (beq u) l.
Definition memN (c : N) (l : list N) : bool := existsb (N.eqb c) l.

(* ---- the routing table as far as gRPC lookups read it ---- *)
Definition route := (str * list url)%type.            (* path, target URLs (Target.URL.String()) *)
Definition table := list (str * list route).          (* host key -> routes in table order *)

Definition table_urls (t : table) : list url :=
  flat_map (fun hr => flat_map (fun r : route => snd r) (snd hr)) t.

(* proxy/grpc_handler.go:325-336 hasTarget *)
Definition has_target (k : url) (t : table) : bool := mem k (table_urls t).

(* grpc_handler.go:175-182 getDestinationHostFromMetadata *)
Definition k_dsthost : str := bs "dsthost".
Definition dsthost (m : md) : str :=
  match assoc k_dsthost m with
  | Some [h] => h
  | _ => []
  end.

(* Route selection is C03's model of route/table.go (Model/Lookup.v: normalizeHost,
   matchingHosts with the gobwas matcher, matchingHostNoGlob, sortHostsReverseHostPort, Lookup,
   lookup), not re-modelled here: the gRPC table is handed to it with the prefix matcher
   (cfg.Proxy.Matcher = "prefix"), tls = false (the synthetic request has no TLS state) and
   the configured GlobMatchingDisabled; what comes back is the (host key, path) of the selected
   route, whose targets are read from the gRPC table.  Routes of a host in the order the live
   table holds them (the harness reads it from the real table).  Domain: every route has at
   least one target (route add always gives one; a target-less route would make lookup return
   nil for that host). *)
Definition to_c03 (t : table) : Lookup.table :=
  map (fun hr => (fst hr, map (fun r : route => (fst r, 0)) (snd hr))) t.

Definition route_targets (t : table) (k p : str) : option (list url) :=
  match assoc k t with
  | None => None
  | Some rs => match find (fun r : route => beq (fst r) p) rs with
               | Some (_, x :: ts) => Some (x :: ts)
               | _ => None
               end
  end.

(* table.go:399-444 Lookup as the interceptor calls it *)
Definition lookup (t : table) (noglob : bool) (host path : str) : option (list url) :=
  match Lookup.lookup (to_c03 t) host false path Lookup.MPrefix noglob with
  | Some (k, p, _) => route_targets t k p
  | None => None
  end.

(* grpc_handler.go:130-166 GrpcProxyInterceptor.lookup.  [m] = None: no metadata in the
   context; [upath] = url.ParseRequestURI(fullMethod).Path computed by the real net/url
   (None: parse error).  Result: None = error (-> Internal), Some None = no route,
   Some (Some ts) = the matched route's targets (the picker chooses among them). *)
Definition icpt_lookup (t : table) (noglob : bool) (m : option md) (upath : option str)
  : option (option (list url)) :=
  match m with
  | None => None
  | Some m => match upath with
              | None => None
              | Some p => Some (lookup t noglob (dsthost m) p)
              end
  end.

(* the domain of the composed model: C03's key domain (printable ASCII, no '[' '{' '\', no
   brackets, not starting with ':'), lower-case keys, printable request host, no target-less route *)
Definition table_domain (t : table) : bool :=
  forallb (fun k => Lookup.key_domain k && beq (lower k) k) (map fst t)
  && forallb (fun hr => forallb (fun r : route => match snd r with [] => false | _ => true end) (snd hr)) t.
Definition host_domain (h : str) : bool := Glob.subject_domain h && Lookup.no_bracket h.

(* ---- the connection pool ---- *)
(* connections are numbered in the order they are dialled; a connection is live until it
   enters connectivity.Shutdown (closed by cleanup, or by anything else: [PShutdown]) *)
Record pstate := mkp {
  p_pool : list (url * N);        (* grpcConnectionPool.connections: key -> connection *)
  p_next : N;                     (* number of connections dialled so far *)
  p_shut : list N;                (* connections in state Shutdown *)
  p_dials : list (N * url)        (* log: connection, target it was dialled for *)
}.
Definition p_init : pstate := mkp [] 0 [] [].

Definition live (s : pstate) (c : N) : bool := negb (memN c (p_shut s)).

Fixpoint remove_key (k : url) (l : list (url * N)) : list (url * N) :=
  match l with
  | [] => []
  | (k', c) :: r => if beq k k' then remove_key k r else (k', c) :: remove_key k r
  end.

(* newConnection as it was before /repo 8fc2c4a: dial, then Set (unconditional store) *)
Definition p_dial_set (s : pstate) (u : url) : pstate * N :=
  let c := p_next s in
  (mkp ((u, c) :: remove_key u (p_pool s)) (c + 1) (p_shut s) (p_dials s ++ [(c, u)]), c).

(* grpc.DialContext: a new connection, known to its caller only *)
Definition p_log_dial (s : pstate) (u : url) : pstate * N :=
  let c := p_next s in
  (mkp (p_pool s) (c + 1) (p_shut s) (p_dials s ++ [(c, u)]), c).

(* setIfAbsent (since 8fc2c4a), one critical section under the write lock: if a different
   live connection is pooled under the key, close the new one and return the pooled one;
   otherwise store and return the new one *)
Definition p_set_if_absent (s : pstate) (u : url) (c : N) : pstate * N :=
  let store := (mkp ((u, c) :: remove_key u (p_pool s)) (p_next s) (p_shut s) (p_dials s), c) in
  match assoc u (p_pool s) with
  | Some cur => if negb (cur =? c) && negb (memN cur (p_shut s))
                then (mkp (p_pool s) (p_next s) (c :: p_shut s) (p_dials s), cur)
                else store
  | None => store
  end.

(* newConnection today: dial, then setIfAbsent *)
Definition p_dial (s : pstate) (u : url) : pstate * N :=
  let (s1, c) := p_log_dial s u in p_set_if_absent s1 u c.

(* grpc_handler.go Get: the pooled connection unless absent or in Shutdown, else newConnection *)
Definition p_get (s : pstate) (u : url) : pstate * N :=
  match assoc u (p_pool s) with
  | Some c => if live s c then (s, c) else p_dial s u
  | None => p_dial s u
  end.

(* grpc_handler.go:297-323, one iteration of cleanup against the table's URLs: entries in
   Shutdown are deleted; live entries whose key is no target of the table are deleted and
   closed (the close follows after at most GRPCGShutdownTimeout) *)
Definition p_tick (urls : list url) (s : pstate) : pstate :=
  let keep := filter (fun kc => live s (snd kc) && mem (fst kc) urls) (p_pool s) in
  let closed := map snd (filter (fun kc => live s (snd kc) && negb (mem (fst kc) urls)) (p_pool s)) in
  mkp keep (p_next s) (p_shut s ++ closed) (p_dials s).

(* the pooled connection of [u] enters Shutdown *)
Definition p_shutdown (s : pstate) (u : url) : pstate :=
  match assoc u (p_pool s) with
  | Some c => mkp (p_pool s) (p_next s) (c :: p_shut s) (p_dials s)
  | None => s
  end.

Inductive pop := PGet (u : url) | PSetTable (urls : list url) | PTick | PShutdown (u : url).

Definition p_step (st : list url * pstate) (o : pop) : list url * pstate :=
  let (urls, s) := st in
  match o with
  | PGet u => (urls, fst (p_get s u))
  | PSetTable t => (t, s)
  | PTick => (urls, p_tick urls s)
  | PShutdown u => (urls, p_shutdown s u)
  end.
Definition p_run (st : list url * pstate) (ops : list pop) : list url * pstate :=
  fold_left p_step ops st.

(* the two halves of newConnection as separate operations (the harness dials, the real
   setIfAbsent stores): the interleavings of concurrent callers, replayed deterministically *)
Inductive pop2 := P1 (o : pop) | PDial (u : url) | PSetIfAbsent (u : url) (c : N).
Definition p_step2 (st : list url * pstate) (o : pop2) : list url * pstate :=
  match o with
  | P1 o => p_step st o
  | PDial u => (fst st, fst (p_log_dial (snd st) u))
  | PSetIfAbsent u c => (fst st, fst (p_set_if_absent (snd st) u c))
  end.
Definition p_run2 (st : list url * pstate) (ops : list pop2) : list url * pstate := fold_left p_step2 ops st.

Definition count_dials (s : pstate) (u : url) : N :=
  N.of_nat (List.length (filter (fun d => beq (snd d) u) (p_dials s))).
Definition count_closed (s : pstate) (u : url) : N :=
  N.of_nat (List.length (filter (fun d => beq (snd d) u && memN (fst d) (p_shut s)) (p_dials s))).

(* ---- calls ---- *)
Record script := mkscript {
  sc_mode : N;                (* 0 read all then answer, 1 answer in lockstep, 2 fail without reading *)
  sc_hdr : md; sc_msgs : list str; sc_trl : md; sc_code : N; sc_msg : str }.
Record callin := mkcallin {
  ci_md : md; ci_method : str; ci_upath : option str; ci_msgs : list str; ci_script : script }.
Record bview := mkbview { bv_method : str; bv_md : md; bv_msgs : list str }.
Record cview := mkcview { cv_hdr : md; cv_msgs : list str; cv_trl : md; cv_code : N; cv_msg : str }.

(* grpc-proxy handler.go forwardClientToServer: the backend's header is sent on to the caller
   just before the first message, never otherwise *)
Inductive sev := SendHeader (h : md) | SendMsg (m : str).
Fixpoint fwd_c2s (i : nat) (hdr : md) (msgs : list str) : list sev :=
  match msgs with
  | [] => []
  | m :: r => (if Nat.eqb i 0 then [SendHeader hdr] else []) ++ SendMsg m :: fwd_c2s (S i) hdr r
  end.
Fixpoint ev_hdr (l : list sev) : md :=
  match l with [] => [] | SendHeader h :: _ => h | SendMsg _ :: r => ev_hdr r end.
Fixpoint ev_msgs (l : list sev) : list str :=
  match l with [] => [] | SendHeader _ :: r => ev_msgs r | SendMsg m :: r => m :: ev_msgs r end.

(* forwardServerToClient: RecvMsg from the caller, SendMsg to the backend, until the caller's
   io.EOF, then CloseSend; what the backend has of the frames is what it reads *)
Inductive bev := BSend (m : str) | BCloseSend.
Fixpoint fwd_s2c (msgs : list str) : list bev :=
  match msgs with [] => [BCloseSend] | m :: r => BSend m :: fwd_s2c r end.
Fixpoint bev_msgs (l : list bev) : list str :=
  match l with [] => [] | BSend m :: r => m :: bev_msgs r | BCloseSend :: r => bev_msgs r end.
Definition backend_reads (mode : N) (frames : list bev) : list str :=
  if mode =? 2 then [] else bev_msgs frames.

(* metadata: the director copies the incoming MD into the outgoing context (md.Copy());
   grpc-go's client transport then leaves out the names it reserves for itself
   (internal/transport http_util.go isReservedHeader) *)
Definition reserved_names : list str :=
  map bs ["content-type"; "user-agent"; "grpc-message-type"; "grpc-encoding"; "grpc-message";
          "grpc-status"; "grpc-timeout"; "grpc-status-details-bin"; "te"]%string.
Definition reserved (k : str) : bool :=
  match k with 58 :: _ => true | _ => mem k reserved_names end.      (* ':' pseudo headers *)
Definition md_out (m : md) : md := filter (fun kv => negb (reserved (fst kv))) m.

(* the end of the call: RecvMsg on the backend stream returns io.EOF (handler returns nil:
   OK, no message) or the backend's status error, which is returned as it is *)
Definition final_status (code : N) (msg : str) : N * str := if code =? 0 then (0, []) else (code, msg).

Definition relay (ci : callin) : bview * cview :=
  let sc := ci_script ci in
  let evs := fwd_c2s 0 (sc_hdr sc) (sc_msgs sc) in
  let st := final_status (sc_code sc) (sc_msg sc) in
  (mkbview (ci_method ci) (md_out (ci_md ci)) (backend_reads (sc_mode sc) (fwd_s2c (ci_msgs ci))),
   mkcview (ev_hdr evs) (ev_msgs evs) (sc_trl sc) (fst st) (snd st)).

Definition code_not_found : N := 5.
Definition code_internal : N := 13.
Definition code_unavailable : N := 14.

(* a target nobody can be reached at: its backend is down, or it is a grpcs:// target behind a
   listener without TLS -- newConnection uses TLS only when the LISTENER has a tls.Config
   (grpc_handler.go: target.URL.Scheme == "grpcs" && p.tlscfg != nil), otherwise it dials
   in the clear, and a TLS backend does not answer that *)
Definition s_grpcs : str := bs "grpcs://".
Definition plaintext_to_tls (tls_listener : bool) (u : url) : bool := has_prefix u s_grpcs && negb tls_listener.
Definition unreachable (tls_listener : bool) (down : list url) (u : url) : bool :=
  mem u down || plaintext_to_tls tls_listener u.
Definition err_view (c : N) (m : string) : cview := mkcview [] [] [] c (bs m).

(* Stream interceptor + director + handler: who is contacted with what, what the caller gets *)
Definition call_outcome (t : table) (noglob : bool) (ci : callin) : option (list url * bview) * cview :=
  match icpt_lookup t noglob (Some (ci_md ci)) (ci_upath ci) with
  | None => (None, err_view code_internal "internal error")
  | Some None => (None, err_view code_not_found "no route found")
  | Some (Some ts) => let (b, c) := relay ci in (Some (ts, b), c)
  end.

(* who a routed call reaches and with which status, [k] being the picker's choice: a target
   that cannot be reached makes the call fail with Unavailable *)
Definition call_result (tls_listener : bool) (down : list url) (t : table) (noglob : bool) (ci : callin) (k : nat)
  : option url * N :=
  match call_outcome t noglob ci with
  | (Some (ts, _), c) =>
      match nth_error ts k with
      | Some u => if unreachable tls_listener down u then (None, code_unavailable) else (Some u, cv_code c)
      | None => (None, code_unavailable)
      end
  | (None, c) => (None, cv_code c)
  end.

(* ---- message size limits ----
   main.go:185-186 newGrpcProxy: the listener's server gets MaxRecvMsgSize(GRPCMaxRxMsgSize) and
   MaxSendMsgSize(GRPCMaxTxMsgSize); grpc_handler.go:264 newConnection: the connection to the
   backend gets MaxCallRecvMsgSize(GRPCMaxRxMsgSize) (no send limit).  Direction convention of
   the code today: Rx bounds everything fabio RECEIVES (the caller's requests, and the backend's
   responses), Tx bounds what fabio SENDS to the caller (responses).  grpc-go compares the
   payload length with the limit (a message of exactly the limit passes) and answers
   ResourceExhausted.  One request of [req] bytes, one response of [resp] bytes. *)
Definition code_resource_exhausted : N := 8.
Record sized := mksized { sz_backend_got : bool; sz_caller_got : bool; sz_code : N }.
Definition relay_sized (rx tx req resp : N) : sized :=
  if rx <? req then mksized false false code_resource_exhausted
  else if (rx <? resp) || (tx <? resp) then mksized true false code_resource_exhausted
  else mksized true true 0.

(* ---- the proxy as a state machine over histories ---- *)
Record state := mks { s_tbl : table; s_pool : pstate }.
Inductive op :=
| Call (m : md) (path : str) (k : nat)    (* k: the picker's choice among the route's targets *)
| SetTable (t : table)
| CleanupTick
| ConnShutdown (u : url).

Definition step (noglob : bool) (s : state) (o : op) : state :=
  match o with
  | Call m path k =>
      match lookup (s_tbl s) noglob (dsthost m) path with
      | None => s
      | Some ts => match nth_error ts k with
                   | Some u => mks (s_tbl s) (fst (p_get (s_pool s) u))
                   | None => s
                   end
      end
  | SetTable t => mks t (s_pool s)
  | CleanupTick => mks (s_tbl s) (p_tick (table_urls (s_tbl s)) (s_pool s))
  | ConnShutdown u => mks (s_tbl s) (p_shutdown (s_pool s) u)
  end.
Definition run (noglob : bool) (s : state) (ops : list op) : state := fold_left (step noglob) ops s.

(* the connection a call is served on, if it is routed *)
Definition call_conn (noglob : bool) (s : state) (m : md) (path : str) (k : nat) : option (url * N) :=
  match lookup (s_tbl s) noglob (dsthost m) path with
  | None => None
  | Some ts => match nth_error ts k with
               | Some u => Some (u, snd (p_get (s_pool s) u))
               | None => None
               end
  end.

(* ---- callers inside Get at the same time ----
   UNREPAIRED variant (before /repo 8fc2c4a): read the map under the read lock; on a miss dial
   and Set under the write lock (dial and Set merged here: nothing observable in between). *)
Inductive pc := AtRead | AtDial (hit : option N) | Done (c : N).
Definition thread_step (s : pstate) (u : url) (p : pc) : pstate * pc :=
  match p with
  | AtRead => (s, AtDial (match assoc u (p_pool s) with
                          | Some c => if live s c then Some c else None
                          | None => None end))
  | AtDial (Some c) => (s, Done c)
  | AtDial None => let (s', c) := p_dial_set s u in (s', Done c)
  | Done c => (s, Done c)
  end.
(* two threads, both calling Get u; a schedule names which thread moves next *)
Fixpoint run2 (s : pstate) (u : url) (a b : pc) (sched : list bool) : pstate * pc * pc :=
  match sched with
  | [] => (s, a, b)
  | false :: r => let (s', a') := thread_step s u a in run2 s' u a' b r
  | true :: r => let (s', b') := thread_step s u b in run2 s' u a b' r
  end.

(* The code today: Get is three atomic actions per caller -- the read-locked lookup, the dial
   (no lock, the connection is known to the caller only), the check-and-set under the write
   lock.  Any number of callers for one target; a schedule is the list of thread indices
   that move (an index naming no thread or a finished thread changes nothing). *)
Inductive gpc := GRead | GDial | GSet (c : N) | GDone (c : N).
Definition gstep (s : pstate) (u : url) (p : gpc) : pstate * gpc :=
  match p with
  | GRead => (s, match assoc u (p_pool s) with
                 | Some c => if live s c then GDone c else GDial
                 | None => GDial
                 end)
  | GDial => let (s1, c) := p_log_dial s u in (s1, GSet c)
  | GSet c => let (s2, r) := p_set_if_absent s u c in (s2, GDone r)
  | GDone c => (s, GDone c)
  end.
Definition gstep_at (s : pstate) (u : url) (ths : list gpc) (i : nat) : pstate * list gpc :=
  match nth_error ths i with
  | None => (s, ths)
  | Some p => let (s1, p1) := gstep s u p in (s1, firstn i ths ++ p1 :: skipn (S i) ths)
  end.
Fixpoint grun (s : pstate) (u : url) (ths : list gpc) (sched : list nat) : pstate * list gpc :=
  match sched with
  | [] => (s, ths)
  | i :: r => let (s1, ths1) := gstep_at s u ths i in grun s1 u ths1 r
  end.
(* the same with callers for different targets, and cleanup ticks, table changes and
   connection shutdowns happening in between *)
Inductive mact := MThread (i : nat) | MTick | MSetTable (urls : list url) | MShutdown (u : url).
Definition mstep_at (s : pstate) (ths : list (url * gpc)) (i : nat) : pstate * list (url * gpc) :=
  match nth_error ths i with
  | None => (s, ths)
  | Some (u, p) => let (s1, p1) := gstep s u p in (s1, firstn i ths ++ (u, p1) :: skipn (S i) ths)
  end.
Definition mstep (st : list url * pstate * list (url * gpc)) (a : mact) : list url * pstate * list (url * gpc) :=
  let '(urls, s, ths) := st in
  match a with
  | MThread i => let (s1, ths1) := mstep_at s ths i in (urls, s1, ths1)
  | MTick => (urls, p_tick urls s, ths)
  | MSetTable t => (t, s, ths)
  | MShutdown u => (urls, p_shutdown s u, ths)
  end.
Definition mrun (st : list url * pstate * list (url * gpc)) (sched : list mact) := fold_left mstep sched st.
Definition g_done (p : gpc) : bool := match p with GDone _ => true | _ => false end.

(* a connection nobody can reach any more: dialled, live, not in the pool *)
Definition orphan (s : pstate) (c : N) : bool :=
  existsb (fun d => fst d =? c) (p_dials s) && live s c && negb (existsb (fun kc => snd kc =? c) (p_pool s)).
