(** Model of what a pooled backend connection does while a call on it is QUIET -- nobody sends
    anything for a while: a watch / subscribe stream between two events, a long poll, a slow
    unary call -- and between calls.

    Two sites decide whether such a call survives.  (1) The CLIENT side of the connection, i.e.
    the dial options of proxy/grpc_handler.go newConnection: with grpc.WithKeepaliveParams the
    client transport (grpc-go internal/transport/http2_client.go keepalive()) sends an HTTP/2
    PING whenever it has read nothing for Time seconds (Time is raised to 10 s, dialoptions.go)
    while a stream is open (or always, with PermitWithoutStream); without streams it goes
    dormant and pings once when the next stream is opened.  Without the option Time is infinity:
    the connection never pings.  (2) The BACKEND: a gRPC server enforces a keepalive policy
    (http2_server.go handlePing; grpc-java and C-core do the same): a ping that arrives less than
    MinTime (default 5 minutes; 2 hours without a stream unless PermitWithoutStream) after the
    previous one, with nothing sent by the server in between, is a strike, and the third strike
    is answered with GOAWAY ENHANCE_YOUR_CALM "too_many_pings" and the connection is closed:
    every call in flight on it fails, what the backend would have sent later is lost.

    [proxy_keepalive] is what newConnection passes (nothing); the machine is parametric in the
    client's parameters and the backend's policy so that the theorems can say which combinations
    are safe, and so that the harness can test the machine itself against grpc-go with clients
    of its own.  Time is in whole seconds (abstract); calls themselves take no time.
    No proofs in this file. *)
From Coq Require Import String List NArith Bool.
From Fabio Require Import Lib.Outcome Lib.Bytes Model.GrpcPool.
Import ListNotations.
Local Open Scope N_scope.

(* keepalive.ClientParameters *)
Record kparams := mkka { ka_time : N; ka_timeout : N; ka_permit : bool }.
(* keepalive.EnforcementPolicy *)
Record policy := mkpol { pol_min : N; pol_permit : bool }.

(* grpc_handler.go newConnection: codec, receive limit, credentials -- no keepalive option *)
Definition proxy_keepalive : option kparams := None.

Definition ka_floor : N := 10.                       (* internal.KeepaliveMinPingTime *)
Definition eff_time (k : kparams) : N := N.max (ka_time k) ka_floor.
Definition stock_policy : policy := mkpol 300 false. (* defaultKeepalivePolicyMinTime, PermitWithoutStream false *)
Definition max_strikes : N := 2.                     (* maxPingStrikes *)
Definition idle_gap : N := 7200.                     (* defaultPingTimeout, 2 h *)

(* one HTTP/2 connection between a client (the proxy's pooled channel, or a client of the
   harness) and a backend *)
Record kconn := mkk {
  k_now : N;              (* seconds since the connection was established *)
  k_since : N;            (* client: seconds since it last read a frame from the backend *)
  k_dormant : bool;       (* client: the keepalive loop waits for a stream to be opened *)
  k_streams : N;          (* calls in flight *)
  k_strikes : N;          (* backend: pingStrikes *)
  k_reset : bool;         (* backend: resetPingStrikes, set by every header / data / trailer it writes *)
  k_last : option N;      (* backend: lastPingAt (None: no ping yet) *)
  k_pings : N;            (* keepalive pings the backend has received (log) *)
  k_dead : bool           (* the backend has answered too_many_pings and closed the connection *)
}.
Definition k_fresh : kconn := mkk 0 0 false 0 0 false None 0 false.
(* the connection that replaces a closed one; the ping log goes on *)
Definition k_renew (c : kconn) : kconn := mkk 0 0 false 0 0 false None (k_pings c) false.

Definition advance (d : N) (c : kconn) : kconn :=
  mkk (k_now c + d) (k_since c + d) (k_dormant c) (k_streams c) (k_strikes c) (k_reset c) (k_last c) (k_pings c) (k_dead c).
(* the backend writes a header, a message or a trailer; the client reads it *)
Definition read_frame (c : kconn) : kconn :=
  mkk (k_now c) 0 (k_dormant c) (k_streams c) (k_strikes c) true (k_last c) (k_pings c) (k_dead c).
Definition set_streams (n : N) (c : kconn) : kconn :=
  mkk (k_now c) (k_since c) (k_dormant c) n (k_strikes c) (k_reset c) (k_last c) (k_pings c) (k_dead c).
Definition set_dormant (b : bool) (c : kconn) : kconn :=
  mkk (k_now c) (k_since c) b (k_streams c) (k_strikes c) (k_reset c) (k_last c) (k_pings c) (k_dead c).

(* http2_server.go handlePing for a ping that is not an ack *)
Definition handle_ping (pol : policy) (c : kconn) : kconn :=
  if k_reset c
  then mkk (k_now c) (k_since c) (k_dormant c) (k_streams c) 0 false (Some (k_now c)) (k_pings c) (k_dead c)
  else
    let gap := if (k_streams c =? 0) && negb (pol_permit pol) then idle_gap else pol_min pol in
    let strike := match k_last c with Some l => k_now c <? l + gap | None => false end in
    let s := if strike then k_strikes c + 1 else k_strikes c in
    mkk (k_now c) (k_since c) (k_dormant c) (k_streams c) s false (Some (k_now c)) (k_pings c)
        (k_dead c || (max_strikes <? s)).

(* a keepalive ping of the client: the backend handles it and acks; the ack is a frame read *)
Definition ka_ping (pol : policy) (c : kconn) : kconn :=
  let c1 := handle_ping pol c in
  mkk (k_now c1) 0 (k_dormant c1) (k_streams c1) (k_strikes c1) (k_reset c1) (k_last c1) (k_pings c1 + 1) (k_dead c1).

(* [n] timer expiries of the client's keepalive loop in a row: each comes when nothing was read
   for [T] seconds; a closed connection pings no more *)
Fixpoint ka_pings (pol : policy) (T : N) (n : nat) (c : kconn) : kconn :=
  match n with
  | O => c
  | S n' => if k_dead c then c else ka_pings pol T n' (ka_ping pol (advance (T - k_since c) c))
  end.

(* [d] seconds in which the backend writes nothing and no call begins or ends *)
Definition kwait (ka : option kparams) (pol : policy) (d : N) (c : kconn) : kconn :=
  match ka with
  | None => advance d c
  | Some k =>
      let T := eff_time k in
      if k_dormant c then advance d c
      else if (0 <? k_streams c) || ka_permit k then
        let n := (k_since c + d) / T in
        if n =? 0 then advance d c
        else let c1 := ka_pings pol T (N.to_nat n) c in
             if k_dead c1 then c1 else advance ((k_since c + d) mod T) c1
      else if T <=? k_since c + d then set_dormant true (advance d c)
      else advance d c
  end.

Inductive kev :=
| KOpen          (* a call begins: request headers *)
| KHeader        (* the backend sends its headers (before its first message) *)
| KData          (* the backend sends a message, and nothing else for a moment *)
| KClose         (* the backend sends trailers and status: the call is over *)
| KWait (d : N).

Definition kstep (ka : option kparams) (pol : policy) (c : kconn) (e : kev) : kconn :=
  if k_dead c then c else
  match e with
  | KOpen =>
      let c1 := set_streams (k_streams c + 1) c in
      match ka with
      | Some _ => if k_dormant c then ka_ping pol (set_dormant false c1) else c1
      | None => c1
      end
  | KHeader => if k_streams c =? 0 then c else read_frame c      (* a backend writes on a call only *)
  (* the client answers data with a BDP ping (bdp_estimator.go), a PING for the backend's
     handlePing like any other; it arrives a round trip after the data.  Domain: the backend
     writes nothing else in that round trip (otherwise the order of the two is a race) *)
  | KData => if k_streams c =? 0 then c else handle_ping pol (read_frame c)
  | KClose => if k_streams c =? 0 then c else set_streams (k_streams c - 1) (read_frame c)
  | KWait d => kwait ka pol d c
  end.
Definition krun (ka : option kparams) (pol : policy) (c : kconn) (evs : list kev) : kconn :=
  fold_left (kstep ka pol) evs c.

(* ---- quiet calls ---- *)
(* what the backend does with a call after it has read the requests: send its headers early,
   send a message, do nothing for [d] seconds; then trailers and status *)
Inductive qph := PHdr | PMsg (m : str) | PQuiet (d : N).
Definition ph_ev (p : qph) : kev :=
  match p with PHdr => KHeader | PMsg _ => KData | PQuiet d => KWait d end.
Fixpoint ph_msgs (ph : list qph) : list str :=
  match ph with
  | [] => []
  | PMsg m :: r => m :: ph_msgs r
  | _ :: r => ph_msgs r
  end.
(* the phases on the connection; stops when the connection is closed under the call; result:
   connection, messages that were sent on it *)
Fixpoint qphases (ka : option kparams) (pol : policy) (c : kconn) (ph : list qph) (acc : list str) : kconn * list str :=
  match ph with
  | [] => (c, acc)
  | p :: r =>
      let c1 := kstep ka pol c (ph_ev p) in
      if k_dead c1 then (c1, acc)
      else qphases ka pol c1 r (match p with PMsg m => acc ++ [m] | _ => acc end)
  end.

Record qcall := mkqcall {
  qc_md : md; qc_method : str; qc_reqs : list str;
  qc_hdr : md; qc_phases : list qph; qc_trl : md; qc_code : N; qc_msg : str }.
(* the call as the relay of Model/GrpcPool.v sees it: the script without its timing *)
Definition qc_script (q : qcall) : script :=
  mkscript 0 (qc_hdr q) (ph_msgs (qc_phases q)) (qc_trl q) (qc_code q) (qc_msg q).
Definition qc_callin (q : qcall) : callin :=
  mkcallin (qc_md q) (qc_method q) (Some (qc_method q)) (qc_reqs q) (qc_script q).

(* a history on ONE backend: calls one after the other, pauses in between *)
Inductive qitem := QCall (q : qcall) | QGap (d : N).
(* who talks to the backend: the proxy (a caller on the other side of it), or a client of the
   harness with keepalive parameters of its own *)
Inductive qvia := QProxy | QDirect (ka : option kparams).
Definition via_keepalive (v : qvia) : option kparams :=
  match v with QProxy => proxy_keepalive | QDirect ka => ka end.

Record qstate := mkq {
  q_conn : kconn;
  q_up : bool;         (* the channel holds a connection *)
  q_begun : N;         (* connections begun / ended at the backend *)
  q_ended : N }.
Definition q_init : qstate := mkq k_fresh false 0 0.

(* what is seen after an item: the call's two views (a pause has none), keepalive pings the
   backend has received so far, connections begun / ended at the backend so far *)
Record qout := mkqout {
  qo_alive : bool;              (* the connection was not closed under the item *)
  qo_bv : option bview; qo_cv : cview;
  qo_pings : N; qo_begun : N; qo_ended : N }.
Definition no_view : cview := mkcview [] [] [] 0 [].

Definition qstep (v : qvia) (pol : policy) (s : qstate) (it : qitem) : qstate * qout :=
  let ka := via_keepalive v in
  match it with
  | QGap d =>
      if q_up s then
        let c := kstep ka pol (q_conn s) (KWait d) in
        if k_dead c
        then (mkq c false (q_begun s) (q_ended s + 1), mkqout false None no_view (k_pings c) (q_begun s) (q_ended s + 1))
        else (mkq c true (q_begun s) (q_ended s), mkqout true None no_view (k_pings c) (q_begun s) (q_ended s))
      else (s, mkqout true None no_view (k_pings (q_conn s)) (q_begun s) (q_ended s))
  | QCall q =>
      (* a channel without a connection connects *)
      let c0 := if q_up s then q_conn s else k_renew (q_conn s) in
      let begun := if q_up s then q_begun s else q_begun s + 1 in
      let (b, cv) := relay (qc_callin q) in
      let bv := match v with QProxy => Some b | QDirect _ => None end in
      let (c2, sent) := qphases ka pol (kstep ka pol c0 KOpen) (qc_phases q) [] in
      if k_dead c2
      then (mkq c2 false begun (q_ended s + 1),
            mkqout false bv (mkcview [] sent [] code_unavailable []) (k_pings c2) begun (q_ended s + 1))
      else let c3 := kstep ka pol c2 KClose in
           (mkq c3 true begun (q_ended s), mkqout true bv cv (k_pings c3) begun (q_ended s))
  end.
Fixpoint qrun (v : qvia) (pol : policy) (s : qstate) (items : list qitem) : list qout :=
  match items with
  | [] => []
  | it :: r => let (s1, o) := qstep v pol s it in o :: qrun v pol s1 r
  end.
