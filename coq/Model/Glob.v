(** Model of github.com/gobwas/glob v0.2.3 as fabio uses it for host patterns
    (route/glob_cache.go:41 [glob.Compile(pattern)]) and for route paths
    (route/table.go:169 [glob.Compile(path)]): compiled WITHOUT separators, so
    [*] and [**] both match any (possibly empty) sequence of characters,
    [?] matches exactly one character, everything else in the modelled domain
    is a literal.
    Modelled domain ([glob_domain]): printable ASCII without the three bytes that
    start other syntax: '[' (character class), '{' (alternation), '\' (escape).
    (']' '}' ',' '!' '-' are plain text outside a class / alternation in the
    gobwas lexer.)  Patterns and subjects outside the domain are excluded and
    counted by the harness; the model is tested against the real library on
    every run (case [CGlob]). *)
From Coq Require Import List NArith Bool.
From Fabio Require Import Lib.Bytes.
Import ListNotations.
Local Open Scope N_scope.

Inductive tok := TLit (c : N) | TAny1 | TStar.

Definition ch_star : N := 42.   (* '*' *)
Definition ch_qm : N := 63.     (* '?' *)

Definition tok_of (c : N) : tok :=
  if c =? ch_star then TStar else if c =? ch_qm then TAny1 else TLit c.

Definition parse_glob (p : str) : list tok := map tok_of p.

(* backtracking matcher; the inner [fix] tries every split point of a star *)
Fixpoint gmatch (p : list tok) : str -> bool :=
  match p with
  | [] => fun s => match s with [] => true | _ => false end
  | TLit c :: p' => fun s => match s with x :: s' => (x =? c) && gmatch p' s' | [] => false end
  | TAny1 :: p' => fun s => match s with _ :: s' => gmatch p' s' | [] => false end
  | TStar :: p' =>
      fix star (s : str) : bool :=
        gmatch p' s || match s with [] => false | _ :: s' => star s' end
  end.

Definition glob_match (pattern s : str) : bool := gmatch (parse_glob pattern) s.

(* the bytes that start syntax outside the model *)
Definition is_unmodelled (c : N) : bool := (c =? 91) || (c =? 123) || (c =? 92).
Definition printable (c : N) : bool := (33 <=? c) && (c <=? 126).
Definition glob_domain (p : str) : bool :=
  forallb (fun c => printable c && negb (is_unmodelled c)) p.
Definition subject_domain (s : str) : bool := forallb printable s.

(* metacharacters inside the modelled domain *)
Definition is_meta (c : N) : bool := (c =? ch_star) || (c =? ch_qm).
Definition has_meta (p : str) : bool := existsb is_meta p.
(* only [*] as metacharacter *)
Definition star_only (p : str) : bool := negb (existsb (fun c => c =? ch_qm) p).

(* the literal tail: the longest suffix without a metacharacter *)
Fixpoint take_lits (r : str) : str :=
  match r with
  | [] => []
  | c :: r' => if is_meta c then [] else c :: take_lits r'
  end.
Definition lit_tail (p : str) : str := rev (take_lits (rev p)).

(* ---------- what gobwas/glob v0.2.3 actually computes ----------
   The library compiles patterns to specialised matchers.  On the modelled domain it
   agrees with [glob_match] except for two shapes (found by the correspondence run
   and confirmed by 3*10^6 random pattern/subject pairs against a reference matcher):
   - literal, one or more '*', literal  ->  match.PrefixSuffix (compiler.go:73-77,
     match/prefix_suffix.go): HasPrefix && HasSuffix with no check that prefix and
     suffix do not overlap, so "b.*.com" matches "b.com" and "/*/" matches "/";
   - the pattern "?" alone -> match.Single (match/single.go:23-30) accepts the
     empty string. *)
Fixpoint drop_stars (p : str) : str :=
  match p with
  | c :: p' => if c =? ch_star then drop_stars p' else p
  | [] => []
  end.

Definition prefix_suffix_shape (p : str) : option (str * str) :=
  let pre := take_lits p in
  match pre, skipn (length pre) p with
  | _ :: _, c :: rest =>
      if c =? ch_star then
        let suf := drop_stars rest in
        match suf with
        | _ :: _ => if has_meta suf then None else Some (pre, suf)
        | [] => None
        end
      else None
  | _, _ => None
  end.

Definition gobwas_match (pattern s : str) : bool :=
  if beq pattern [ch_qm] then Nat.leb (length s) 1
  else match prefix_suffix_shape pattern with
       | Some (pre, suf) => has_prefix s pre && has_suffix s suf
       | None => glob_match pattern s
       end.

(* the pattern/subject pairs on which the library deviates from glob semantics *)
Definition gobwas_deviates (pattern s : str) : bool :=
  negb (Bool.eqb (gobwas_match pattern s) (glob_match pattern s)).
