(** Model of route/glob_cache.go as far as the configured size matters
    ([NewGlobCache], [GlobCache.Get]), and of what config/load.go does with
    [glob.cache.size]: load.go:245 registers the int flag, load.go:364 rejects
    values <= 0 (fix e17deb4; before it no statement looked at the value, kept as
    [load_accepts_glob_cache_size_unrepaired]); main.go:170,194 pass it to
    [route.NewGlobCache].  Whether a pattern compiles ([glob.Compile]) is data
    supplied with each call.  No proofs here (Proofs/GlobCacheSize.v). *)
From Coq Require Import List NArith ZArith Bool.
From Fabio Require Import Lib.Outcome Lib.Bytes.
Import ListNotations.
Local Open Scope outcome_scope.

Record gcache := {
  g_l : list str;     (* l []string, fixed length = configured size *)
  g_h : nat;          (* h *)
  g_n : nat;          (* n *)
  g_m : list str      (* keys of the sync.Map m *)
}.

(* make([]string, size): panics for size < 0 *)
Definition new_glob_cache (size : Z) : outcome gcache :=
  if (size <? 0)%Z then Panic
  else Ok {| g_l := repeat [] (Z.to_nat size); g_h := O; g_n := O; g_m := [] |}.

Definition mem (k : str) (m : list str) : bool := existsb (beq k) m.
Definition remove_key (k : str) (m : list str) : list str := filter (fun x => negb (beq x k)) m.
Definition store_key (k : str) (m : list str) : list str := if mem k m then m else m ++ [k].

Fixpoint set_nth (l : list str) (i : nat) (v : str) : list str :=
  match l, i with
  | [], _ => []
  | _ :: t, O => v :: t
  | x :: t, S j => x :: set_nth t j v
  end.

(* Get(pattern): Ok true = served from the map, Ok false = compiled and stored,
   Err 1 = glob.Compile failed, Panic = index out of range / integer divide by zero *)
Definition glob_get (c : gcache) (pattern : str) (compiles : bool) : outcome (gcache * bool) :=
  if mem pattern (g_m c) then Ok (c, true) else
  check compiles else 1;
  if Nat.ltb (g_n c) (length (g_l c)) then
    (* c.m.Store; c.l[c.n] = pattern; c.n++ *)
    Ok ({| g_l := set_nth (g_l c) (g_n c) pattern; g_h := g_h c; g_n := S (g_n c);
           g_m := store_key pattern (g_m c) |}, false)
  else
    (* c.m.Delete(c.l[c.h]) : checked index *)
    match nth_error (g_l c) (g_h c) with
    | None => Panic
    | Some old =>
        let m1 := store_key pattern (remove_key old (g_m c)) in
        (* c.h = (c.h + 1) % c.n *)
        match g_n c with
        | O => Panic
        | n => Ok ({| g_l := set_nth (g_l c) (g_h c) pattern; g_h := Nat.modulo (S (g_h c)) n;
                      g_n := g_n c; g_m := m1 |}, false)
        end
    end.

(* a sequence of lookups on a fresh cache of the configured size: outcomes per call;
   stops at the first panic (the request goroutine dies) *)
Fixpoint glob_run (c : gcache) (calls : list (str * bool)) : list (outcome bool) :=
  match calls with
  | [] => []
  | (p, ok) :: r =>
      match glob_get c p ok with
      | Ok (c', hit) => Ok hit :: glob_run c' r
      | Err k => Err k :: glob_run c r
      | Panic => [Panic]
      end
  end.

(* the cache after the same sequence (up to the first panic) *)
Fixpoint glob_final (c : gcache) (calls : list (str * bool)) : gcache :=
  match calls with
  | [] => c
  | (p, ok) :: r =>
      match glob_get c p ok with
      | Ok (c', _) => glob_final c' r
      | Err _ => glob_final c r
      | Panic => c
      end
  end.

Definition glob_session (size : Z) (calls : list (str * bool)) : outcome (list (outcome bool)) :=
  do c <- new_glob_cache size; Ok (glob_run c calls).

(* config/load.go:364-366 (after fix e17deb4):
     if cfg.GlobCacheSize <= 0 { return nil, fmt.Errorf("glob.cache.size must be greater than zero") } *)
Definition load_accepts_glob_cache_size (size : Z) : bool := (0 <? size)%Z.

(* the check does not look at glob.matching.disabled, and must not: main.go:170
   (newGrpcProxy) and main.go:194 (newHTTPProxy) call route.NewGlobCache(cfg.GlobCacheSize)
   whether or not glob matching is disabled *)
Definition load_accepts_glob_settings (size : Z) (matching_disabled : bool) : bool :=
  load_accepts_glob_cache_size size.

(* before e17deb4 there was no check (repaired in /repo; refutation theorems only) *)
Definition load_accepts_glob_cache_size_unrepaired (size : Z) : bool := true.

(* config.Load with glob.cache.size = size, then, if a configuration was returned, main.go's
   route.NewGlobCache(cfg.GlobCacheSize) and the lookups.  Err 1 = Load returned an error. *)
Definition load_then_use (size : Z) (calls : list (str * bool)) : outcome (list (outcome bool)) :=
  if load_accepts_glob_cache_size size then glob_session size calls else Err 1.
Definition load_then_use_settings (size : Z) (matching_disabled : bool) (calls : list (str * bool))
  : outcome (list (outcome bool)) :=
  if load_accepts_glob_settings size matching_disabled then glob_session size calls else Err 1.
Definition load_then_use_unrepaired (size : Z) (calls : list (str * bool)) : outcome (list (outcome bool)) :=
  if load_accepts_glob_cache_size_unrepaired size then glob_session size calls else Err 1.

(* "an accepted configuration can be run": creating the cache and the first lookup of a
   compilable pattern do not panic *)
Definition first_use (size : Z) (pattern : str) : outcome (list (outcome bool)) :=
  glob_session size [(pattern, true)].

Definition runnable (size : Z) (pattern : str) : bool :=
  match first_use size pattern with
  | Ok [Ok _] => true
  | _ => false
  end.
