(** C06 - interleaving semantics and the shared effects of a lookup.

    Threads are small machines whose every step is ONE atomic action on a shared
    state (the granularity is the modelling assumption and follows the Go memory
    model: a plain read and a later atomic add are two actions; one call of a
    sync.Map method or of atomic.AddUint64 is one).  A schedule is a list of thread
    ids; [run] executes it by recursion, so every theorem proved by induction over
    the schedule holds for every interleaving and any number of threads.  A step of
    a finished thread, or of an id that names no thread, does nothing.

    Modelled here:
      * route/picker.go rrPicker             (one fetch-and-add per pick; the torn picker
                                               before fix 633ec31 as [rr_step_unrepaired])
      * route/table.go Lookup + route/target.go BuildRedirectURL + proxy/http_proxy.go
                                               the redirect URL, built on a per-request copy of the target
                                               (before fix ddf101c on the SHARED target: [rd_step_unrepaired])
      * a lookup with its shared effects made explicit ([lookup], for
        lookup_pure_modulo_shared)
    route/glob_cache.go is in Model/GlobCacheC06.v.  No proofs in this file. *)
From Coq Require Import List NArith Bool Arith.
From Fabio Require Import Lib.Outcome Lib.Bytes.
Import ListNotations.

(* ---------------------------------------------------------------- scheduler *)
Fixpoint upd {A} (l : list A) (i : nat) (v : A) : list A :=
  match l, i with
  | [], _ => []
  | _ :: t, O => v :: t
  | x :: t, S j => x :: upd t j v
  end.

Definition step1 {S L} (tstep : S -> L -> S * L) (s : S) (ts : list L) (i : nat) : S * list L :=
  match nth_error ts i with
  | Some l => let '(s', l') := tstep s l in (s', upd ts i l')
  | None => (s, ts)
  end.

Fixpoint run {S L} (tstep : S -> L -> S * L) (sched : list nat) (s : S) (ts : list L) : S * list L :=
  match sched with
  | [] => (s, ts)
  | i :: r => let '(s', ts') := step1 tstep s ts i in run tstep r s' ts'
  end.

(* the serial schedule: thread 0 runs [k] steps, then thread 1, ... *)
Fixpoint serial (k : nat) (from n : nat) : list nat :=
  match n with
  | O => []
  | S n' => repeat from k ++ serial k (S from) n'
  end.

(* ---------------------------------------------------------------- rrPicker *)
(* The code as it is (after fix commit 633ec31 "round-robin picker reads its cursor outside the
   atomic increment"), [rr_step_atomic]:
     func rrPicker(r *Route) *Target {
         n := atomic.AddUint64(&r.total, 1) - 1             // ONE fetch-and-add per pick
         return r.wTargets[n%uint64(len(r.wTargets))] }
   The code before the fix, [rr_step_unrepaired] (kept for the refutation theorem):
         u := r.wTargets[r.total%uint64(len(r.wTargets))]   // plain read of r.total
         atomic.AddUint64(&r.total, 1)                      // atomic read-modify-write
         return u
   Shared state: the cursor r.total (uint64).  A thread performs [rr_todo] picks and
   records the cursor value each pick indexed the ring with. *)
Definition two64 : N := 18446744073709551616.

Inductive rr_pc := RRead | RIndex | RAdd | RDone.
Record rr_local := { rr_at : rr_pc; rr_todo : nat; rr_reg : N; rr_seen : list N }.

Definition rr_init (picks : nat) : rr_local :=
  {| rr_at := match picks with O => RDone | S _ => RRead end; rr_todo := picks; rr_reg := 0%N; rr_seen := [] |}.

(* before 633ec31: [read total] [compute the index - local] [atomic add] *)
Definition rr_step_unrepaired (total : N) (l : rr_local) : N * rr_local :=
  match rr_at l with
  | RRead => (total, {| rr_at := RIndex; rr_todo := rr_todo l; rr_reg := total; rr_seen := rr_seen l |})
  | RIndex => (total, {| rr_at := RAdd; rr_todo := rr_todo l; rr_reg := rr_reg l; rr_seen := rr_seen l ++ [rr_reg l] |})
  | RAdd => (N.modulo (total + 1) two64,
             match rr_todo l with
             | S (S k) => {| rr_at := RRead; rr_todo := S k; rr_reg := rr_reg l; rr_seen := rr_seen l |}
             | _ => {| rr_at := RDone; rr_todo := O; rr_reg := rr_reg l; rr_seen := rr_seen l |}
             end)
  | RDone => (total, l)
  end.

(* the code as it is: the pick uses the value the atomic add returns (one fetch-and-add per pick) *)
Definition rr_step_atomic (total : N) (l : rr_local) : N * rr_local :=
  match rr_todo l with
  | O => (total, l)
  | S k => (N.modulo (total + 1) two64,
            {| rr_at := match k with O => RDone | S _ => RRead end; rr_todo := k; rr_reg := total;
               rr_seen := rr_seen l ++ [total] |})
  end.

Definition all_seen (ts : list rr_local) : list N := concat (map rr_seen ts).

(* r.wTargets[c % len]: integer divide by zero on an empty ring *)
Definition slot {T} (ring : list T) (c : N) : outcome T :=
  match ring with
  | [] => Panic
  | _ => match nth_error ring (N.to_nat (N.modulo c (N.of_nat (length ring)))) with
         | Some t => Ok t
         | None => Panic
         end
  end.

(* the cursor values of [j] consecutive picks starting at cursor [c] (uint64 wrap included) *)
Definition consecutive (c : N) (j : nat) : list N :=
  map (fun k => N.modulo (c + N.of_nat k) two64) (seq 0 j).

(* the same [j] picks read off the ring directly: start at c mod len and walk round
   (equal to [map (slot ring) (consecutive c j)] while the cursor does not wrap) *)
Definition window {T} (ring : list T) (c : N) (j : nat) : list T :=
  let len := length ring in
  firstn j (skipn (N.to_nat (N.modulo c (N.of_nat len))) (concat (repeat ring (Nat.div j len + 2)))).

Fixpoint count_nat (x : nat) (l : list nat) : nat :=
  match l with [] => O | y :: r => (if Nat.eqb x y then 1 else 0) + count_nat x r end.

(* ring positions (no wrap) of the cursor values *)
Definition positions (len : nat) (cs : list N) : list nat :=
  map (fun c => N.to_nat (N.modulo c (N.of_nat len))) cs.

(* ---------------------------------------------------------------- rr lookups concurrent with table replacement *)
(* route.SetTable(t) is ONE atomic publication (table.Store(t), an atomic.Value); a table is immutable
   afterwards except for the cursors of its own routes, which only lookups advance (fetch-and-add); a
   fresh table's cursors are 0.  A lookup is two actions: route.GetTable() (one atomic load of the
   current table) and the pick on the route of THAT table.  One (host, path) route is followed through
   the generations of the table: shared state = the current generation and one cursor per generation. *)
Record tb_shared := { tb_cur : nat; tb_cursors : list N }.
Inductive tb_pc := TLoad | TPick | TSet | TStop.
Record tb_local := { tb_at : tb_pc; tb_todo : nat; tb_reg : nat; tb_seen : list (nat * N) }.
(* a goroutine doing [k] lookups / a writer installing [k] tables *)
Definition tb_reader (k : nat) : tb_local :=
  {| tb_at := match k with O => TStop | _ => TLoad end; tb_todo := k; tb_reg := O; tb_seen := [] |}.
Definition tb_writer (k : nat) : tb_local :=
  {| tb_at := match k with O => TStop | _ => TSet end; tb_todo := k; tb_reg := O; tb_seen := [] |}.
Definition cur_of (s : tb_shared) (g : nat) : N := nth g (tb_cursors s) 0%N.

Definition tb_step (s : tb_shared) (l : tb_local) : tb_shared * tb_local :=
  match tb_at l with
  | TLoad => (s, {| tb_at := TPick; tb_todo := tb_todo l; tb_reg := tb_cur s; tb_seen := tb_seen l |})
  | TPick => let c := cur_of s (tb_reg l) in
             ({| tb_cur := tb_cur s; tb_cursors := upd (tb_cursors s) (tb_reg l) (N.modulo (c + 1) two64) |},
              {| tb_at := match tb_todo l with S (S _) => TLoad | _ => TStop end; tb_todo := pred (tb_todo l);
                 tb_reg := tb_reg l; tb_seen := tb_seen l ++ [(tb_reg l, c)] |})
  | TSet => ({| tb_cur := length (tb_cursors s); tb_cursors := tb_cursors s ++ [0%N] |},       (* ASetTable *)
             {| tb_at := match tb_todo l with S (S _) => TSet | _ => TStop end; tb_todo := pred (tb_todo l);
                tb_reg := tb_reg l; tb_seen := tb_seen l |})
  | TStop => (s, l)
  end.

(* the cursor values of the picks served by generation [g], over all goroutines *)
Definition seen_of (g : nat) (l : tb_local) : list N :=
  map snd (filter (fun p => Nat.eqb (fst p) g) (tb_seen l)).
Definition seen_gen (g : nat) (ts : list tb_local) : list N := concat (map (seen_of g) ts).

(* ---------------------------------------------------------------- rndPicker (the default strategy) *)
(* func rndPicker(r *Route) *Target { return r.wTargets[randIntn(len(r.wTargets))] }
   randIntn(n) is 0 for n == 0 and math/rand.Intn(n) otherwise: the package-level generator, which is
   safe for concurrent use.  The generator is the ONLY shared state of a rnd pick; it is abstract here:
   [draw st n] returns the new generator state and an index, one linearizable action (ASSUMPTION, see
   checks/C06.json; a private *rand.Rand would not satisfy it).  A thread performs [rn_todo] picks and
   records what each returned (Panic = index out of range). *)
Record rn_local := { rn_todo : nat; rn_picks : list (outcome nat) }.
Definition rn_init (picks : nat) : rn_local := {| rn_todo := picks; rn_picks := [] |}.
Definition rn_step {St} (draw : St -> nat -> St * nat) (ring : list nat) (st : St) (l : rn_local) : St * rn_local :=
  match rn_todo l with
  | O => (st, l)
  | S k => let '(st', i) := match ring with [] => (st, O) | _ => draw st (length ring) end in
           (st', {| rn_todo := k;
                    rn_picks := rn_picks l ++ [match nth_error ring i with Some t => Ok t | None => Panic end] |})
  end.

(* ---------------------------------------------------------------- redirect URL on the shared target *)
(* Table.Lookup, for a target with RedirectCode != 0, calls target.BuildRedirectURL(req.URL):
       t.RedirectURL = &url.URL{... template ...}                         [DAlloc]
       t.RedirectURL.Path = strings.Replace(t.RedirectURL.Path, "/$path", "$path", 1)          [DStrip]
       t.RedirectURL.Path = strings.Replace(t.RedirectURL.Path, "$path", reqPath, 1)           [DFill]
       t.RedirectURL.Host = strings.Replace(t.RedirectURL.Host, "$host", requestURL.Host, 1)   [DHost]
   (every access goes through the field of the shared *Target), and HTTPProxy.ServeHTTP later does
       http.Redirect(w, r, t.RedirectURL.String(), t.RedirectCode)       [DRead]
   The URL text is a list of pieces; the hole is "$path".  BuildRedirectURL reads the field several
   times within each of these statements (Path, RawPath, RawQuery): the model takes each as one action, so the real
   code has MORE interleavings than the model, never fewer. *)
Inductive piece := Lit (s : str) | Slash | Hole | HHole.   (* Slash: the "/" written before "$path" in the route; HHole: "$host" *)
Definition uobj := list piece.

(* strings.Replace(.., "/$path", "$path", 1), guarded by strings.Contains *)
Fixpoint strip (o : uobj) : uobj :=
  match o with
  | [] => []
  | Slash :: ((Hole :: _) as r) => r
  | x :: r => x :: strip r
  end.

(* strings.Replace(.., "$path", p, 1), guarded by strings.Contains *)
Fixpoint fill (o : uobj) (p : str) : uobj :=
  match o with
  | [] => []
  | Hole :: r => Lit p :: r
  | x :: r => x :: fill r p
  end.

(* strings.Replace(.., "$host", requestURL.Host, 1), guarded by strings.Contains *)
Fixpoint fill_host (o : uobj) (h : str) : uobj :=
  match o with
  | [] => []
  | HHole :: r => Lit h :: r
  | x :: r => x :: fill_host r h
  end.

Definition dollar_host : str := [36; 104; 111; 115; 116]%N.
Definition dollar_path : str := [36; 112; 97; 116; 104]%N.
Fixpoint render (o : uobj) : str :=
  match o with
  | [] => []
  | Lit s :: r => s ++ render r
  | Slash :: r => 47%N :: render r
  | Hole :: r => dollar_path ++ render r
  | HHole :: r => dollar_host ++ render r
  end.

Record rd_shared := { rd_heap : list uobj; rd_ptr : option nat }.   (* the URL objects; Target.RedirectURL *)
Inductive rd_pc := DAlloc | DStrip | DFill | DHost | DRead | DDone.
Record rd_local := { rd_at : rd_pc; rd_path : str; rd_host : str; rd_got : option (outcome str) }.
Definition rd_init_unrepaired (path host : str) : rd_local := {| rd_at := DAlloc; rd_path := path; rd_host := host; rd_got := None |}.
Definition rd_goto (l : rd_local) (pc : rd_pc) : rd_local := {| rd_at := pc; rd_path := rd_path l; rd_host := rd_host l; rd_got := None |}.
Definition rd_ret (l : rd_local) (r : outcome str) : rd_local := {| rd_at := DDone; rd_path := rd_path l; rd_host := rd_host l; rd_got := Some r |}.

(* apply [f] to the object the shared field points to NOW (nil / dangling: panic) *)
Definition rd_modify (f : uobj -> uobj) (s : rd_shared) (l : rd_local) (next : rd_pc) : rd_shared * rd_local :=
  match rd_ptr s with
  | Some a => match nth_error (rd_heap s) a with
              | Some o => ({| rd_heap := upd (rd_heap s) a (f o); rd_ptr := rd_ptr s |}, rd_goto l next)
              | None => (s, rd_ret l Panic)
              end
  | None => (s, rd_ret l Panic)
  end.

Definition rd_step_unrepaired (tmpl : uobj) (s : rd_shared) (l : rd_local) : rd_shared * rd_local :=
  match rd_at l with
  | DAlloc => ({| rd_heap := rd_heap s ++ [tmpl]; rd_ptr := Some (length (rd_heap s)) |}, rd_goto l DStrip)
  | DStrip => rd_modify strip s l DFill
  | DFill => rd_modify (fun o => fill o (rd_path l)) s l DHost
  | DHost => rd_modify (fun o => fill_host o (rd_host l)) s l DRead
  | DRead => match rd_ptr s with
             | Some a => match nth_error (rd_heap s) a with
                         | Some o => (s, rd_ret l (Ok (render o)))
                         | None => (s, rd_ret l Panic)
                         end
             (* t.RedirectURL == nil: ServeHTTP falls through to proxying; not reachable after a lookup *)
             | None => (s, rd_ret l (Err 0))
             end
  | DDone => (s, l)
  end.

(* THE CODE AS IT IS (fix commit ddf101c "the redirect URL of a request is built on a copy of the shared
   target"): Table.Lookup does `redirect := *target; target = &redirect` before BuildRedirectURL and returns
   the per-request copy; ServeHTTP reads the URL from that copy.  The same statements as above, but on the
   goroutine's OWN object: the shared target is never written after the table is built, so [rd_step] leaves
   the shared state alone.  ([rd_step_unrepaired] above is the code before the fix, kept for the refutation.) *)
Record rq_local := { rq_at : rd_pc; rq_path : str; rq_host : str; rq_obj : uobj; rq_got : option (outcome str) }.
Definition rd_init (path host : str) : rq_local :=
  {| rq_at := DAlloc; rq_path := path; rq_host := host; rq_obj := []; rq_got := None |}.
Definition rq_set (l : rq_local) (pc : rd_pc) (o : uobj) : rq_local :=
  {| rq_at := pc; rq_path := rq_path l; rq_host := rq_host l; rq_obj := o; rq_got := None |}.
Definition rd_step (tmpl : uobj) (s : rd_shared) (l : rq_local) : rd_shared * rq_local :=
  match rq_at l with
  | DAlloc => (s, rq_set l DStrip tmpl)                                   (* copy; RedirectURL = &url.URL{template} *)
  | DStrip => (s, rq_set l DFill (strip (rq_obj l)))
  | DFill => (s, rq_set l DHost (fill (rq_obj l) (rq_path l)))
  | DHost => (s, rq_set l DRead (fill_host (rq_obj l) (rq_host l)))
  | DRead => (s, {| rq_at := DDone; rq_path := rq_path l; rq_host := rq_host l; rq_obj := rq_obj l;
                    rq_got := Some (Ok (render (rq_obj l))) |})            (* ServeHTTP: t.RedirectURL.String() *)
  | DDone => (s, l)
  end.
Definition rd_results (ts : list rq_local) : list (option (outcome str)) := map rq_got ts.

Definition rd_start : rd_shared := {| rd_heap := []; rd_ptr := None |}.
(* what the request with path [p] must be answered with *)
Definition rd_own (tmpl : uobj) (p h : str) : str := render (fill_host (fill (strip tmpl) p) h).
Definition rd_results_unrepaired (ts : list rd_local) : list (option (outcome str)) := map rd_got ts.

(* ---------------------------------------------------------------- a lookup with its shared effects explicit *)
(* Table.Lookup restricted to what C06 needs: the candidate host keys arrive in visiting
   order ([hosts]: what matchingHosts returned, plus ""), every host has its routes in table
   order, a route has a path prefix, its targets as a ring of target ids and optionally a
   redirect template.  Shared state a lookup touches: one cursor per route (rr), one
   RedirectURL per target, the glob cache (which by globcache_seq_inv returns the compiled
   pattern whatever its content, so host matching is a function of table and request). *)
Record route := { r_path : str; r_ntargets : nat; r_ring : list nat; r_redirect : option uobj }.
Definition rid := (nat * nat)%type.                       (* host index, route index *)
Record lk_shared := { lk_cursor : rid -> N; lk_redirect : nat -> option str }.
Record lk_result := { lk_route : rid; lk_target : nat; lk_location : option str }.

Fixpoint find_route (path : str) (rs : list route) (j : nat) : option (nat * route) :=
  match rs with
  | [] => None
  | r :: rest => if has_prefix path (r_path r) then Some (j, r) else find_route path rest (S j)
  end.

(* the pick given the cursor value it read: n == 1 does not touch the cursor *)
Definition pick_target (r : route) (cursor : N) : outcome nat :=
  if Nat.eqb (r_ntargets r) 1 then Ok O else slot (r_ring r) cursor.

Definition eq_rid (a b : rid) : bool := Nat.eqb (fst a) (fst b) && Nat.eqb (snd a) (snd b).

(* rrPicker's shared effect on the route [id] *)
Definition advance (s : lk_shared) (id : rid) (r : route) : lk_shared :=
  if Nat.eqb (r_ntargets r) 1 then s
  else {| lk_cursor := fun x => if eq_rid x id then N.modulo (lk_cursor s id + 1) two64 else lk_cursor s x;
          lk_redirect := lk_redirect s |}.     (* since ddf101c the URL is built on a copy: no shared write *)

(* "Skipping redirect with same scheme, host and path": RedirectURL.Scheme == proto && .Host == req.Host &&
   .Path == req.URL.Path, [proto] = X-Forwarded-Proto, else the scheme of the connection.  On the modelled
   domain (no query; hosts without '/', paths starting with '/') this is equality of the URL texts. *)
Definition self_url (proto host path : str) : str := proto ++ [58; 47; 47]%N ++ host ++ path.
Definition route_location (r : route) (path host : str) : option str :=
  match r_redirect r with Some tm => Some (rd_own tm path host) | None => None end.
Definition self_redirect (r : route) (path host proto : str) : bool :=
  match route_location r path host with Some u => beq u (self_url proto host path) | None => false end.

(* the sequential lookup from candidate host [i] on: result and new shared state.  For every candidate host:
   the first route whose prefix matches decides (no targets: next host); a target is PICKED (the cursor of a
   route with several targets advances) and only then a redirect to the request's own URL is skipped:
   the skipped route's cursor has advanced although it does not answer. *)
Fixpoint lookup_from (path host proto : str) (hosts : list (list route)) (i : nat) (s : lk_shared)
  : outcome (option lk_result) * lk_shared :=
  match hosts with
  | [] => (Ok None, s)
  | rs :: rest =>
      match find_route path rs 0 with
      | None => lookup_from path host proto rest (S i) s
      | Some (j, r) =>
          if Nat.eqb (r_ntargets r) 0 then lookup_from path host proto rest (S i) s else
          match pick_target r (lk_cursor s (i, j)) with
          | Ok t =>
              let s' := advance s (i, j) r in
              if self_redirect r path host proto then lookup_from path host proto rest (S i) s'
              else (Ok (Some {| lk_route := (i, j); lk_target := t; lk_location := route_location r path host |}), s')
          | Err k => (Err k, s)
          | Panic => (Panic, s)
          end
      end
  end.
Definition lookup (hosts : list (list route)) (path host proto : str) (s : lk_shared) :=
  lookup_from path host proto hosts 0 s.

(* the same with the shared effects removed: the caller supplies the cursor values *)
Fixpoint lookup_pure_from (path host proto : str) (hosts : list (list route)) (i : nat) (cursor_of : rid -> N)
  : outcome (option lk_result) :=
  match hosts with
  | [] => Ok None
  | rs :: rest =>
      match find_route path rs 0 with
      | None => lookup_pure_from path host proto rest (S i) cursor_of
      | Some (j, r) =>
          if Nat.eqb (r_ntargets r) 0 then lookup_pure_from path host proto rest (S i) cursor_of else
          match pick_target r (cursor_of (i, j)) with
          | Ok t =>
              if self_redirect r path host proto then lookup_pure_from path host proto rest (S i) cursor_of
              else Ok (Some {| lk_route := (i, j); lk_target := t; lk_location := route_location r path host |})
          | Err k => Err k
          | Panic => Panic
          end
      end
  end.
Definition lookup_pure (hosts : list (list route)) (path host proto : str) (cursor_of : rid -> N) :=
  lookup_pure_from path host proto hosts 0 cursor_of.
