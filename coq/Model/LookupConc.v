(** C06 - the composed concurrent lookup: what ONE request does between entering Table.Lookup and leaving it,
    as a machine over ALL the shared state a lookup touches, so that any number of requests and table
    replacements can be interleaved action by action:

      CLoad        route.GetTable()                      one atomic load of the current table generation
      CGlob k      globCache.Get(pattern k)              for every host pattern of THAT table, in table order: the
                                                         coarse machine [g_step] of Model/GlobCacheC06.v (lock-free fast
                                                         path; one critical section), on the SHARED cache; the glob it
                                                         returns decides whether host k is a candidate
      CPick        t.lookup(h, path, ...) per candidate  one action per visited candidate host: the first route whose
                                                         prefix matches; rrPicker = one fetch-and-add on the cursor of
                                                         that route OF THE LOADED TABLE; then (locally, on a copy) the
                                                         redirect URL and the self-redirect skip
      CStop        the answer
      CSet tb      route.SetTable(tb)                    a writer: one atomic publication of a new generation

    Shared: the current generation, the list of published tables (append-only, immutable), one cursor per
    (generation, route), the glob cache.  Which host patterns match is decided by the glob the CACHE returned
    ([hmatch] applied to the returned pattern), so the cache's part in the choice of the target is inside the
    machine.  Visiting order of several matching hosts = table order here (the real order, most specific
    first, is C03's subject).  Every host pattern of a published table compiles ([g_init p true]; a pattern that
    does not compile is C03's finding).  No proofs in this file. *)
From Coq Require Import List NArith Bool Arith.
From Fabio Require Import Lib.Outcome Lib.Bytes Model.Interleave Model.GlobCacheC06.
Import ListNotations.

Record ctable := { ct_hosts : list (str * list route); ct_fallback : list route }.   (* host patterns; the "" host *)
Record cm_shared := { cm_cur : nat; cm_tables : list ctable; cm_cursor : nat -> rid -> N; cm_cache : gshared }.

Record creq := { cq_host : str; cq_path : str; cq_proto : str }.
Inductive cpc := CLoad | CGlob (k : nat) | CPick (i : nat) | CStop | CSet (tb : ctable).
Record clocal := {
  c_at : cpc; c_req : creq;
  c_gen : nat;                          (* the table this request loaded *)
  c_get : qlocal;                       (* the Get in progress *)
  c_cands : list nat;                   (* indices of the host patterns that matched so far, in table order *)
  c_rest : list (nat * list route);     (* candidate hosts still to visit: (candidate number, routes) *)
  c_drawn : list (rid * N);             (* the cursor values this lookup drew, by candidate route *)
  c_ans : option (outcome (option lk_result)) }.

Definition c_init (q : creq) : clocal :=
  {| c_at := CLoad; c_req := q; c_gen := O; c_get := g_init [] true; c_cands := []; c_rest := []; c_drawn := []; c_ans := None |}.
Definition c_writer (tb : ctable) : clocal :=
  {| c_at := CSet tb; c_req := {| cq_host := []; cq_path := []; cq_proto := [] |}; c_gen := O; c_get := g_init [] true;
     c_cands := []; c_rest := []; c_drawn := []; c_ans := None |}.

(* the candidate hosts' route lists of a table for matched pattern indices [cands], then the "" host *)
Definition cand_routes (tb : ctable) (cands : list nat) : list (list route) :=
  map (fun k => match nth_error (ct_hosts tb) k with Some (_, rs) => rs | None => [] end) cands ++ [ct_fallback tb].
Fixpoint number {A} (i : nat) (l : list A) : list (nat * A) :=
  match l with [] => [] | x :: r => (i, x) :: number (S i) r end.

Definition set_at (l : clocal) (pc : cpc) : clocal :=
  {| c_at := pc; c_req := c_req l; c_gen := c_gen l; c_get := c_get l; c_cands := c_cands l; c_rest := c_rest l;
     c_drawn := c_drawn l; c_ans := c_ans l |}.
Definition finish (l : clocal) (a : outcome (option lk_result)) : clocal :=
  {| c_at := CStop; c_req := c_req l; c_gen := c_gen l; c_get := c_get l; c_cands := c_cands l; c_rest := [];
     c_drawn := c_drawn l; c_ans := Some a |}.

(* start the Get for pattern k, or, past the last pattern, the visits *)
Definition next_glob (tb : ctable) (l : clocal) (k : nat) (cands : list nat) : clocal :=
  match nth_error (ct_hosts tb) k with
  | Some (p, _) => {| c_at := CGlob k; c_req := c_req l; c_gen := c_gen l; c_get := g_init p true; c_cands := cands;
                      c_rest := []; c_drawn := c_drawn l; c_ans := None |}
  | None => {| c_at := CPick O; c_req := c_req l; c_gen := c_gen l; c_get := c_get l; c_cands := cands;
               c_rest := number O (cand_routes tb cands); c_drawn := c_drawn l; c_ans := None |}
  end.

Section Match.
  Variable hmatch : str -> str -> bool.      (* glob.Match of the glob compiled from a pattern, on a host name *)

  Definition c_step (s : cm_shared) (l : clocal) : cm_shared * clocal :=
    match c_at l with
    | CLoad =>
        let g := cm_cur s in
        match nth_error (cm_tables s) g with
        | Some tb => (s, next_glob tb {| c_at := CLoad; c_req := c_req l; c_gen := g; c_get := c_get l; c_cands := [];
                                         c_rest := []; c_drawn := []; c_ans := None |} O [])
        | None => (s, finish l Panic)                                   (* never: the table is never nil *)
        end
    | CGlob k =>
        match q_at (c_get l) with
        | QDone =>                                                       (* Get has returned: match, next pattern *)
            match nth_error (cm_tables s) (c_gen l), q_res (c_get l) with
            | Some tb, Some (Ok v) =>
                let cands := if hmatch v (cq_host (c_req l)) then c_cands l ++ [k] else c_cands l in
                (s, next_glob tb l (S k) cands)
            | _, _ => (s, finish l Panic)                                (* Compile error -> MustCompile panics *)
            end
        | _ => let '(c', q') := g_step (cm_cache s) (c_get l) in
               ({| cm_cur := cm_cur s; cm_tables := cm_tables s; cm_cursor := cm_cursor s; cm_cache := c' |},
                {| c_at := CGlob k; c_req := c_req l; c_gen := c_gen l; c_get := q'; c_cands := c_cands l; c_rest := c_rest l;
                   c_drawn := c_drawn l; c_ans := None |})
        end
    | CPick _ =>
        match c_rest l with
        | [] => (s, finish l (Ok None))
        | (i, rs) :: rest =>
            let skip := {| c_at := CPick (S i); c_req := c_req l; c_gen := c_gen l; c_get := c_get l; c_cands := c_cands l;
                           c_rest := rest; c_drawn := c_drawn l; c_ans := None |} in
            match find_route (cq_path (c_req l)) rs 0 with
            | None => (s, skip)
            | Some (j, r) =>
                if Nat.eqb (r_ntargets r) 0 then (s, skip) else
                let c := cm_cursor s (c_gen l) (i, j) in                 (* the value the fetch-and-add returns *)
                let s' := if Nat.eqb (r_ntargets r) 1 then s else
                          {| cm_cur := cm_cur s; cm_tables := cm_tables s; cm_cache := cm_cache s;
                             cm_cursor := fun g id => if Nat.eqb g (c_gen l) && eq_rid id (i, j)
                                                      then N.modulo (c + 1) two64 else cm_cursor s g id |} in
                let drawn := c_drawn l ++ [((i, j), c)] in
                match pick_target r c with
                | Ok t =>
                    if self_redirect r (cq_path (c_req l)) (cq_host (c_req l)) (cq_proto (c_req l))
                    then (s', {| c_at := CPick (S i); c_req := c_req l; c_gen := c_gen l; c_get := c_get l; c_cands := c_cands l;
                                 c_rest := rest; c_drawn := drawn; c_ans := None |})
                    else (s', {| c_at := CStop; c_req := c_req l; c_gen := c_gen l; c_get := c_get l; c_cands := c_cands l;
                                 c_rest := []; c_drawn := drawn;
                                 c_ans := Some (Ok (Some {| lk_route := (i, j); lk_target := t;
                                                            lk_location := route_location r (cq_path (c_req l)) (cq_host (c_req l)) |})) |})
                | Err e => (s', {| c_at := CStop; c_req := c_req l; c_gen := c_gen l; c_get := c_get l; c_cands := c_cands l;
                                   c_rest := []; c_drawn := drawn; c_ans := Some (Err e) |})
                | Panic => (s', {| c_at := CStop; c_req := c_req l; c_gen := c_gen l; c_get := c_get l; c_cands := c_cands l;
                                   c_rest := []; c_drawn := drawn; c_ans := Some Panic |})   (* empty ring: the add has happened *)
                end
            end
        end
    | CStop => (s, l)
    | CSet tb => ({| cm_cur := length (cm_tables s); cm_tables := cm_tables s ++ [tb]; cm_cursor := cm_cursor s; cm_cache := cm_cache s |},
                  set_at l CStop)
    end.

  (* what the request must be answered with: the pure lookup over the hosts of the loaded table whose PATTERN
     matches the request's host, with the cursor values the request drew *)
  Definition matching (tb : ctable) (host : str) : list nat :=
    map fst (filter (fun kp => hmatch (fst (snd kp)) host) (number O (ct_hosts tb))).
  Definition drawn_fn (d : list (rid * N)) (id : rid) : N :=
    match find (fun x => eq_rid (fst x) id) d with Some x => snd x | None => 0%N end.
  Definition c_alone (tb : ctable) (q : creq) (d : list (rid * N)) : outcome (option lk_result) :=
    lookup_pure (cand_routes tb (matching tb (cq_host q))) (cq_path q) (cq_host q) (cq_proto q) (drawn_fn d).
End Match.
