(** C02: the tcp-dynamic listener loop of main.startServers (/repo/main.go, case "tcp-dynamic").
    Every l.Refresh the loop reads the complete routing table (route.GetTable()), derives the TCP
    ports from its host keys, closes the listeners of the ports that left the table
    (proxy.CloseProxy) and starts a listener for every port it can bind: it PROBES the port with a
    throw-away net.Listen first and skips it when the probe fails (the port is served already, is
    owned by another program or by another listener of fabio, or is no port number); for a port
    that passed the probe it starts a goroutine whose proxy.ListenAndServeTCP failing is
    exit.Fatal - the end of the process.  No proofs in this file. *)
From Coq Require Import List NArith Bool.
From Fabio Require Import Lib.Bytes.
Import ListNotations.
Local Open Scope N_scope.

Definition port := str.                       (* ":6000" - what net.Listen is given *)
Definition habs := list (str * list str).     (* the table as the loop reads it: host key, URL scheme of every target *)

Definition smem (x : str) (l : list str) : bool := existsb (beq x) l.

(* main.unique: first occurrences, in order *)
Fixpoint uniq_acc (seen l : list str) : list str :=
  match l with
  | [] => []
  | x :: l' => if smem x seen then uniq_acc seen l' else x :: uniq_acc (x :: seen) l'
  end.
Definition uniq (l : list str) : list str := uniq_acc [] l.

(* main.difference: the elements of a that are not in b *)
Definition sdiff (a b : list str) : list str := filter (fun x => negb (smem x b)) a.

Definition s_tcp : str := [116; 99; 112].
(* schemes := tableSchemes(rts); len(schemes) == 1 && schemes[0] == "tcp" *)
Definition only_tcp (schemes : list str) : bool :=
  match uniq schemes with
  | [s] => beq s s_tcp
  | _ => false
  end.

Fixpoint upto_colon (s : str) : str :=
  match s with
  | [] => []
  | x :: s' => if x =? 58 then [] else x :: upto_colon s'
  end.
(* if strings.Contains(target, ":") { ":" + strings.Split(target, ":")[1] }: the text between the first
   colon and the next one.  The index 1 is in range whenever Contains holds, which is why the two Go
   calls are one function here: [None] = no colon, the host key names no port *)
Fixpoint port_of (host : str) : option port :=
  match host with
  | [] => None
  | x :: s' => if x =? 58 then Some (58 :: upto_colon s') else port_of s'
  end.

(* the ports of one refresh: the loop appends in map order and calls unique after every host *)
Definition ports_of (t : habs) : list port :=
  uniq (flat_map (fun hs => match port_of (fst hs) with
                            | Some p => if only_tcp (snd hs) then [p] else []
                            | None => []
                            end) t).

(* the world outside this loop at the time of one refresh: would the probe net.Listen("tcp", p) /
   the listener goroutine's net.ListenTCP succeed as far as everybody else is concerned (p is a
   port number, no other program and no listener goroutine that is still starting holds it) *)
Record world := World { probe_free : port -> bool; listen_free : port -> bool }.

Record dyn := Dyn { d_last : list port;      (* lastPorts *)
                    d_served : list port }.  (* keys of proxy.servers: every listener of this process *)
Inductive dstate := DRun (d : dyn) | DCrashed.

(* for _, port := range ports { probe; go ListenAndServeTCP }: None = exit.Fatal *)
Fixpoint start_ports (w : world) (ps served : list port) : option (list port) :=
  match ps with
  | [] => Some served
  | p :: ps' =>
      if probe_free w p && negb (smem p served)
      then (if listen_free w p && negb (smem p served)
            then start_ports w ps' (p :: served)
            else None)
      else start_ports w ps' served            (* "[DEBUG] Dynamic TCP port %s in use" *)
  end.

Definition refresh (w : world) (t : habs) (d : dyn) : dstate :=
  let ports := ports_of t in
  let gone := sdiff (d_last d) ports in
  (* proxy.CloseProxy(port): closes whatever server is registered under the address *)
  let served := filter (fun p => negb (smem p gone)) (d_served d) in
  match start_ports w ports served with
  | Some s => DRun (Dyn ports s)
  | None => DCrashed
  end.

Definition refresh_st (w : world) (t : habs) (s : dstate) : dstate :=
  match s with DRun d => refresh w t d | DCrashed => DCrashed end.

(* a history: the world and the table of every refresh *)
Fixpoint run_dyn (h : list (world * habs)) (s : dstate) : dstate :=
  match h with
  | [] => s
  | (w, t) :: h' => run_dyn h' (refresh_st w t s)
  end.
Fixpoint trace_dyn (h : list (world * habs)) (s : dstate) : list dstate :=
  match h with
  | [] => []
  | (w, t) :: h' => let s' := refresh_st w t s in s' :: trace_dyn h' s'
  end.

(* nobody takes a port between the probe and the listener goroutine's bind *)
Definition steady (w : world) : Prop := forall p, probe_free w p = true -> listen_free w p = true.

(* the world of the correspondence run: the ports in [unusable] cannot be bound (held by another
   program for the whole step, or no port number according to the real net.ResolveTCPAddr) *)
Definition world_of (unusable : list port) : world :=
  World (fun p => negb (smem p unusable)) (fun p => negb (smem p unusable)).
