(** Model of a SET of basic schemes in one process: auth.LoadAuthSchemes (auth/auth.go) builds
    p.AuthSchemes = map[name]*basic, every *basic owning its realm and its htpasswd.File
    (auth/basic.go, newBasicAuth; with refresh > 0 its own refresh goroutine), and
    Target.Authorized (route/auth.go) picks the scheme the ROUTE names.  Every scheme is the machine
    of Model/BasicReload.v; an action names the scheme it concerns: the operator replaces / removes
    THAT scheme's file, THAT scheme's goroutine takes its next step, a request arrives on a route
    with auth=<name>.  A schedule is a list of such actions over all schemes; the theorems quantify
    over every configuration (any number of schemes, any realms - equal or not -, any files) and
    every schedule.

    There is no state shared between the schemes in auth/basic.go: the package has no variable,
    a *basic has the two fields realm and secrets.  The realm is only ever written into the
    WWW-Authenticate header of a request without Basic credentials.

    No proofs in this file. *)
From Coq Require Import String List NArith Bool.
From Fabio Require Import Lib.Outcome Lib.Bytes Model.Access Model.BasicReload.
Import ListNotations.
Local Open Scope N_scope.

(* a Go map with string keys as an association list: the first binding of a key is the entry *)
Fixpoint sget {A} (l : list (str * A)) (n : str) : option A :=
  match l with
  | [] => None
  | (n', a) :: r => if beq n' n then Some a else sget r n
  end.
(* m[n] = a for a key that is present *)
Fixpoint sput {A} (l : list (str * A)) (n : str) (a : A) : list (str * A) :=
  match l with
  | [] => []
  | (n', a') :: r => if beq n' n then (n', a) :: r else (n', a') :: sput r n a
  end.

(* config.BasicAuth as far as newBasicAuth reads it: Realm, the content and ModTime of File *)
Record bcfg := { bc_realm : str; bc_file : hfile; bc_mtime : N }.
Definition schemes_cfg := list (str * bcfg).

(* *basic: realm + secrets (and, behind secrets, the state of the refresh goroutine) *)
Record bscheme := { sc_realm : str; sc_st : rstate }.
Definition scheme_set := list (str * bscheme).

(* LoadAuthSchemes: for every entry newBasicAuth(a.Basic); auths[a.Name] = b *)
Definition new_basic (k : bcfg) : bscheme :=
  {| sc_realm := bc_realm k; sc_st := rboot (bc_file k) (bc_mtime k) |}.
Definition sboot (cfg : schemes_cfg) : scheme_set := map (fun p => (fst p, new_basic (snd p))) cfg.

(* p.AuthSchemes as Target.Authorized sees it at the moment of a request *)
Definition set_table (ss : scheme_set) : scheme_table bcreds :=
  fun n => match sget ss n with Some s => Some (basic_authorized (sc_st s)) | None => None end.

(* what basic.Authorized writes into the response besides its verdict (basic.go:80-83):
   WWW-Authenticate: Basic realm="<b.realm>" when the request has no Basic credentials *)
Definition basic_challenge (s : bscheme) (c : bcreds) : option str :=
  if negb (c_ok c) then Some (sc_realm s) else None.
(* Target.Authorized (route/auth.go): no auth option -> the scheme is not asked; unknown -> not asked *)
Definition route_challenge (auth : str) (ss : scheme_set) (c : bcreds) : option str :=
  if is_nil auth then None else
  match sget ss auth with
  | None => None
  | Some s => basic_challenge s c
  end.

(* [SOn n a]: the action [a] concerns the scheme named [n].  AWrite / ARemove: the operator acts on
   the file of scheme n; ARefresher: the refresh goroutine of scheme n takes its next step;
   ARequest c: a request with credentials c on a route whose auth option is n reaches
   Target.Authorized (n = "" : the route has no auth option). *)
Inductive saction := SOn (n : str) (a : raction).
Inductive sevent := SEv (n : str) (e : revent).

Definition sstep (ss : scheme_set) (a : saction) : list sevent * scheme_set :=
  let 'SOn n a := a in
  match a with
  | ARequest c => ([SEv n (EvVerdict c (authorized n (set_table ss) c))], ss)
  | _ =>
      match sget ss n with
      | None => ([], ss)                      (* no such scheme: no file is watched, nothing happens *)
      | Some s =>
          let '(ev, st') := rstep (sc_st s) a in
          (map (SEv n) ev, sput ss n {| sc_realm := sc_realm s; sc_st := st' |})
      end
  end.

Fixpoint srun (ss : scheme_set) (sched : list saction) : list sevent * scheme_set :=
  match sched with
  | [] => ([], ss)
  | a :: rest =>
      let '(ev, ss') := sstep ss a in
      let '(evs, ss'') := srun ss' rest in
      (ev ++ evs, ss'')
  end.

(* ================= specification side ================= *)
(* what concerns the scheme named n: its part of a schedule, its part of a trace *)
Definition actions_of (n : str) (sched : list saction) : list raction :=
  flat_map (fun a => let 'SOn n' a := a in if beq n' n then [a] else []) sched.
Definition events_of (n : str) (evs : list sevent) : list revent :=
  flat_map (fun e => let 'SEv n' e := e in if beq n' n then [e] else []) evs.

(* ================= replay of an observed history (used by Check/C12.v) ================= *)
(* the refresh goroutine of scheme n runs on (nobody else acts) until it emits an event [want] accepts *)
Definition sadvance_until (want : revent -> bool) (fuel : nat) (ss : scheme_set) (n : str) : option scheme_set :=
  match sget ss n with
  | None => None
  | Some s =>
      match advance_until want fuel (sc_st s) with
      | None => None
      | Some st' => Some (sput ss n {| sc_realm := sc_realm s; sc_st := st' |})
      end
  end.
