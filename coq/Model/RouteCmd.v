(** From a Consul catalog entry to route commands:
    registry/consul/routecmd.go  routecmd.build, parseURLPrefixTag (incl. os.Expand of $x / ${x});
    registry/consul/service.go   makeConfig's final reverse sort and join;
    composed with the command parser / table builder of Model/RouteText.v, Model/TableCmd.v (C05).

    [build] is factored exactly as the Go code computes it: first the values a routing tag
    stands for ([intent]: service, route, destination, weight literal, plain tags, options), then
    their concatenation into one line of text ([render_intent]), then (since /repo d16ce3d) the
    check of that line against the table on its own ([validate]: no CR / LF, and route.NewTable --
    C05's [new_table] -- accepts the single line); a rejected line is skipped.  The property is
    about the text composed with the parser: does it denote the values it was made from, and is
    an inexpressible registration dropped on its own?

    Until d16ce3d tags and options were written with strconv.Quote and nothing was validated:
    that behaviour is kept as [render_intent_unrepaired] / [build_unrepaired] for the refutations.

    Library behaviour, modelled executably and compared with the library on every case:
      os.Expand                    -> [expand]
      net.JoinHostPort, Itoa       -> [join_host_port], [itoa_z]
      strconv.Quote                -> [quote] (UTF-8 decoding modelled; strconv.IsPrint of the
                                      decoded non-ASCII runes is the parameter [isprint], supplied
                                      per case by the harness from the real library)
    Domain: linux (the darwin '.local' branch is not modelled); strings.TrimSpace / Fields / ToLower
    on ASCII (the harness excludes inputs with non-ASCII Unicode spaces or a non-ASCII host part).
    No proofs in this file. *)
From Coq Require Import String List NArith ZArith Bool.
From Fabio Require Import Lib.Outcome Lib.Bytes Model.WtF64 Model.TableCmd Model.RouteText.
Import ListNotations.
Local Open Scope N_scope.

(* api.CatalogService: the fields build reads (ServiceID is carried for the record only) *)
Record reg := {
  g_name : str;        (* ServiceName *)
  g_id : str;          (* ServiceID *)
  g_addr : str;        (* ServiceAddress *)
  g_node_addr : str;   (* Address, used when ServiceAddress is empty *)
  g_port : Z;          (* ServicePort *)
  g_tags : list str    (* ServiceTags *)
}.

(* what one routing tag of an instance stands for *)
Record intent := {
  i_svc : str;
  i_route : str;          (* host/path, host, host:port or :port *)
  i_dst : str;
  i_weight : str;         (* the literal after weight=, [] = none *)
  i_tags : list str;      (* the instance's other tags, trimmed *)
  i_opts : list str       (* options passed through, 'k=v' or 'k' *)
}.

(* ---------------- os.Expand ---------------- *)
Definition env_t := option (list (str * str)).     (* None = nil map *)

Fixpoint env_get (m : list (str * str)) (k : str) : str :=
  match m with
  | [] => []
  | (k', v) :: m' => if beq k k' then v else env_get m' k
  end.
Definition mapping (env : env_t) (x : str) : str :=
  match env with None => [] | Some m => env_get m x end.

(* '*', '#', '$', '@', '!', '?', '-', '0'..'9' *)
Definition shell_special (c : N) : bool :=
  (c =? 42) || (c =? 35) || (c =? 36) || (c =? 64) || (c =? 33) || (c =? 63) || (c =? 45)
  || ((48 <=? c) && (c <=? 57)).
Definition alnum (c : N) : bool :=
  (c =? 95) || ((48 <=? c) && (c <=? 57)) || ((97 <=? c) && (c <=? 122)) || ((65 <=? c) && (c <=? 90)).

(* getShellName on a non-empty string: (name, bytes consumed) *)
Definition brace_scan (rest : str) : str * nat :=
  match index_byte rest 125 with
  | Some O => ([], 2%nat)                      (* "${}": bad syntax, eaten *)
  | Some k => (firstn k rest, S (S k))
  | None => ([], 1%nat)                        (* "${" without "}": eaten *)
  end.
Definition shell_name (s : str) : str * nat :=
  match s with
  | 123 :: rest =>
      match rest with
      | c1 :: 125 :: _ => if shell_special c1 then ([c1], 3%nat) else brace_scan rest
      | _ => brace_scan rest
      end
  | c :: _ =>
      if shell_special c then ([c], 1%nat)
      else let name := fst (span alnum s) in (name, length name)
  | [] => ([], O)
  end.

(* [skip] bytes are dropped first (the bytes getShellName consumed) *)
Fixpoint expand_aux (env : env_t) (skip : nat) (s : str) : str :=
  match s with
  | [] => []
  | c :: r =>
      match skip with
      | S k => expand_aux env k r
      | O =>
          match r with
          | _ :: _ =>
              if c =? 36 then
                let '(name, w) := shell_name r in
                (match name, w with
                 | [], O => [36]              (* '$' not followed by a name: kept *)
                 | [], S _ => []              (* bad syntax: eaten *)
                 | _, _ => mapping env name
                 end) ++ expand_aux env w r
              else c :: expand_aux env O r
          | [] => [c]                          (* a final '$' is kept *)
          end
      end
  end.
Definition expand (env : env_t) (s : str) : str := expand_aux env O s.

(* ---------------- parseURLPrefixTag ---------------- *)
Definition parse_url_prefix_tag (env : env_t) (prefix s : str) : option (str * str) :=
  let s := trim_space s in
  if negb (has_prefix s prefix) then None else
  let s := trim_space (skipn (length prefix) s) in
  (* strings.SplitN(s, " ", 2): the byte 32 only *)
  let '(s, opts) := match index_byte s 32 with
                    | None => (s, [])
                    | Some i => (firstn i s, skipn (S i) s)
                    end in
  match s with
  | 58 :: _ => Some (s, opts)                   (* ":port" *)
  | _ =>
      match index_byte s 47 with
      | None => Some (s, opts)                  (* host, host:port: returned as written *)
      | Some i => Some (lower (expand env (firstn i s)) ++ [47] ++ expand env (skipn (S i) s), opts)
      end
  end.

(* ---------------- net.JoinHostPort(addr, strconv.Itoa(port)) ---------------- *)
Definition itoa_z (z : Z) : str :=
  match z with
  | Zneg p => 45 :: itoa (Npos p)
  | _ => itoa (Z.to_N z)
  end.
Definition join_host_port (host port : str) : str :=
  if existsb (N.eqb 58) host then [91] ++ host ++ [93; 58] ++ port else host ++ [58] ++ port.

(* ---------------- the option loop of build ---------------- *)
Definition s_http := bs "http://".
Definition s_weight_eq := bs "weight=".
Definition s_redirect_eq := bs "redirect=".

Definition opt_step (addr : str) (st : str * str * list str) (o : str) : str * str * list str :=
  let '(dst, w, ro) := st in
  if beq o (bs "proto=tcp") then (bs "tcp://" ++ addr, w, ro)
  else if beq o (bs "proto=https") then (bs "https://" ++ addr, w, ro)
  else if beq o (bs "proto=grpcs") then (bs "grpcs://" ++ addr, w, ro)
  else if beq o (bs "proto=grpc") then (bs "grpc://" ++ addr, w, ro)
  else if has_prefix o s_weight_eq then (dst, skipn (length s_weight_eq) o, ro)
  else if has_prefix o s_redirect_eq then
    match split_byte (skipn (length s_redirect_eq) o) 44 with
    | [code; url] => (url, w, ro ++ [s_redirect_eq ++ code])
    | _ => st                                   (* logged, skipped *)
    end
  else (dst, w, ro ++ [o]).

Definition reg_addr (g : reg) : str :=
  join_host_port (match g_addr g with [] => g_node_addr g | a => a end) (itoa_z (g_port g)).

Definition svc_tags (prefix : str) (g : reg) : list str :=
  filter (fun t => negb (has_prefix t prefix)) (map trim_space (g_tags g)).
Definition route_tags (prefix : str) (g : reg) : list str :=
  filter (fun t => has_prefix t prefix) (map trim_space (g_tags g)).

Definition intent_of_tag (env : env_t) (prefix : str) (g : reg) (tag : str) : list intent :=
  match parse_url_prefix_tag env prefix tag with
  | None => []
  | Some (route, opts) =>
      let addr := reg_addr g in
      let '(dst, w, ro) := fold_left (opt_step addr) (fields opts) (s_http ++ addr ++ [47], [], []) in
      [ {| i_svc := g_name g; i_route := route; i_dst := dst; i_weight := w;
           i_tags := svc_tags prefix g; i_opts := ro |} ]
  end.

Definition intents (env : env_t) (prefix : str) (g : reg) : list intent :=
  flat_map (intent_of_tag env prefix g) (route_tags prefix g).

(* ---------------- strconv.Quote ---------------- *)
Section Quote.
  (* strconv.IsPrint on a validly decoded rune >= 128 *)
  Variable isprint : N -> bool.

  Definition cont (c : N) : bool := (128 <=? c) && (c <=? 191).

  (* utf8.DecodeRuneInString for a first byte c >= 128 followed by r: Some (rune, width), or
     None = (RuneError, 1) *)
  Definition decode (c : N) (r : str) : option (N * nat) :=
    if (194 <=? c) && (c <=? 223) then
      match r with
      | c1 :: _ => if cont c1 then Some ((c - 192) * 64 + (c1 - 128), 2%nat) else None
      | _ => None
      end
    else if (224 <=? c) && (c <=? 239) then
      match r with
      | c1 :: c2 :: _ =>
          let lo := if c =? 224 then 160 else 128 in
          let hi := if c =? 237 then 159 else 191 in
          if (lo <=? c1) && (c1 <=? hi) && cont c2
          then Some ((c - 224) * 4096 + (c1 - 128) * 64 + (c2 - 128), 3%nat) else None
      | _ => None
      end
    else if (240 <=? c) && (c <=? 244) then
      match r with
      | c1 :: c2 :: c3 :: _ =>
          let lo := if c =? 240 then 144 else 128 in
          let hi := if c =? 244 then 143 else 191 in
          if (lo <=? c1) && (c1 <=? hi) && cont c2 && cont c3
          then Some ((c - 240) * 262144 + (c1 - 128) * 4096 + (c2 - 128) * 64 + (c3 - 128), 4%nat) else None
      | _ => None
      end
    else None.

  Definition hex4 (r : N) : str :=
    [hexdig ((r / 4096) mod 16); hexdig ((r / 256) mod 16); hexdig ((r / 16) mod 16); hexdig (r mod 16)].
  (* \uXXXX / \UXXXXXXXX of a non-printable rune >= 128 *)
  Definition uesc (r : N) : str :=
    if r <? 65536 then [92; 117] ++ hex4 r
    else [92; 85] ++ hex4 (r / 65536) ++ hex4 (r mod 65536).

  (* [n] pending bytes of the current rune: copied when [cp], dropped otherwise *)
  Fixpoint quote_body (n : nat) (cp : bool) (s : str) : str :=
    match s with
    | [] => []
    | c :: r =>
        match n with
        | S k => if cp then c :: quote_body k cp r else quote_body k cp r
        | O =>
            if c <? 128 then quote_byte c ++ quote_body O false r
            else match decode c r with
                 | None => [92; 120; hexdig (c / 16); hexdig (c mod 16)] ++ quote_body O false r
                 | Some (rn, w) =>
                     if isprint rn then c :: quote_body (pred w) true r
                     else uesc rn ++ quote_body (pred w) false r
                 end
        end
    end.
  Definition quote (s : str) : str := [34] ++ quote_body O false s ++ [34].

  (* ---------------- the text of one command ---------------- *)
  Definition s_route_add := bs "route add ".
  Definition s_weight := bs " weight ".
  Definition s_tags := bs " tags ".
  Definition s_opts := bs " opts ".

  (* the line as routecmd.build wrote it until /repo d16ce3d: strconv.Quote, no validation *)
  Definition render_intent_unrepaired (i : intent) : str :=
    s_route_add ++ i_svc i ++ sp ++ i_route i ++ sp ++ i_dst i
    ++ (match i_weight i with [] => [] | w => s_weight ++ w end)
    ++ (match i_tags i with [] => [] | ts => s_tags ++ quote (join ts [44]) end)
    ++ (match i_opts i with [] => [] | os => s_opts ++ quote (join os sp) end).

  Definition build_unrepaired (env : env_t) (prefix : str) (g : reg) : list str :=
    map render_intent_unrepaired (intents env prefix g).
End Quote.

(* ---------------- the text of one command (since d16ce3d): the bytes between the quotes are
   the tags / options as they are ---------------- *)
Definition render_intent (i : intent) : str :=
  s_route_add ++ i_svc i ++ sp ++ i_route i ++ sp ++ i_dst i
  ++ (match i_weight i with [] => [] | w => s_weight ++ w end)
  ++ (match i_tags i with [] => [] | ts => s_tags ++ [34] ++ join ts [44] ++ [34] end)
  ++ (match i_opts i with [] => [] | os => s_opts ++ [34] ++ join os sp ++ [34] end).

Section Build.
  (* strconv.ParseFloat, url.Parse, glob.Compile as in Model/RouteText.v, Model/TableCmd.v *)
  Variable pweight : str -> outcome wt.
  Variable canon : str -> option str.
  Variable glob_ok : str -> bool.

  (* the two checks validate has made since d16ce3d: no CR / LF, and route.NewTable accepts the
     command on its own *)
  Definition validate (cmd : str) : bool :=
    negb (existsb (fun c => (c =? 13) || (c =? 10)) cmd)
    && is_ok (new_table pweight canon glob_ok cmd).

  (* validate(cmd, svc, src, dst, tags, opts) since /repo 9891ca3: in the code's order -- no CR / LF;
     no double quote in the joined tags or the joined options; route.Parse(cmd) yields exactly one
     definition whose Service, Src, Dst are the registered ones; route.NewTable accepts cmd *)
  Definition reads_back (cmd svc src dst : str) : bool :=
    match parse pweight cmd with
    | Ok [d] => beq (d_svc d) svc && beq (d_src d) src && beq (d_dst d) dst
    | _ => false
    end.
  Definition validate_cmd (cmd svc src dst tags opts : str) : bool :=
    negb (existsb (fun c => (c =? 13) || (c =? 10)) cmd)
    && negb (existsb (N.eqb 34) tags) && negb (existsb (N.eqb 34) opts)
    && reads_back cmd svc src dst
    && is_ok (new_table pweight canon glob_ok cmd).
  Definition validate_intent (i : intent) : bool :=
    validate_cmd (render_intent i) (i_svc i) (i_route i) (i_dst i) (join (i_tags i) [44]) (join (i_opts i) sp).

  (* routecmd.build: a rejected command is skipped, the others are kept *)
  Definition build (env : env_t) (prefix : str) (g : reg) : list str :=
    map render_intent (filter validate_intent (intents env prefix g)).

  (* build between d16ce3d and 9891ca3: accepted by the table, not checked to read back *)
  Definition build_d16ce3d (env : env_t) (prefix : str) (g : reg) : list str :=
    filter validate (map render_intent (intents env prefix g)).
End Build.

(* ---------------- makeConfig's sort.Sort(sort.Reverse(sort.StringSlice(config))) + Join ----------------
   Equal strings are indistinguishable, so the (unstable) sort has one possible result. *)
Fixpoint insert_line_desc (x : str) (l : list str) : list str :=
  match l with
  | [] => [x]
  | y :: l' => if str_ltb y x then x :: l else y :: insert_line_desc x l'
  end.
Definition sort_lines_desc (l : list str) : list str := fold_right insert_line_desc [] l.
Definition config_text (lines : list str) : str := join lines [10].

(* ---------------- what a definition must say to denote an intent ---------------- *)
Definition opts_map (os : list str) : list (str * str) :=
  fold_left (fun m o => let '(k, v) := split_eq o in opt_insert k v m) os [].

Definition intent_def (pweight : str -> outcome wt) (i : intent) : outcome def :=
  match parse_weight pweight (Some (i_weight i)) with
  | Ok w => Ok {| d_cmd := CmdAdd; d_svc := i_svc i; d_src := i_route i; d_dst := i_dst i; d_w := w;
                  d_tags := i_tags i; d_opts := opts_map (i_opts i) |}
  | Err k => Err k
  | Panic => Panic
  end.

(* ---------------- which registrations the command language can express ----------------
   Decidable.  What the libraries say is a parameter: [pweight]
   (strconv.ParseFloat), [canon] (url.Parse), [glob_ok] (glob.Compile: addRoute compiles every
   path, whatever the matcher, and -- since /repo c9fb527 -- the lower-cased host of a new host). *)
Definition nonempty (s : str) : bool := match s with [] => false | _ => true end.
Definition space_free (s : str) : bool := negb (existsb go_space s).
Definition word_ok (s : str) : bool := nonempty s && space_free s.          (* a \S+ token that survives TrimSpace *)
Definition no_quote (s : str) : bool := negb (existsb (N.eqb 34) s).
Definition no_comma (s : str) : bool := negb (existsb (N.eqb 44) s).
Definition no_nl (s : str) : bool := negb (existsb (N.eqb 10) s).

Definition no_cr (s : str) : bool := negb (existsb (N.eqb 13) s).

Section Expressible.
  Variable pweight : str -> outcome wt.
  Variable canon : str -> option str.
  Variable glob_ok : str -> bool.

  Definition weight_ok (w : str) : bool :=
    match w with [] => true | _ => space_free w && is_ok (pweight w) end.
  Definition tags_ok (ts : list str) : bool :=
    match ts with
    | [] => true
    | [[]] => false                                   (* a single empty tag reads back as no tag *)
    | _ => forallb (fun t => no_quote t && no_comma t && no_nl t && no_cr t && beq (trim_space t) t) ts
    end.
  Definition opts_ok (os : list str) : bool := forallb (fun o => word_ok o && no_quote o) os.

  (* what the command language can say: name, route and destination are words, path and
     (lower-cased) host compile as globs, the destination is a URL, the weight is a float, tags
     and options are free of double quotes, tags of commas, line breaks and outer blanks, and a
     sole tag is not empty *)
  Definition intent_expressible (i : intent) : bool :=
    word_ok (i_svc i) && word_ok (i_route i) && glob_ok (snd (hostpath (i_route i)))
    && glob_ok (lower (fst (hostpath (i_route i))))
    && word_ok (i_dst i) && (match canon (i_dst i) with Some _ => true | None => false end)
    && weight_ok (i_weight i)
    && tags_ok (i_tags i) && opts_ok (i_opts i).

  (* the registration is skipped by build: what the property allows for an inexpressible one *)
  Definition dropped (i : intent) : bool := negb (validate_intent pweight canon glob_ok i).
  Definition expressible (env : env_t) (prefix : str) (g : reg) : bool :=
    forallb intent_expressible (intents env prefix g).
End Expressible.

(* finding region 2 (what is left of F-C14-2 after d16ce3d and 9891ca3), SYNTACTIC on the input: a
   plain tag contains a comma (read back as several tags), or the only plain tag is the empty
   string (read back as no tag).  Proofs.RouteCmd.validated_characterised: a validated command of a
   well-formed intent is expressible, or in this region, or has a vertical tab in a word (which the
   grammar's \S+ takes and strings.Fields would not: harmless, outside [expressible] only because
   that is stated with Go's white space). *)
Definition comma_in_tag (i : intent) : bool := existsb (fun t => existsb (N.eqb 44) t) (i_tags i).
Definition sole_empty_tag (i : intent) : bool := match i_tags i with [[]] => true | _ => false end.
Definition F_C14_altering (i : intent) : bool := comma_in_tag i || sole_empty_tag i.
Definition vtab_in_word (i : intent) : bool := existsb (N.eqb 11) (i_svc i ++ i_route i ++ i_dst i).

(* what routecmd.build guarantees about the intents it makes: the weight literal and the options
   are strings.Fields tokens, the plain tags are trimmed *)
Definition intent_wf (i : intent) : bool :=
  space_free (i_weight i) && forallb word_ok (i_opts i) && forallb (fun t => beq (trim_space t) t) (i_tags i).

(* region of the code between d16ce3d and 9891ca3 (accepted by the table but never read back): the
   command was emitted although the registration is not expressible -- a service name with blanks
   whose extra words complete the grammar, a quote in a tag that starts an opts clause, ... *)
Definition F_C14_unread_d16ce3d (pweight : str -> outcome wt) (canon : str -> option str) (glob_ok : str -> bool)
           (i : intent) : bool :=
  validate pweight canon glob_ok (render_intent i) && negb (intent_expressible pweight canon glob_ok i).

(* the regions of the code before d16ce3d (strconv.Quote, no validation), for the refutations *)
Section ExpressibleUnrepaired.
  Variable isprint : N -> bool.
  Variable pweight : str -> outcome wt.
  Variable canon : str -> option str.
  Variable glob_ok : str -> bool.

  (* strconv.Quote adds the two quotes and nothing else *)
  Definition quote_stable (s : str) : bool := beq (quote_body isprint O false s) s.

  (* old region 1: the generated line was rejected, and with it the whole text *)
  Definition F_C14_blocking (i : intent) : bool :=
    negb (word_ok (i_svc i) && word_ok (i_route i) && glob_ok (snd (hostpath (i_route i)))
          && glob_ok (lower (fst (hostpath (i_route i))))
          && word_ok (i_dst i) && (match canon (i_dst i) with Some _ => true | None => false end)
          && weight_ok pweight (i_weight i)
          && forallb no_quote (i_tags i) && forallb no_quote (i_opts i)).
  (* old region 2: accepted, but strconv.Quote changed the bytes between the quotes *)
  Definition F_C14_altering_unrepaired (i : intent) : bool :=
    negb (F_C14_blocking i)
    && negb (tags_ok (i_tags i) && quote_stable (join (i_tags i) [44])
             && opts_ok (i_opts i) && quote_stable (join (i_opts i) sp)).
End ExpressibleUnrepaired.
