(** C06 - route/glob_cache.go as a machine of atomic actions.

    type GlobCache struct { mu sync.Mutex; m sync.Map; l []string; h int; n int }
    Whether a pattern compiles (glob.Compile) is data supplied with the call; the compiled
    glob is identified with the pattern it was compiled from (the value stored in [m]).

    THE CODE AS IT IS (after fix commit d9b7eff "glob cache bookkeeping is not safe for
    concurrent lookups"), [g_step]:
      QFast   if glb, ok := c.m.Load(pattern); ok { return glb }      -- lock-free fast path, one sync.Map call
              glob.Compile(pattern)  (local)   err != nil -> return err
      QCrit   c.mu.Lock(); defer c.mu.Unlock()
              if glb, ok := c.m.Load(pattern); ok { return glb }      -- re-check
              ... the LRU bookkeeping on l, h, n, m ...  ; return
    The critical section is ONE atomic action: l, h and n are only touched under the mutex, so
    the sections are totally ordered and free of data races (Go memory model); the only
    operations of other goroutines that can fall between two statements of a section are
    lock-free fast-path Loads of single keys, and a Load of the evicted key (miss) or of the new
    key (miss) between the section's Delete and Store observes what it would observe after
    resp. before the whole section.  The section's content is [gc_get]: the statements of Get
    executed by one goroutine without interruption (it starts with the re-check Load).

    THE CODE BEFORE THE FIX, [g_step_unrepaired] (kept for the refutation theorems): no mutex;
    [m] is a sync.Map (every method call is one atomic action); [l], [h], [n] are plain fields
    guarded by nothing: every read and every write of them is its own action.
      GLoad     if glb, ok := c.m.Load(pattern); ok { return glb }     -- hit
                glob.Compile(pattern)  (local)   err != nil -> return err
      GCheck    if c.n < len(c.l) {
      GStoreA       c.m.Store(pattern, glb)
      GReadN1       (read c.n)
      GWriteL       c.l[..] = pattern          -- index check
      GReadN2       (read c.n)
      GWriteN       c.n = .. + 1 ; return }
      GReadH1   (read c.h)
      GReadL    c.l[..]                        -- index check
      GDelete   c.m.Delete(..)
      GStoreE   c.m.Store(pattern, glb)
      GReadH2   (read c.h)
      GWriteLH  c.l[..] = pattern              -- index check
      GReadH3   (read c.h)
      GReadN3   (read c.n)
      GWriteH   c.h = (.. + 1) % ..            -- integer divide by zero check ; return
    No proofs in this file. *)
From Coq Require Import List NArith Bool Arith.
From Fabio Require Import Lib.Outcome Lib.Bytes Model.Interleave.
Import ListNotations.

Record gshared := { c_l : list str; c_h : nat; c_n : nat; c_m : list (str * str) }.

(* NewGlobCache(size), size >= 0 *)
Definition gc_new (size : nat) : gshared := {| c_l := repeat [] size; c_h := O; c_n := O; c_m := [] |}.

Fixpoint m_load (m : list (str * str)) (k : str) : option str :=
  match m with
  | [] => None
  | (k', v) :: r => if beq k' k then Some v else m_load r k
  end.
Fixpoint m_store (m : list (str * str)) (k v : str) : list (str * str) :=
  match m with
  | [] => [(k, v)]
  | (k', v') :: r => if beq k' k then (k, v) :: r else (k', v') :: m_store r k v
  end.
Fixpoint m_delete (m : list (str * str)) (k : str) : list (str * str) :=
  match m with
  | [] => []
  | (k', v') :: r => if beq k' k then r else (k', v') :: m_delete r k
  end.
Definition m_keys (m : list (str * str)) : list str := map fst m.

Inductive gpc :=
| GLoad | GCheck | GStoreA | GReadN1 | GWriteL | GReadN2 | GWriteN
| GReadH1 | GReadL | GDelete | GStoreE | GReadH2 | GWriteLH | GReadH3 | GReadN3 | GWriteH | GDone.

Record glocal := { g_at : gpc; g_pat : str; g_ok : bool; g_r : nat; g_r2 : nat; g_old : str;
                   g_res : option (outcome str) }.

Definition g_init_unrepaired (pat : str) (compiles : bool) : glocal :=
  {| g_at := GLoad; g_pat := pat; g_ok := compiles; g_r := O; g_r2 := O; g_old := []; g_res := None |}.

Definition g_goto (l : glocal) (pc : gpc) : glocal :=
  {| g_at := pc; g_pat := g_pat l; g_ok := g_ok l; g_r := g_r l; g_r2 := g_r2 l; g_old := g_old l; g_res := g_res l |}.
Definition g_ret (l : glocal) (r : outcome str) : glocal :=
  {| g_at := GDone; g_pat := g_pat l; g_ok := g_ok l; g_r := g_r l; g_r2 := g_r2 l; g_old := g_old l; g_res := Some r |}.
Definition g_setr (l : glocal) (r : nat) (pc : gpc) : glocal :=
  {| g_at := pc; g_pat := g_pat l; g_ok := g_ok l; g_r := r; g_r2 := g_r2 l; g_old := g_old l; g_res := g_res l |}.
Definition g_setr2 (l : glocal) (r : nat) (pc : gpc) : glocal :=
  {| g_at := pc; g_pat := g_pat l; g_ok := g_ok l; g_r := g_r l; g_r2 := r; g_old := g_old l; g_res := g_res l |}.
Definition g_setold (l : glocal) (o : str) (pc : gpc) : glocal :=
  {| g_at := pc; g_pat := g_pat l; g_ok := g_ok l; g_r := g_r l; g_r2 := g_r2 l; g_old := o; g_res := g_res l |}.

Definition s_m (s : gshared) (m : list (str * str)) : gshared := {| c_l := c_l s; c_h := c_h s; c_n := c_n s; c_m := m |}.
Definition s_l (s : gshared) (l : list str) : gshared := {| c_l := l; c_h := c_h s; c_n := c_n s; c_m := c_m s |}.
Definition s_n (s : gshared) (n : nat) : gshared := {| c_l := c_l s; c_h := c_h s; c_n := n; c_m := c_m s |}.
Definition s_h (s : gshared) (h : nat) : gshared := {| c_l := c_l s; c_h := h; c_n := c_n s; c_m := c_m s |}.

Definition g_step_unrepaired (s : gshared) (l : glocal) : gshared * glocal :=
  match g_at l with
  | GLoad => match m_load (c_m s) (g_pat l) with
             | Some v => (s, g_ret l (Ok v))
             | None => if g_ok l then (s, g_goto l GCheck) else (s, g_ret l (Err 1))
             end
  | GCheck => if Nat.ltb (c_n s) (length (c_l s)) then (s, g_goto l GStoreA) else (s, g_goto l GReadH1)
  | GStoreA => (s_m s (m_store (c_m s) (g_pat l) (g_pat l)), g_goto l GReadN1)
  | GReadN1 => (s, g_setr l (c_n s) GWriteL)
  | GWriteL => if Nat.ltb (g_r l) (length (c_l s)) then (s_l s (upd (c_l s) (g_r l) (g_pat l)), g_goto l GReadN2)
               else (s, g_ret l Panic)
  | GReadN2 => (s, g_setr l (c_n s) GWriteN)
  | GWriteN => (s_n s (S (g_r l)), g_ret l (Ok (g_pat l)))
  | GReadH1 => (s, g_setr l (c_h s) GReadL)
  | GReadL => match nth_error (c_l s) (g_r l) with
              | Some old => (s, g_setold l old GDelete)
              | None => (s, g_ret l Panic)
              end
  | GDelete => (s_m s (m_delete (c_m s) (g_old l)), g_goto l GStoreE)
  | GStoreE => (s_m s (m_store (c_m s) (g_pat l) (g_pat l)), g_goto l GReadH2)
  | GReadH2 => (s, g_setr l (c_h s) GWriteLH)
  | GWriteLH => if Nat.ltb (g_r l) (length (c_l s)) then (s_l s (upd (c_l s) (g_r l) (g_pat l)), g_goto l GReadH3)
                else (s, g_ret l Panic)
  | GReadH3 => (s, g_setr l (c_h s) GReadN3)
  | GReadN3 => (s, g_setr2 l (c_n s) GWriteH)
  | GWriteH => match g_r2 l with
               | O => (s, g_ret l Panic)
               | n => (s_h s (Nat.modulo (S (g_r l)) n), g_ret l (Ok (g_pat l)))
               end
  | GDone => (s, l)
  end.

(* one goroutine alone: the longest path has 11 actions *)
Fixpoint solo (fuel : nat) (s : gshared) (l : glocal) : gshared * glocal :=
  match fuel with
  | O => (s, l)
  | S f => let '(s', l') := g_step_unrepaired s l in solo f s' l'
  end.

(* the statements of Get executed by one goroutine without interruption: the sequential Get, and the
   content of the critical section of the repaired code; [None] would mean the fuel did not suffice
   (excluded by gc_get_inv) *)
Definition gc_get (s : gshared) (pat : str) (compiles : bool) : gshared * option (outcome str) :=
  let '(s', l') := solo 11 s (g_init_unrepaired pat compiles) in (s', g_res l').

(* a sequential history of calls; a panic kills only the calling goroutine, the cache lives on *)
Fixpoint gc_history (s : gshared) (calls : list (str * bool)) : gshared * list (option (outcome str)) :=
  match calls with
  | [] => (s, [])
  | (p, ok) :: r => let '(s1, o) := gc_get s p ok in
                    let '(s2, os) := gc_history s1 r in (s2, o :: os)
  end.

Definition g_results_unrepaired (ts : list glocal) : list (option (outcome str)) := map g_res ts.

(* ---------------------------------------------------------------- the code as it is: fast path + one critical section *)
Inductive qpc := QFast | QCrit | QDone.
Record qlocal := { q_at : qpc; q_pat : str; q_ok : bool; q_res : option (outcome str) }.
Definition g_init (pat : str) (compiles : bool) : qlocal :=
  {| q_at := QFast; q_pat := pat; q_ok := compiles; q_res := None |}.
Definition q_ret (l : qlocal) (r : option (outcome str)) : qlocal :=
  {| q_at := QDone; q_pat := q_pat l; q_ok := q_ok l; q_res := r |}.

Definition g_step (s : gshared) (l : qlocal) : gshared * qlocal :=
  match q_at l with
  | QFast => match m_load (c_m s) (q_pat l) with
             | Some v => (s, q_ret l (Some (Ok v)))
             | None => if q_ok l then (s, {| q_at := QCrit; q_pat := q_pat l; q_ok := q_ok l; q_res := None |})
                       else (s, q_ret l (Some (Err 1)))
             end
  | QCrit => let '(s', o) := gc_get s (q_pat l) true in (s', q_ret l o)
  | QDone => (s, l)
  end.

Definition g_results (ts : list qlocal) : list (option (outcome str)) := map q_res ts.
