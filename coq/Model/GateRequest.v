(** Model of what HTTPProxy.ServeHTTP (proxy/http_proxy.go:84-141, 214-244) reads of a WHOLE request
    on its way through the two gates: the request is a method, a RemoteAddr and a header map (any
    keys, any number of field values per key).  Of these
      - Target.AccessDeniedHTTP (route/access_rules.go) reads r.RemoteAddr and
        r.Header.Values("X-Forwarded-For"),
      - Target.Authorized (route/auth.go) hands the request to the scheme the route names, and
        basic.Authorized (auth/basic.go:77-86) reads request.BasicAuth(), i.e. net/http's
        parseBasicAuth of r.Header.Get("Authorization") (an absent or empty value: not ok),
      - behind the gates, r.Header.Get("Upgrade") / r.Header.Get("Accept") choose HOW the upstream
        is contacted (raw dial for a websocket upgrade, the Transport otherwise),
    and nothing else: there is no statement between Lookup and the end of the gates that looks at
    r.Method or at any other header.  [serve_http_request] is [Access.serve_http] fed with exactly
    these three readings.

    net/http's parseBasicAuth (scheme prefix, base64, split at the first colon) is a parameter:
    the correspondence run records the real request.BasicAuth() for every Authorization value.

    No proofs in this file. *)
From Coq Require Import String List NArith Bool.
From Fabio Require Import Lib.Outcome Lib.Bytes Model.Access Model.BasicReload Model.BasicSchemes.
Import ListNotations.
Local Open Scope N_scope.

(* http.Header: canonical key -> field values in the order received; a Go map, every key once:
   an association list whose first binding of a key is the entry *)
Definition hheaders := list (str * list str).

Record hrequest := {
  q_method : str;            (* r.Method, whatever token the client sent *)
  q_remote : str;            (* r.RemoteAddr *)
  q_headers : hheaders       (* r.Header *)
}.

(* Header.Values(key) for a canonical key *)
Fixpoint h_values (h : hheaders) (key : str) : list str :=
  match h with
  | [] => []
  | (k, vs) :: r => if beq k key then vs else h_values r key
  end.
(* Header.Get(key): the first value, "" when there is none *)
Definition h_get (h : hheaders) (key : str) : str :=
  match h_values h key with v :: _ => v | [] => [] end.

Definition k_xff : str := bs "X-Forwarded-For".
Definition k_authorization : str := bs "Authorization".
Definition k_upgrade : str := bs "Upgrade".
Definition k_accept : str := bs "Accept".

Definition no_bcreds : bcreds := {| c_ok := false; c_user := []; c_pw := [] |}.

Section GateRequest.
  Variable parse_ip : str -> option ipaddr.
  Variable split_host : str -> option str.
  (* net/http parseBasicAuth on a non-empty Authorization value *)
  Variable parse_basic_auth : str -> bcreds.

  (* r.Header.Values("X-Forwarded-For") *)
  Definition request_xff (q : hrequest) : list str := h_values (q_headers q) k_xff.

  (* request.BasicAuth(): auth := r.Header.Get("Authorization"); if auth == "" { return "", "", false } *)
  Definition request_creds (q : hrequest) : bcreds :=
    let a := h_get (q_headers q) k_authorization in
    if is_nil a then no_bcreds else parse_basic_auth a.

  (* http_proxy.go:214-227: upgrade == "websocket" || upgrade == "Websocket" -> newWSHandler (dials
     the target itself); everything else goes through the Transport *)
  Definition is_websocket (q : hrequest) : bool :=
    let u := h_get (q_headers q) k_upgrade in beq u (bs "websocket") || beq u (bs "Websocket").

  (* ServeHTTP on the whole request *)
  Definition serve_http_request (t : option target) (schemes : scheme_table bcreds) (q : hrequest) : list event :=
    serve_http parse_ip split_host bcreds t schemes (q_remote q) (request_xff q) (request_creds q).

  (* the WWW-Authenticate realm of the answer: basic.Authorized is reached only behind the access
     gate and only for a scheme that is configured *)
  Definition request_challenge (t : option target) (ss : scheme_set) (q : hrequest) : option str :=
    match t with
    | None => None
    | Some t0 =>
        if access_denied_http parse_ip split_host (t_rules t0) (q_remote q) (request_xff q) then None
        else route_challenge (t_auth t0) ss (request_creds q)
    end.
End GateRequest.

(* ================= specification side ================= *)
(* the only parts of a request the property lets the verdict depend on: the peer, the
   X-Forwarded-For list and the Authorization field the credentials are read from *)
Definition gate_view (q : hrequest) : str * list str * str :=
  (q_remote q, h_values (q_headers q) k_xff, h_get (q_headers q) k_authorization).

(* a header the client adds under another name *)
Definition foreign_key (k : str) : bool := negb (beq k k_xff) && negb (beq k k_authorization).

(* the request answered without any upstream action and without a redirect *)
Definition rejected_with (s : N) (evs : list event) : Prop := evs = [ERespond s].
Definition passes_gate (evs : list event) : Prop :=
  In EUpstream evs \/ exists code, In (ERedirect code) evs.
