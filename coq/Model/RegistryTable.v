(** Glue between the three layers of property C01:
      registry  (Model/Consul.v: health checks -> passing instances -> config lines),
      commands  (Model/RouteCmd.v, property C14: catalog entry -> routecmd.build text),
      table     (Model/RouteText.v / Model/TableCmd.v, property C05: text -> route.NewTable),
    and the watch loop of Model/Watch.v instantiated with the concrete table builder.
    Definitions only; proofs in Proofs/RegistryTable.v.

    A catalog entry of the composed model is C14's [reg] (name, id, addresses, port, tags)
    together with its node name; the commands carried by the corresponding [centry] of
    Model/Consul.v are no longer data but C14's [build] of the entry. *)
From Coq Require Import String List NArith ZArith Bool.
From Fabio Require Import Lib.Outcome Lib.Bytes Model.WtF64 Model.TableCmd Model.RouteText Model.RouteCmd
     Model.Consul Model.Watch Model.ConsulSpec.
Import ListNotations.
Local Open Scope N_scope.

(* api.CatalogService: C14's fields plus Node *)
Record rentry := mkREntry { r_node : str; r_reg : reg }.

Section Glue.
  (* strconv.ParseFloat, url.Parse, glob.Compile, as in C14 / C05: since /repo d16ce3d
     routecmd.build validates every command with route.NewTable and drops a rejected one *)
  Variable pw : str -> outcome wt.
  Variable canon : str -> option str.
  Variable gl : str -> bool.
  Variable env : env_t.                   (* the env map of routecmd: {"DC": dc} *)
  Variable prefix : str.                  (* registry.consul.tagprefix *)

  Definition centry_of (r : rentry) : centry :=
    mkEntry (r_node r) (g_id (r_reg r)) (g_name (r_reg r)) (g_tags (r_reg r))
            (RouteCmd.build pw canon gl env prefix (r_reg r)).
  Definition catalog_of (rcat : list rentry) : list centry := map centry_of rcat.

  (* the text one round of ServiceMonitor.Watch pushes for the registry state (checks, rcat) *)
  Definition registry_config (status : list str) (strict : bool)
             (checks : list hcheck) (rcat : list rentry) : outcome str :=
    svc_config prefix status strict checks (catalog_of rcat).

  (* the catalog entries serviceConfig selects for the grouping map [m], in the order their
     commands are appended *)
  Definition selected (rcat : list rentry) (m : smap) : list rentry :=
    flat_map (fun nk : str * list ikey =>
                let (name, keys) := nk in
                if beq name [] || match keys with [] => true | _ => false end then []
                else filter (fun r => existsb (key_eqb (inst_key (r_node r) (g_id (r_reg r)))) keys)
                            (filter (fun r => beq (g_name (r_reg r)) name) rcat)) m.
End Glue.

(* route.NewTable as the [build] of the watch loop: an error keeps the last table.  (A panic
   of NewTable would take the process down; C05_new_table_never_panics excludes it.) *)
Definition table_builder (pw : str -> outcome wt) (canon : str -> option str) (glob_ok : str -> bool)
           (text : str) : option table :=
  match new_table pw canon glob_ok text with Ok t => Some t | _ => None end.

(* ---- the property's vocabulary for a registry state ---- *)
(* Consul reports for every check of a service instance the tags of that instance *)
Definition consistent (checks : list hcheck) (rcat : list rentry) : Prop :=
  forall c r, In c checks -> In r rcat -> c_node c = r_node r -> c_sid c = g_id (r_reg r) ->
              c_tags c = g_tags (r_reg r).

(* "the instance is healthy under the configured rule": it has a service check under its
   service name and is [healthy] (Model/ConsulSpec.v) in the unfiltered health state *)
Definition inst_healthy (status : list str) (strict : bool) (checks : list hcheck) (r : rentry) : Prop :=
  (exists svc, In svc checks /\ is_service_check svc = true /\ c_sname svc = g_name (r_reg r)
               /\ own (r_node r) (g_id (r_reg r)) svc)
  /\ healthy checks status strict (r_node r) (g_id (r_reg r)).

(* "the instance advertises the prefix": [i] is what one of its routing tags stands for
   (C14's [intents]: service, route = host/path, destination, weight, tags, options) *)
Definition advertises_intent (env : env_t) (prefix : str) (r : rentry) (i : intent) : Prop :=
  In i (intents env prefix (r_reg r)).

(* the command build keeps for the intent: it validates (one line, no double quote in the tags
   or options, reads back as one definition with the registered service / route / destination,
   and route.NewTable accepts it on its own: C14's [validate_intent], /repo d16ce3d + 9891ca3) *)
Definition emitted (pw : str -> outcome wt) (canon : str -> option str) (gl : str -> bool) (i : intent) : Prop :=
  validate_intent pw canon gl i = true.

(* the table has the target a parsed 'route add' definition stands for *)
Definition def_target (canon : str -> option str) (t : table) (d : def) : Prop :=
  exists url tg, canon (d_dst d) = Some url
    /\ In (lower (fst (hostpath (d_src d))), snd (hostpath (d_src d)), tg) (flat t)
    /\ same_target (d_svc d) url (w_clamp (d_w d)) (d_tags d) tg = true.

(* "the table has a target for the instance and prefix": under (lower-cased host, path) a
   target with the instance's service name, destination URL, weight and tags *)
Definition has_target (pw : str -> outcome wt) (canon : str -> option str) (prefix : str)
           (t : table) (r : rentry) (i : intent) : Prop :=
  exists d url tg, intent_def pw i = Ok d /\ canon (i_dst i) = Some url
    /\ In (lower (fst (hostpath (i_route i))), snd (hostpath (i_route i)), tg) (flat t)
    /\ same_target (g_name (r_reg r)) url (w_clamp (d_w d)) (svc_tags prefix (r_reg r)) tg = true.
