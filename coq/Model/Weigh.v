(** Model of the weight computation of fabio's routes (route/route.go):
    [addTarget]'s clamp of negative weights (l.46-49), [setWeight] (l.118-147),
    the first half of [weighTargets] (l.218-259: effective weights) and the slot
    count of a target (l.289-297).

    The algorithm is written ONCE, parametric in an arithmetic record [arith]
    (the operations Go performs on [float64] / [int] in that code), and is
    instantiated with exact rationals here ([arithQ], the algebraic theorems) and
    with IEEE-754 binary64 in Model/WeighF.v (bit-exact correspondence with the Go
    code, including the non-finite corner cases).  No proofs in this file. *)
From Coq Require Import List ZArith NArith QArith Bool.
Import ListNotations.

(** The arithmetic the code uses.  Comparisons are Go's [>] and [<] (both false
    on a NaN); [a_trunc] is Go's [int(x)] for a [float64] x on linux/amd64. *)
Record arith := {
  num : Type;
  a_zero : num;
  a_one : num;
  a_max_slots : num;                 (* float64(maxSlots) = 1e4 *)
  a_add : num -> num -> num;
  a_sub : num -> num -> num;
  a_mul : num -> num -> num;
  a_div : num -> num -> num;
  a_gt : num -> num -> bool;
  a_lt : num -> num -> bool;
  a_of_nat : nat -> num;             (* float64(n) for a length / count n *)
  a_trunc : num -> Z;                (* int(x) *)
  a_le : num -> num -> bool;         (* Go's x <= y (false on a NaN) *)
  a_wmax : num                       (* the float64 constant 1+1e-9 of the usable-weight test *)
}.

(** two's-complement wrap of Go's 64-bit [int] *)
Definition wrap64 (z : Z) : Z := ((z + 2^63) mod 2^64 - 2^63)%Z.
Definition min_int64 : Z := (- 2^63)%Z.

Section Weigh.
Variable A : arith.
Notation num := (num A).
Notation zero := (a_zero A).
Notation one := (a_one A).

(** [t.FixedWeight > 0]: the target has a fixed weight *)
Definition is_fixed (f : num) : bool := a_gt A f zero.

(** addTarget (route.go:46-49): [if fixedWeight < 0 { fixedWeight = 0 }] *)
Definition clamp_fixed (f : num) : num := if a_lt A f zero then zero else f.

(** weighTargets, l.221-228: nFixed and sumFixed (summed left to right from 0) *)
Definition n_fixed (l : list num) : nat := length (filter is_fixed l).
Definition sum_fixed (l : list num) : num :=
  fold_left (fun s f => if is_fixed f then a_add A s f else s) l zero.

(** l.243-246 *)
Definition scale_from (nf len : nat) (sf : num) : num :=
  if a_gt A sf one || (Nat.eqb nf len && a_lt A sf one) then a_div A one sf else one.

(** l.249-252 *)
Definition dynamic_from (nf len : nat) (sf : num) : num :=
  let d := a_div A (a_sub A one sf) (a_of_nat A (len - nf)) in
  if a_lt A d zero then zero else d.

(** weighTargets BEFORE commit 290c777 (no fallback): the effective weight of every
    target, in order.  [l] = the FixedWeight fields of r.Targets.  Since 290c777 these are
    the weights the assignment loop computes before it looks at them; kept under this name
    for the refutation theorems about the unrepaired code. *)
Definition weigh_unrepaired (l : list num) : list num :=
  let nf := n_fixed l in
  let len := length l in
  if Nat.eqb nf 0 then
    let w := a_div A one (a_of_nat A len) in map (fun _ => w) l
  else
    let sf := sum_fixed l in
    let scale := scale_from nf len sf in
    let dyn := dynamic_from nf len sf in
    map (fun f => if is_fixed f then a_mul A f scale else dyn) l.

(** l.291-295: [n := int(float64(maxSlots) * t.Weight); if n == 0 && t.Weight > 0 { n = 1 }] *)
Definition slot_count (w : num) : Z :=
  let n := a_trunc A (a_mul A (a_max_slots A) w) in
  if (n =? 0)%Z && a_gt A w zero then 1%Z else n.

(** [usedSlots += n] over all targets in Go's wrapping 64-bit int *)
Definition total_slots (counts : list Z) : Z :=
  fold_left (fun u n => wrap64 (u + n)) counts 0%Z.

(** weighEvenly (since 290c777): every target gets 1 / float64(len) *)
Definition weigh_even (l : list num) : list num :=
  let w := a_div A one (a_of_nat A (length l)) in map (fun _ => w) l.

(** the test of 290c777 inside the assignment loop, [t.Weight >= 0 && t.Weight <= 1+1e-9]
    (the code tests its negation, so a NaN is unusable) *)
Definition usable (w : num) : bool := a_le A zero w && a_le A w (a_wmax A).

(** weighTargets falls back to weighEvenly on the fixed-weight path: some computed weight is
    not usable, or (all usable) [usedSlots <= 0] after the slot-count loop *)
Definition fallback (l : list num) : bool :=
  let ws := weigh_unrepaired l in
  negb (forallb usable ws) || (total_slots (map slot_count ws) <=? 0)%Z.

(** the ring is built by the fill loop (neither the no-fixed-weight branch nor a fallback) *)
Definition uses_fill (l : list num) : bool :=
  negb (Nat.eqb (n_fixed l) 0) && negb (fallback l).

(** weighTargets as it is (route.go since 290c777): the effective weight of every target.
    The assignment loop tests each weight right after assigning it and the first unusable
    one replaces ALL weights by the even distribution, so the final weights are the computed
    ones iff every one is usable and some slot is used. *)
Definition weigh (l : list num) : list num :=
  if uses_fill l then weigh_unrepaired l else weigh_even l.

(** setWeight (route.go:118-147).  [m] says for every target whether it matches
    the service / tags of the command; matching targets get [weight / float64(n)].
    Returns the new FixedWeight fields and n (weighTargets runs iff n > 0). *)
Definition count_true (m : list bool) : nat := length (filter (fun b => b) m).
Fixpoint assign (m : list bool) (w : num) (l : list num) : list num :=
  match m, l with
  | b :: m', f :: l' => (if b then w else f) :: assign m' w l'
  | _, _ => l
  end.
Definition set_weight (m : list bool) (weight : num) (l : list num) : list num * nat :=
  let n := count_true m in
  (assign m (a_div A weight (a_of_nat A n)) l, n).
End Weigh.

(** ---------- the exact instance: rationals ---------- *)
Definition Q_gt (x y : Q) : bool := negb (Qle_bool x y).
Definition Q_lt (x y : Q) : bool := negb (Qle_bool y x).
(** int(x): truncation toward zero; out of the int64 range amd64 yields -2^63 *)
Definition Q_trunc (x : Q) : Z :=
  let z := Z.quot (Qnum x) (Zpos (Qden x)) in
  if ((min_int64 <=? z) && (z <? 2^63))%Z then z else min_int64.

Definition arithQ : arith := {|
  num := Q;
  a_zero := 0%Q;
  a_one := 1%Q;
  a_max_slots := inject_Z 10000;
  a_add := Qplus;
  a_sub := Qminus;
  a_mul := Qmult;
  a_div := Qdiv;
  a_gt := Q_gt;
  a_lt := Q_lt;
  a_of_nat := fun n => inject_Z (Z.of_nat n);
  a_trunc := Q_trunc;
  a_le := Qle_bool;
  a_wmax := 281474976992131 # 281474976710656   (* the double nearest 1.000000001 = 1 + 4503600 * 2^-52 *)
|}.

Definition weighQ : list Q -> list Q := weigh arithQ.
Definition weighQ_unrepaired : list Q -> list Q := weigh_unrepaired arithQ.
Definition slot_countQ : Q -> Z := slot_count arithQ.
Definition sumQ (l : list Q) : Q := fold_right Qplus 0%Q l.
