(** Model of route/picker.go ([rrPicker], [rndPicker]) and of the way
    [Table.lookup] (route/table.go:455-468) uses them.  A ring is the slot array
    [r.wTargets]; the round-robin cursor [r.total] is a uint64 (wraps at 2^64).
    No proofs in this file. *)
From Coq Require Import List ZArith NArith Bool.
From Fabio Require Import Lib.Outcome Model.Ring.
Import ListNotations.
Local Open Scope outcome_scope.

Definition two64 : N := (2 ^ 64)%N.

(** rrPicker: [u := r.wTargets[r.total % uint64(len(r.wTargets))]; r.total++].
    Result: the slot's content ([None] = a nil target) and the new cursor. *)
Definition rr_pick (r : ring) (total : N) : outcome (option nat * N) :=
  let len := N.of_nat (length r) in
  if (len =? 0)%N then Panic                                   (* integer divide by zero *)
  else match nth_error r (N.to_nat (total mod len)) with
       | Some t => Ok (t, ((total + 1) mod two64)%N)
       | None => Panic
       end.

(** rndPicker: [r.wTargets[randIntn(len(r.wTargets))]]; [k] is what the random
    source returned ([randIntn(0)] = 0, otherwise [0 <= k < len]). *)
Definition rnd_pick (r : ring) (k : nat) : outcome (option nat) :=
  match nth_error r k with
  | Some t => Ok t
  | None => Panic                                              (* index out of range *)
  end.

(** [k] consecutive round-robin picks *)
Fixpoint rr_run (k : nat) (r : ring) (total : N) : outcome (list (option nat) * N) :=
  match k with
  | O => Ok ([], total)
  | S k' =>
      do '(t, total') <- rr_pick r total;
      do '(ts, total'') <- rr_run k' r total';
      Ok (t :: ts, total'')
  end.

(** Table.lookup on a matching route with [n] targets: none -> nil, a single
    target is returned without consulting the picker, otherwise the picker decides *)
Definition lookup_rr (ntargets : nat) (r : ring) (total : N) : outcome (option nat * N) :=
  match ntargets with
  | O => Ok (None, total)
  | S O => Ok (Some O, total)
  | _ => rr_pick r total
  end.

Definition lookup_rnd (ntargets : nat) (r : ring) (k : nat) : outcome (option nat) :=
  match ntargets with
  | O => Ok None
  | S O => Ok (Some O)
  | _ => rnd_pick r k
  end.
