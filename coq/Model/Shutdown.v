(** Model of proxy.Shutdown (proxy/serve.go:59-79) and of the Shutdown methods of the server
    kinds it fans out to:
      - net/http.Server.Shutdown(ctx)            (HTTP/HTTPS/Prometheus listeners)
      - tcp.Server.Shutdown(ctx)                 (proxy/tcp/server.go:122-128; tcp, tcp+sni, tcp-dynamic)
      - gRPCServer.Shutdown(ctx)                 (proxy/grpc_handler.go:38-52: GracefulStop raced against ctx, then Stop)
      - InetAfTCPProxyServer.Shutdown(ctx)       (proxy/inetaf_tcpproxy.go:85-103: https+tcp+sni composite)
    Time is abstract: shutdown begins at 0, every open work item has a remaining duration
    [d] in N + {oo}; the configured wait is a natural number.  proxy.Shutdown starts one
    goroutine per registered server, each with its own context.WithTimeout(Background, wait)
    (all created at time 0, so one common absolute deadline [wait]) and joins them with a
    WaitGroup: the servers shut down in PARALLEL, the call returns at the latest of them.
    No proofs here. *)
From Coq Require Import List NArith Bool.
Import ListNotations.
Local Open Scope N_scope.

(* ---- durations: N extended by infinity ---- *)
Inductive dur := Fin (n : N) | Inf.

Definition dleb (a b : dur) : bool :=
  match a, b with
  | Fin x, Fin y => x <=? y
  | _, Inf => true
  | Inf, Fin _ => false
  end.
Definition dltb (a b : dur) : bool := negb (dleb b a).
Definition dmax (a b : dur) : dur :=
  match a, b with
  | Fin x, Fin y => Fin (N.max x y)
  | _, _ => Inf
  end.
Definition dmin (a b : dur) : dur :=
  match a, b with
  | Fin x, Fin y => Fin (N.min x y)
  | Fin x, Inf => Fin x
  | Inf, b => b
  end.
Definition dmax_list (l : list dur) : dur := fold_right dmax (Fin 0) l.
Definition dur_eqb (a b : dur) : bool :=
  match a, b with Fin x, Fin y => x =? y | Inf, Inf => true | _, _ => false end.

(* ---- servers ---- *)
Inductive kind :=
| KHttp      (* *http.Server *)
| KTcp       (* *tcp.Server with tcp.Proxy / tcp.SNIProxy / tcp.DynamicProxy as handler: one Shutdown *)
| KGrpc.     (* *gRPCServer *)
Definition kind_eqb (a b : kind) : bool :=
  match a, b with KHttp, KHttp | KTcp, KTcp | KGrpc, KGrpc => true | _, _ => false end.

(* a leaf server with the remaining durations of its open requests / tunnels / streams.
   [lstuck] (TCP kind only, ignored for the others): connections whose handler goroutine is
   blocked for that long in a phase that closing the client connection does not interrupt
   (tcp.Proxy inside net.DialTimeout to an upstream that does not answer, a slow PROXY-header
   write, a slow custom tcp.Handler); such a handler produces no answer, it just returns. *)
(* [lhijacked] (HTTP kind only, ignored for the others): connections the handler has hijacked
   (websocket / Upgrade sessions through HTTPProxy's raw proxy): http.Server stops tracking a
   connection when it is hijacked, so Shutdown neither waits for it nor closes it. *)
Record leaf := { lkind : kind; litems : list dur; lstuck : list dur; lhijacked : list dur }.
Definition mkleaf (k : kind) (ds : list dur) : leaf :=
  {| lkind := k; litems := ds; lstuck := []; lhijacked := [] |}.


Inductive server :=
| Single (l : leaf)
| Composite (children : list leaf).   (* InetAfTCPProxyServer: outer tcpproxy listener + children *)

Definition leaves (s : server) : list leaf :=
  match s with Single l => [l] | Composite cs => cs end.

(* ---- the Shutdown methods as programs of atomic steps ---- *)
Inductive step :=
| CloseListener        (* close the listening socket(s): no accept from now on *)
| WaitIdleOrDeadline   (* http.Server.Shutdown: poll until no connection is active, or ctx is done; nothing is interrupted *)
| WaitDeadline         (* tcp.Server.Shutdown: <-ctx.Done(), unconditionally *)
| CloseConns           (* tcp.Server.closeConns / grpc.Server.Stop: every open connection is closed now *)
| WaitAll              (* grpc.Server.GracefulStop: wait until every stream has ended; no deadline *)
| WaitHandlers.        (* NOT in the code: wait until every per-connection handler goroutine has returned *)

Definition http_prog : list step := [CloseListener; WaitIdleOrDeadline].
Definition tcp_prog  : list step := [CloseListener; WaitDeadline; CloseConns].
(* a variant that is NOT the code (tcp.Server.Shutdown does not wait for its handler
   goroutines): kept to show what such a wait would cost, see Proofs *)
Definition tcp_prog_waiting_for_handlers : list step := tcp_prog ++ [WaitHandlers].
(* the code as it is (since fix: 72215e8): GracefulStop runs in a goroutine and is raced against
   ctx.Done(); on expiry grpc.Server.Stop() closes the remaining streams.  (When the graceful
   stop wins, the CloseConns step finds nothing open: every item has ended by then.) *)
Definition grpc_prog : list step := [CloseListener; WaitIdleOrDeadline; CloseConns].
(* the code as it was before 72215e8 (finding F-C18-1, repaired): GracefulStop only, the context
   ignored.  Used by the refutation theorems only. *)
Definition grpc_prog_unrepaired : list step := [CloseListener; WaitAll].

Definition prog_of (gp : list step) (k : kind) : list step :=
  match k with KHttp => http_prog | KTcp => tcp_prog | KGrpc => gp end.

(* state of one leaf's shutdown *)
Record lstate := {
  now : dur;                 (* time reached by the shutdown goroutine *)
  closed_at : option dur;    (* when the listener was closed *)
  cut_at : option dur        (* when the open connections were closed by force *)
}.
Definition lstate0 : lstate := {| now := Fin 0; closed_at := None; cut_at := None |}.

Definition exec_step (wait : N) (items stuck : list dur) (s : lstate) (st : step) : lstate :=
  match st with
  | CloseListener =>
      {| now := now s;
         closed_at := match closed_at s with None => Some (now s) | c => c end;
         cut_at := cut_at s |}
  | WaitIdleOrDeadline =>
      {| now := dmax (now s) (dmin (dmax_list items) (Fin wait)); closed_at := closed_at s; cut_at := cut_at s |}
  | WaitDeadline =>
      {| now := dmax (now s) (Fin wait); closed_at := closed_at s; cut_at := cut_at s |}
  | CloseConns =>
      {| now := now s; closed_at := closed_at s;
         cut_at := match cut_at s with None => Some (now s) | c => c end |}
  | WaitAll =>
      {| now := dmax (now s) (dmax_list items); closed_at := closed_at s; cut_at := cut_at s |}
  | WaitHandlers =>
      {| now := dmax (now s) (dmax_list stuck); closed_at := closed_at s; cut_at := cut_at s |}
  end.

Definition exec (wait : N) (items stuck : list dur) (p : list step) : lstate :=
  fold_left (exec_step wait items stuck) p lstate0.

(* what happens to one open item *)
Inductive fate :=
| Done (t : N)    (* ends by itself at t, untouched by the shutdown *)
| Cut (t : dur)   (* its connection is closed by the server at t *)
| Never.          (* never ends and is never closed *)

(* an item that ends exactly when its connection is closed races with the close in the real
   code; in abstract time the model lets it end (the harness keeps 90 ms away from ties) *)
Definition item_fate (s : lstate) (d : dur) : fate :=
  match cut_at s with
  | Some c => if dleb d c then match d with Fin n => Done n | Inf => Never end else Cut c
  | None => match d with Fin n => Done n | Inf => Never end
  end.

(* the client of a connection whose handler is stuck sees it closed when the handler returns or
   when the server closes the connections, whichever is first (closing does not wake the handler) *)
Definition stuck_fate (s : lstate) (b : dur) : fate :=
  Cut (match cut_at s with Some c => dmin b c | None => b end).

(* work that Shutdown does not touch at all (hijacked connections; servers it does not reach) *)
Definition untouched (d : dur) : fate := match d with Fin n => Done n | Inf => Never end.

Record lresult := {
  r_ret : dur;               (* when this server's Shutdown returns *)
  r_closed : option dur;     (* when its listener stopped accepting *)
  r_fates : list fate;
  r_stuck : list fate;       (* what the clients of the stuck handlers see *)
  r_hijacked : list fate     (* hijacked connections: left alone *)
}.

Definition run_leaf (gp : list step) (wait : N) (l : leaf) : lresult :=
  let s := exec wait (litems l) (lstuck l) (prog_of gp (lkind l)) in
  {| r_ret := now s; r_closed := closed_at s; r_fates := map (item_fate s) (litems l);
     r_stuck := map (stuck_fate s) (lstuck l);
     r_hijacked := map untouched (lhijacked l) |}.

Record sresult := {
  s_ret : dur;
  s_outer_closed : option dur;   (* composite only: the tcpproxy listener *)
  s_leaves : list lresult
}.

(* InetAfTCPProxyServer.Shutdown: Proxy.Close(); Proxy.Wait() (the accept loop ends at once),
   then every child's Shutdown(ctx) concurrently with the SAME ctx; returns after the last *)
Definition run_server (gp : list step) (wait : N) (s : server) : sresult :=
  match s with
  | Single l =>
      let r := run_leaf gp wait l in
      {| s_ret := r_ret r; s_outer_closed := None; s_leaves := [r] |}
  | Composite cs =>
      let rs := map (run_leaf gp wait) cs in
      {| s_ret := dmax_list (map r_ret rs); s_outer_closed := Some (Fin 0); s_leaves := rs |}
  end.

Record result := {
  g_ret : dur;                   (* when proxy.Shutdown returns (wg.Wait) *)
  g_servers : list sresult
}.

Definition shutdown_with (gp : list step) (wait : N) (srvs : list server) : result :=
  let rs := map (run_server gp wait) srvs in
  {| g_ret := dmax_list (map s_ret rs); g_servers := rs |}.

(* the code as it is *)
Definition shutdown := shutdown_with grpc_prog.
(* the code as it was before the gRPC Shutdown honoured its deadline (refutation theorems only) *)
Definition shutdown_unrepaired := shutdown_with grpc_prog_unrepaired.

(* does server [r] accept a connection attempted at time [t] (>= 0, i.e. after shutdown began)? *)
Definition leaf_accepts (r : lresult) (t : N) : bool :=
  match r_closed r with None => true | Some c => dltb (Fin t) c end.
Definition server_accepts (r : sresult) (t : N) : bool :=
  match s_outer_closed r with
  | Some c => dltb (Fin t) c                       (* the only real socket is the outer one *)
  | None => existsb (fun l => leaf_accepts l t) (s_leaves r)
  end.

(* an item survives when it is [Done] no later than the return of proxy.Shutdown
   (main.go exits the process right after) *)
Definition survives (g : result) (f : fate) : bool :=
  match f with Done t => dleb (Fin t) (g_ret g) | _ => false end.

(* ---- the registry of running servers (proxy/serve.go:29-34, serve():208-210) ----
   serve() stores every server in the package-level map [servers] under ln.Addr().String(), the
   configured listen address (ip, port); proxy.Shutdown snapshots the map and shuts down its
   values.  A Go map keeps one value per key: a server started earlier under a key that a later
   start uses again is overwritten, and Shutdown never reaches it: its listener stays open and
   its work is left alone.  [kf] is the key function: the identity for the code as it is. *)
Definition addr := (N * N)%type.   (* IPv4 address as a number, port *)
Definition addr_eqb (a b : addr) : bool := (fst a =? fst b) && (snd a =? snd b).
Definition key_configured (a : addr) : addr := a.          (* the code *)
Definition key_port_only (a : addr) : addr := (0, snd a).  (* NOT the code: ":" + port *)

Definition overwritten (kf : addr -> addr) (a : addr) (later : list (addr * server)) : bool :=
  existsb (fun q => addr_eqb (kf (fst q)) (kf a)) later.

(* per started server, in start order: None = no longer in the registry, not shut down *)
Fixpoint run_started (gp : list step) (kf : addr -> addr) (wait : N) (started : list (addr * server))
  : list (option sresult) :=
  match started with
  | [] => []
  | (a, s) :: later =>
      (if overwritten kf a later then None else Some (run_server gp wait s)) :: run_started gp kf wait later
  end.

Definition started_accepts (r : option sresult) (t : N) : bool :=
  match r with None => true | Some r => server_accepts r t end.

Definition started_ret (rs : list (option sresult)) : dur :=
  dmax_list (map (fun r => match r with Some r => s_ret r | None => Fin 0 end) rs).


(* ---- histories: listeners are also opened and closed while fabio runs (main.go:431-483, the
   tcp-dynamic watcher: proxy.ListenAndServeTCP for a new port, proxy.CloseProxy(port) for one
   that lost its routes).  CloseProxy (proxy/serve.go:36-48) takes the registry lock, calls
   srv.Close() on the entry (tcp.Server.Close: listeners and ALL connections closed at once),
   deletes it, and releases the lock before returning: it never waits.  A CloseProxy that runs
   after Shutdown has taken its snapshot finds an empty registry and does nothing. *)
Inductive hop :=
| HStart (a : addr) (s : server)   (* serve(): registered under the configured address, accepting *)
| HClose (a : addr)                (* CloseProxy(a) before Shutdown began *)
| HCloseDuring (a : addr)          (* CloseProxy(a) while Shutdown is running: no effect *)
| HStartDuring (a : addr) (s : server).
    (* serve() AFTER Shutdown took its snapshot (main.go:431-483: the tcp-dynamic watcher loop is
       never stopped): the server is registered in the fresh map, which nobody shuts down *)

(* what happens first, later in the history, to the registry entry under [a]'s key:
   Some true = closed by CloseProxy, Some false = overwritten by another start, None = nothing *)
Fixpoint first_touch (kf : addr -> addr) (a : addr) (later : list hop) : option bool :=
  match later with
  | [] => None
  | HStart a' _ :: r => if addr_eqb (kf a') (kf a) then Some false else first_touch kf a r
  | HClose a' :: r => if addr_eqb (kf a') (kf a) then Some true else first_touch kf a r
  | HCloseDuring _ :: r => first_touch kf a r
  | HStartDuring _ _ :: r => first_touch kf a r
  end.

Inductive sfate :=
| SReached (r : sresult)   (* in the registry when Shutdown begins *)
| SLost                    (* overwritten in the registry: never shut down *)
| SClosed                  (* closed by CloseProxy before Shutdown began: listener and connections gone *)
| SLate.                   (* started after the snapshot: accepts until the process exits *)

(* the histories in which every start finds its address free in the registry (the tcp-dynamic
   watcher only starts a port it could bind, i.e. after the previous listener on it was closed)
   and nothing is started once Shutdown runs.  [reg] = the addresses registered so far *)
Fixpoint well_formed_from (reg : list addr) (h : list hop) : Prop :=
  match h with
  | [] => True
  | HStart a _ :: r => ~ In a reg /\ well_formed_from (a :: reg) r
  | HClose a :: r => well_formed_from (filter (fun b => negb (addr_eqb b a)) reg) r
  | HCloseDuring _ :: r => well_formed_from reg r
  | HStartDuring _ _ :: _ => False
  end.
Definition well_formed (h : list hop) : Prop := well_formed_from [] h.
Definition has_late_start (h : list hop) : bool :=
  existsb (fun o => match o with HStartDuring _ _ => true | _ => false end) h.

(* per started server, in start order *)
Fixpoint run_history (gp : list step) (kf : addr -> addr) (wait : N) (h : list hop) : list sfate :=
  match h with
  | [] => []
  | HStart a s :: r =>
      match first_touch kf a r with
      | None => SReached (run_server gp wait s)
      | Some true => SClosed
      | Some false => SLost
      end :: run_history gp kf wait r
  | HStartDuring _ _ :: r => SLate :: run_history gp kf wait r
  | _ :: r => run_history gp kf wait r
  end.

Definition history_servers (h : list hop) : list server :=
  flat_map (fun o => match o with HStart _ s | HStartDuring _ s => [s] | _ => [] end) h.
Definition history_addrs (h : list hop) : list addr :=
  flat_map (fun o => match o with HStart a _ => [a] | _ => [] end) h.

Definition sfate_accepts (f : sfate) (t : N) : bool :=
  match f with SReached r => server_accepts r t | SLost => true | SClosed => false | SLate => true end.
Definition history_ret (fs : list sfate) : dur :=
  dmax_list (map (fun f => match f with SReached r => s_ret r | _ => Fin 0 end) fs).

(* a variant that is NOT the code: CloseProxy drains the closed server for up to [wait] while
   holding the registry lock; a Shutdown that begins [delay] before that lock is released
   starts its work only then *)
Definition lock_held_accepts (delay : N) (r : sresult) (t : N) : bool := (t <? delay) || server_accepts r t.
Definition lock_held_ret (delay : N) (r : sresult) : dur :=
  match s_ret r with Fin x => Fin (delay + x) | Inf => Inf end.

(* ---- a sequential variant, for comparison only (the mutant "wait per server in turn") ---- *)
Fixpoint dsum (l : list dur) : dur :=
  match l with
  | [] => Fin 0
  | Fin x :: r => match dsum r with Fin y => Fin (x + y) | Inf => Inf end
  | Inf :: _ => Inf
  end.
Definition shutdown_sequential_ret (wait : N) (srvs : list server) : dur :=
  dsum (map (fun s => s_ret (run_server grpc_prog wait s)) srvs).
