(** Model of config/flagset.go [FlagSet.ParseFlags] (lines 95-144), transcribed
    statement by statement, together with the part of the standard library's
    [flag.FlagSet.Parse] it relies on ([parseOne]; tested against the real
    library on every correspondence run).

    The observable of one flag is the list of raw strings handed to its
    [Value.Set] (in call order) and its bit in [FlagSet.set].  What a typed value
    does with the raw string is not modelled; whether [Value.Set] rejects a raw
    string ([bad]) is data computed by the real typed values in the harness.

    The environment loop is the one after fix 3899f15 (entries without '=' are
    skipped); the loop before the fix is kept as [env_map_unrepaired] /
    [parse_flags_unrepaired] for the refutation theorems only; likewise the version
    that dropped the error of f.Set for environment/file values (before fix 12b472e) is
    kept as [parse_flags_set_error_dropped].

    Environment names are upper-cased with [strings.ToUpper]; the model's [upper]
    is exact on ASCII names (the harness excludes non-ASCII names from the
    comparison; real flag names are ASCII).

    No proofs here (Proofs/FlagSet.v). *)
From Coq Require Import List NArith Bool.
From Fabio Require Import Lib.Outcome Lib.Bytes.
Import ListNotations.
Local Open Scope N_scope.
Local Open Scope outcome_scope.

(* ---- map[string]string as an association list with unique keys ---- *)
Definition smap := list (str * str).

Fixpoint map_get (m : smap) (k : str) : option str :=
  match m with
  | [] => None
  | (k', v) :: r => if beq k' k then Some v else map_get r k
  end.

Fixpoint map_set (m : smap) (k v : str) : smap :=
  match m with
  | [] => [(k, v)]
  | (k', v') :: r => if beq k' k then (k, v) :: r else (k', v') :: map_set r k v
  end.

(* ---- strings.SplitN(e, "=", 2): the name and, when an '=' exists, the rest ---- *)
Fixpoint cut_eq (e : str) : str * option str :=
  match e with
  | [] => ([], None)
  | c :: r => if c =? 61 then ([], Some r)
              else let '(a, b) := cut_eq r in (c :: a, b)
  end.

(* flagset.go:105-114 (after fix 3899f15)
     env := map[string]string{}
     for _, e := range environ {
         p := strings.SplitN(e, "=", 2)
         if len(p) != 2 { continue }           <- entries without '=' are skipped
         env[strings.ToUpper(p[0])] = p[1]
     } *)
Fixpoint env_map (environ : list str) (m : smap) : smap :=
  match environ with
  | [] => m
  | e :: r => match cut_eq e with
              | (_, None) => env_map r m
              | (n, Some v) => env_map r (map_set m (upper n) v)
              end
  end.

(* the loop as it was before 3899f15 (repaired in /repo; kept for the refutation
   theorems only):   env[strings.ToUpper(p[0])] = p[1]   panics when e has no '=' *)
Fixpoint env_map_unrepaired (environ : list str) (m : smap) : outcome smap :=
  match environ with
  | [] => Ok m
  | e :: r => match cut_eq e with
              | (_, None) => Panic
              | (n, Some v) => env_map_unrepaired r (map_set m (upper n) v)
              end
  end.

(* strings.ToUpper(pfx + strings.Replace(fl.Name, ".", "_", -1)) *)
Definition dots_to_underscores (s : str) : str :=
  map (fun c => if c =? 46 then 95 else c) s.
Definition env_name (pfx name : str) : str := upper (pfx ++ dots_to_underscores name).

(* ---- registered flags ---- *)
Record flagdecl := { fname : str; fbool : bool }.

(* where the value handed to Value.Set came from *)
Inductive source := SrcCmdline | SrcEnv (prefix_index : nat) | SrcProps | SrcDefault.

Record flag_result := {
  r_name : str;
  r_set : bool;           (* FlagSet.set[name] *)
  r_calls : list str;     (* every raw string passed to Value.Set, in order *)
  r_src : source
}.

Section ParseFlags.
  Variable flags : list flagdecl.
  (* Value.Set(raw) of flag [name] returns an error *)
  Variable bad : str -> str -> bool.

  Definition lookup_flag (n : str) : option flagdecl :=
    find (fun f => beq (fname f) n) flags.

  (* name[i] == '=' for the first i >= 1: (name[:i], Some name[i+1:]) *)
  Definition split_flag_value (name : str) : str * option str :=
    match name with
    | [] => ([], None)
    | c :: r => let '(a, b) := cut_eq r in (c :: a, b)
    end.

  (* flag.FlagSet.Parse / parseOne.  [calls] = successful and failed Set calls so far
     (name, raw), newest last.  Err 1 = any parse error (ContinueOnError), Err 2 = -h/-help. *)
  Fixpoint parse_args (args : list str) (calls : list (str * str)) : outcome (list (str * str)) :=
    match args with
    | [] => Ok calls
    | s :: rest =>
        match s with
        | c0 :: c1 :: s2 =>
            if negb (c0 =? 45) then Ok calls else      (* s[0] != '-': first non-flag argument *)
            (* numMinuses, "--" terminator *)
            let after := if c1 =? 45 then s2 else c1 :: s2 in
            if (c1 =? 45) && (match s2 with [] => true | _ => false end) then Ok calls else
            match after with
            | [] => Err 1                                  (* unreachable: len(name) == 0 *)
            | n0 :: _ =>
                if (n0 =? 45) || (n0 =? 61) then Err 1 else    (* bad flag syntax *)
                let '(name, val) := split_flag_value after in
                match lookup_flag name with
                | None => if beq name [104; 101; 108; 112] || beq name [104] then Err 2 else Err 1
                | Some fl =>
                    if fbool fl then
                      let raw := match val with Some v => v | None => [116; 114; 117; 101] end in
                      if bad name raw then Err 1 else parse_args rest (calls ++ [(name, raw)])
                    else
                      match val with
                      | Some v => if bad name v then Err 1 else parse_args rest (calls ++ [(name, v)])
                      | None =>
                          match rest with
                          | [] => Err 1                      (* flag needs an argument *)
                          | v :: rest' =>
                              if bad name v then Err 1 else parse_args rest' (calls ++ [(name, v)])
                          end
                      end
                end
            end
        | _ => Ok calls        (* len(s) < 2: first non-flag argument *)
        end
    end.

  Definition calls_for (name : str) (calls : list (str * str)) : list str :=
    map snd (filter (fun c => beq (fst c) name) calls).

  (* for _, pfx := range prefixes { if val, ok := env[name]; ok {...; return} } *)
  Fixpoint env_lookup (prefixes : list str) (i : nat) (env : smap) (name : str) : option (nat * str) :=
    match prefixes with
    | [] => None
    | p :: r => match map_get env (env_name p name) with
                | Some v => Some (i, v)
                | None => env_lookup r (S i) env name
                end
    end.

  (* the body of the VisitAll callback (flagset.go:118-142) for one flag *)
  Definition visit (calls : list (str * str)) (prefixes : list str) (env : smap)
             (props : option smap) (f : flagdecl) : flag_result :=
    let name := fname f in
    match calls_for name calls with
    | (_ :: _) as cs => {| r_name := name; r_set := true; r_calls := cs; r_src := SrcCmdline |}
    | [] =>
        match env_lookup prefixes 0 env name with
        | Some (i, v) => {| r_name := name; r_set := true; r_calls := [v]; r_src := SrcEnv i |}
        | None =>
            match props with
            | None => {| r_name := name; r_set := false; r_calls := []; r_src := SrcDefault |}
            | Some p =>
                match map_get p name with
                | Some v => {| r_name := name; r_set := true; r_calls := [v]; r_src := SrcProps |}
                | None => {| r_name := name; r_set := false; r_calls := []; r_src := SrcDefault |}
                end
            end
        end
    end.

  (* flagset.go:131-153 (after fix 12b472e): the value found in the environment or the file is
     handed to f.Set; if the option's type rejects it, ParseFlags returns that error
     ("invalid value ... for environment variable / property ...") and the remaining callbacks
     return early.  Only ok/error is observable (config.Load returns nil, err), so the model
     returns Err 1 -- the same class as flag.Parse's error for a rejected command-line value --
     when some flag's env/file value is rejected. *)
  Definition rejected (r : flag_result) : bool :=
    match r_src r with
    | SrcCmdline => false                       (* checked by flag.Parse already *)
    | _ => match rev (r_calls r) with v :: _ => bad (r_name r) v | [] => false end
    end.

  Definition finish_visit (rs : list flag_result) : outcome (list flag_result) :=
    if existsb rejected rs then Err 1 else Ok rs.

  (* FlagSet.ParseFlags(args, environ, prefixes, p) *)
  Definition parse_flags (args environ prefixes : list str) (props : option smap)
    : outcome (list flag_result) :=
    do calls <- parse_args args [];
    let prefixes := match prefixes with [] => [[]] | _ => prefixes end in
    let env := env_map environ [] in
    finish_visit (map (visit calls prefixes env props) flags).

  (* ParseFlags before fix 3899f15 only (panic on an entry without '='; refutation theorems only) *)
  Definition parse_flags_unrepaired (args environ prefixes : list str) (props : option smap)
    : outcome (list flag_result) :=
    do calls <- parse_args args [];
    let prefixes := match prefixes with [] => [[]] | _ => prefixes end in
    do env <- env_map_unrepaired environ [];
    finish_visit (map (visit calls prefixes env props) flags).

  (* ParseFlags before fix 12b472e only (finding F-C15-3, repaired in /repo; refutation theorem
     only):  f.Set(fl.Name, val)  with the error dropped -- a value the type rejects is applied
     as far as the failed Set applies it, the flag counts as set, and ParseFlags returns nil *)
  Definition parse_flags_set_error_dropped (args environ prefixes : list str) (props : option smap)
    : outcome (list flag_result) :=
    do calls <- parse_args args [];
    let prefixes := match prefixes with [] => [[]] | _ => prefixes end in
    let env := env_map environ [] in
    Ok (map (visit calls prefixes env props) flags).
End ParseFlags.

(* the prefixes config.Load passes (load.go:52): "FABIO_", "" *)
Definition fabio_prefixes : list str := [[70; 65; 66; 73; 79; 95]; []].

(* the raw string the flag's Value ends up with (the last Set call), if any *)
Definition final_raw (r : flag_result) : option str :=
  match rev (r_calls r) with v :: _ => Some v | [] => None end.

Definition result_for (name : str) (rs : list flag_result) : option flag_result :=
  find (fun r => beq (r_name r) name) rs.

(* ================= the specification side =================
   "the command line wins over the FABIO_-prefixed variable, over the plain variable,
   over the file, over the default", stated without maps or visiting order. *)

(* the value the command line gives a flag: the last assignment to it *)
Definition cmd_value (calls : list (str * str)) (name : str) : option str :=
  match find (fun c => beq (fst c) name) (rev calls) with
  | Some c => Some (snd c)
  | None => None
  end.

(* the value the environment gives a variable, in any letter case: the last entry of
   the form NAME=VALUE whose name equals [key] up to case ([key] is upper case) *)
Definition env_value (environ : list str) (key : str) : option str :=
  match find (fun e => match snd (cut_eq e) with Some _ => true | None => false end
                       && beq (upper (fst (cut_eq e))) key) (rev environ) with
  | Some e => snd (cut_eq e)
  | None => None
  end.

Definition props_value (props : option smap) (name : str) : option str :=
  match props with Some p => map_get p name | None => None end.

Definition first_some {A} (l : list (option A)) : option A :=
  match filter (fun o => match o with Some _ => true | None => false end) l with
  | o :: _ => o
  | [] => None
  end.

(* source k of the five: 1 command line, 2 FABIO_-prefixed variable, 3 plain variable,
   4 properties file (5 = default: supplies nothing) *)
Definition present (calls : list (str * str)) (environ : list str) (props : option smap)
           (name : str) (k : N) : option str :=
  if k =? 1 then cmd_value calls name
  else if k =? 2 then env_value environ (env_name [70; 65; 66; 73; 79; 95] name)
  else if k =? 3 then env_value environ (env_name [] name)
  else if k =? 4 then props_value props name
  else None.

Definition spec_choice (calls : list (str * str)) (environ : list str) (props : option smap)
           (name : str) : option str :=
  first_some (map (present calls environ props name) [1; 2; 3; 4]).

(* the same for an arbitrary prefix list *)
Definition spec_choice_gen (calls : list (str * str)) (environ prefixes : list str)
           (props : option smap) (name : str) : option str :=
  let prefixes := match prefixes with [] => [[]] | _ => prefixes end in
  first_some (cmd_value calls name
              :: map (fun p => env_value environ (env_name p name)) prefixes
              ++ [props_value props name]).

(* every environment entry has the form NAME=VALUE (the domain of the unrepaired loop) *)
Definition env_well_formed (environ : list str) : bool :=
  forallb (fun e => match snd (cut_eq e) with Some _ => true | None => false end) environ.

(* ---- several Loads in one process ----
   config.Load(args, environ) reads its arguments, the file named by -cfg and the
   package-level defaults, which it must not modify: it keeps no state between calls.  A
   process that loads inputs i1 .. in therefore obtains [load i1 .. load in], where [load]
   is the function a fresh process computes; in particular results already returned are
   what they were.  ([load] is a section variable: whatever a single Load computes.) *)
Section LoadHistory.
  Variables (input result : Type) (load : input -> result).
  Definition load_history (inputs : list input) : list result := map load inputs.
End LoadHistory.
Arguments load_history {input result} load inputs.
