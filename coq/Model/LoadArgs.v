(** Model of config/load.go [parse] (lines 61-114): the arguments config.Load consumes before
    the flag set sees the rest -- the version words, the spellings of -cfg, the -test. words.
    [Ok (cmdline, path, version)]; [Err 1] = errInvalidConfig; [Panic] = the explicit
    [panic("missing exec name")] for an empty argument list (os.Args is never empty: that case
    is outside the property's quantifier, the model keeps it as the code has it).
    No proofs here (Proofs/LoadArgs.v). *)
From Coq Require Import String List NArith Bool.
From Fabio Require Import Lib.Outcome Lib.Bytes.
Import ListNotations.
Local Open Scope N_scope.

(* strings.Trim(s, string(c)) for a single byte *)
Fixpoint trim_left_byte (c : N) (s : str) : str :=
  match s with
  | x :: r => if x =? c then trim_left_byte c r else s
  | [] => []
  end.
Definition trim_byte (c : N) (s : str) : str := rev (trim_left_byte c (rev (trim_left_byte c s))).

Definition w_v : str := bs "-v".
Definition w_version : str := bs "-version".
Definition w_version2 : str := bs "--version".
Definition w_cfg : str := bs "-cfg".
Definition w_cfg2 : str := bs "--cfg".
Definition w_cfg_eq : str := bs "-cfg=".
Definition w_cfg2_eq : str := bs "--cfg=".
Definition w_test : str := bs "-test.".

(* path after "-cfg=" / "--cfg=": unquoting (load.go:93-103) *)
Definition unquote_path (p : str) : outcome str :=
  match p with
  | [] => Err 1
  | c :: _ =>
      let p' := if c =? 39 then trim_byte 39 p else if c =? 34 then trim_byte 34 p else p in
      match p' with [] => Err 1 | _ => Ok p' end
  end.

(* the loop  for i := 1; i < len(args); i++  *)
Fixpoint parse_rest (rest : list str) (cmdline : list str) (path : str)
  : outcome (list str * str * bool) :=
  match rest with
  | [] => Ok (cmdline, path, false)
  | arg :: r =>
      if beq arg w_v || beq arg w_version || beq arg w_version2 then Ok ([], [], true)
      else if beq arg w_cfg || beq arg w_cfg2 then
        match r with
        | [] => Err 1                          (* i >= len(args)-1 *)
        | p :: r' => parse_rest r' cmdline p
        end
      else if has_prefix arg w_cfg_eq then
        match unquote_path (skipn 5 arg) with
        | Ok p => parse_rest r cmdline p
        | Err k => Err k
        | Panic => Panic
        end
      else if has_prefix arg w_cfg2_eq then
        match unquote_path (skipn 6 arg) with
        | Ok p => parse_rest r cmdline p
        | Err k => Err k
        | Panic => Panic
        end
      else if has_prefix arg w_test then parse_rest r cmdline path
      else parse_rest r (cmdline ++ [arg]) path
  end.

Definition config_parse (args : list str) : outcome (list str * str * bool) :=
  match args with
  | [] => Panic                                (* panic("missing exec name") *)
  | exe :: rest => parse_rest rest [exe] []
  end.
