(** Model of what proxy.HTTPProxy.ServeHTTP (proxy/http_proxy.go:83-236) together
    with the director of newHTTPProxy (proxy/http_handler.go:17-37) and
    net/http/httputil.ReverseProxy turns a client request into, and what the
    client gets back.  The request is given as net/http hands it to the handler:
    method, raw request target, Host, header (canonical names, sorted by name, value
    order kept), body.  The URL part is transcribed from fabio statement by
    statement on top of Model.UrlPathC07; the header part is a model of
    httputil.ReverseProxy (stdlib: modelled, tied by the correspondence run, not
    verified).  Second half: the specification, written on the RAW path without
    reference to Go's escaping decisions.  No proofs in this file. *)
From Coq Require Import String List NArith ZArith Bool.
From Fabio Require Import Lib.Outcome Lib.Bytes Model.UrlPathC07.
Import ListNotations.
Local Open Scope N_scope.
Local Open Scope outcome_scope.

Definition header := list (str * str).

Record request := {
  rq_method : str; rq_target : str; rq_host : str; rq_headers : header; rq_body : str }.
(* the route's options as route.Target carries them (URL.Scheme does not reach the observables) *)
Record route_opts := {
  ro_strip : str; ro_prepend : str; ro_host : str; ro_thost : str; ro_tquery : str }.
Record upstream := {
  up_method : str; up_target : str; up_host : str; up_headers : header; up_body : str }.
Record response := { rs_status : Z; rs_headers : header; rs_body : str }.

(* ---------- header primitives (http.Header on canonical keys) ---------- *)
Definition hvalues (h : header) (k : str) : list str :=
  map snd (filter (fun kv => beq (fst kv) k) h).
Definition hhas (h : header) (k : str) : bool := existsb (fun kv => beq (fst kv) k) h.
Definition hdel (k : str) (h : header) : header := filter (fun kv => negb (beq (fst kv) k)) h.
Definition hget (h : header) (k : str) : str := match hvalues h k with v :: _ => v | [] => [] end.
(* insert keeping the list sorted by name (the harness flattens maps in key order) *)
Fixpoint hinsert (k v : str) (h : header) : header :=
  match h with
  | [] => [(k, v)]
  | (k', v') :: r => if str_ltb k k' then (k, v) :: h else (k', v') :: hinsert k v r
  end.
Definition hset (k v : str) (h : header) : header := hinsert k v (hdel k h).

(* ---------- textproto.CanonicalMIMEHeaderKey ---------- *)
(* validHeaderFieldByte: RFC 7230 token bytes *)
Definition token_marks : list N := [33; 35; 36; 37; 38; 39; 42; 43; 45; 46; 94; 95; 96; 124; 126].
Definition is_token_byte (c : N) : bool := is_alnum c || mem_byte c token_marks.
Fixpoint canon_go (up : bool) (s : str) : str :=
  match s with
  | [] => []
  | c :: r => let c' := if up then upper_byte c else lower_byte c in
              c' :: canon_go (c' =? 45) r
  end.
Definition canon_key (s : str) : str :=
  if forallb is_token_byte s then canon_go true s else s.

(* ---------- comma-separated tokens ---------- *)
Definition is_ows (c : N) : bool := (c =? 32) || (c =? 9).
Definition is_space4 (c : N) : bool := (c =? 32) || (c =? 9) || (c =? 10) || (c =? 13).
Fixpoint drop_while (f : N -> bool) (s : str) : str :=
  match s with c :: r => if f c then drop_while f r else s | [] => [] end.
Definition trim (f : N -> bool) (s : str) : str := rev (drop_while f (rev (drop_while f s))).

(* httpguts.HeaderValuesContainsToken(values, tok), tok given in lower case *)
Definition values_contain_token (vs : list str) (tok : str) : bool :=
  existsb (fun v => existsb (fun t => let t' := trim is_ows t in
                                      forallb (fun c => c <? 128) t' && beq (lower t') tok)
                            (split_byte v 44)) vs.

(* ---------- httputil: removeHopByHopHeaders ---------- *)
Definition k_connection := bs "Connection"%string.
Definition k_upgrade := bs "Upgrade"%string.
Definition k_te := bs "Te"%string.
Definition k_user_agent := bs "User-Agent"%string.
Definition k_accept_encoding := bs "Accept-Encoding"%string.
Definition k_range := bs "Range"%string.
Definition hop_headers : list str :=
  [k_connection; bs "Proxy-Connection"%string; bs "Keep-Alive"%string; bs "Proxy-Authenticate"%string;
   bs "Proxy-Authorization"%string; k_te; bs "Trailer"%string; bs "Transfer-Encoding"%string; k_upgrade].

Definition conn_listed (h : header) : list str :=
  flat_map (fun v => map canon_key (filter nonempty (map (trim is_space4) (split_byte v 44))))
           (hvalues h k_connection).
Definition remove_hop (h : header) : header :=
  fold_left (fun acc k => hdel k acc) (conn_listed h ++ hop_headers) h.

(* httputil.upgradeType *)
Definition upgrade_type (h : header) : str :=
  if values_contain_token (hvalues h k_connection) (bs "upgrade"%string) then hget h k_upgrade else [].

(* ---------- the request header an upstream round trip is started with ----------
   ReverseProxy.ServeHTTP after fabio's director: hop-by-hop removal, "Te: trailers"
   kept, upgrade headers put back, User-Agent forced to exist (empty = do not send). *)
Definition fwd_headers (h : header) : header :=
  let h1 := remove_hop h in
  let h2 := if values_contain_token (hvalues h k_te) (bs "trailers"%string) then hset k_te (bs "trailers"%string) h1 else h1 in
  let ut := upgrade_type h in
  let h3 := if nonempty ut then hset k_upgrade ut (hset k_connection (bs "Upgrade"%string) h2) else h2 in
  if hhas h3 k_user_agent then h3 else hset k_user_agent [] h3.

(* what http.Transport as fabio configures it (transport.NewTransport: DisableCompression, since
   fix 5e1efca) writes: only the first User-Agent value and none when empty; nothing of its own *)
Definition wire_headers (method : str) (h : header) : header :=
  let ua := hget h k_user_agent in
  if nonempty ua then hset k_user_agent ua h else hdel k_user_agent h.

(* before 5e1efca (compression left enabled): "Accept-Encoding: gzip" of the transport's own when
   the request names no encoding and no range and is not HEAD.  Kept for the _unrepaired theorem. *)
Definition wire_headers_unrepaired (method : str) (h : header) : header :=
  let h1 := wire_headers method h in
  if negb (nonempty (hget h k_accept_encoding)) && negb (nonempty (hget h k_range)) && negb (beq method (bs "HEAD"%string))
  then hset k_accept_encoding (bs "gzip"%string) h1 else h1.

(* ---------- fabio: target URL (http_proxy.go:143-180) ---------- *)
Definition slash_fix (p : str) : str := if has_prefix p [47] then p else 47 :: p.

Definition strip_applies (path strip : str) : bool := nonempty strip && has_prefix path strip.

Definition target_path (path strip prepend : str) : str :=
  let p1 := if strip_applies path strip then slash_fix (skipn (length strip) path) else path in
  if nonempty prepend then slash_fix (prepend ++ p1) else p1.

Definition merge_query (tq cq : str) : str :=
  if negb (nonempty tq) || negb (nonempty cq) then tq ++ cq else tq ++ 38 :: cq.

Definition dst : str := bs "dst"%string.
Definition fwd_host (o : route_opts) (client_host : str) : str :=
  let h := if beq (ro_host o) dst then ro_thost o
           else if nonempty (ro_host o) then ro_host o else client_host in
  (* net/http Request.write: an empty Host falls back to URL.Host *)
  if nonempty h then h else ro_thost o.

(* the client's own encoding of the path, rewritten alongside (http_proxy.go, fix 402775d): the
   strip prefix is taken off literally when the raw path literally starts with it, otherwise the
   hint is given up (empty); the prepend option is put in front as it is *)
Definition target_rawpath (path rawpath strip prepend : str) : str :=
  let r1 := if strip_applies path strip
            then (if has_prefix rawpath strip then slash_fix (skipn (length strip) rawpath) else [])
            else rawpath in
  if nonempty prepend then (if nonempty r1 then slash_fix (prepend ++ r1) else r1) else r1.

(* the raw path + query the upstream is sent: the director copies Path, RawPath and RawQuery of the
   target URL into the clone of the client's URL, whose ForceQuery stays the client's; net/url's
   EscapedPath then uses RawPath only while it is a valid encoding of Path *)
Definition fwd_target (o : route_opts) (p : parsed) : str :=
  request_uri (target_path (p_path p) (ro_strip o) (ro_prepend o))
              (target_rawpath (p_path p) (p_rawpath p) (ro_strip o) (ro_prepend o))
              (merge_query (ro_tquery o) (p_rawquery p)) (p_force p).

(* before 402775d: the director left the client's RawPath in place.  Kept for the _unrepaired theorem. *)
Definition fwd_target_unrepaired (o : route_opts) (p : parsed) : str :=
  request_uri (target_path (p_path p) (ro_strip o) (ro_prepend o)) (p_rawpath p)
              (merge_query (ro_tquery o) (p_rawquery p)) (p_force p).

(* Upgrade: websocket / Websocket: the request is written to the upstream connection from the
   target URL itself (r.URL = targetURL; ws_handler.go: r.Write), which has no ForceQuery.
   (method, request target, Host); the tunnel itself is property C09 *)
Definition ws_forward (o : route_opts) (q : request) : outcome (str * str * str) :=
  do p <- parse_target (rq_target q);
  Ok (rq_method q,
      request_uri (target_path (p_path p) (ro_strip o) (ro_prepend o))
                  (target_rawpath (p_path p) (p_rawpath p) (ro_strip o) (ro_prepend o))
                  (merge_query (ro_tquery o) (p_rawquery p)) false,
      fwd_host o (rq_host q)).

(* Err 1/2: net/url rejects the target / not origin-form; Err 3: Upgrade: websocket goes to the
   raw tunnel handler (property C09) *)
Definition forward (wire : bool) (o : route_opts) (q : request) : outcome upstream :=
  do p <- parse_target (rq_target q);
  let up := hget (rq_headers q) k_upgrade in
  check negb (beq up (bs "websocket"%string) || beq up (bs "Websocket"%string)) else 3;
  let h := fwd_headers (rq_headers q) in
  Ok {| up_method := rq_method q;
        up_target := fwd_target o p;
        up_host := fwd_host o (rq_host q);
        up_headers := if wire then wire_headers (rq_method q) h else h;
        up_body := rq_body q |}.

(* what the client gets for the upstream's answer (ReverseProxy: hop-by-hop removal, copy) *)
Definition respond (r : response) : response :=
  {| rs_status := rs_status r; rs_headers := remove_hop (rs_headers r); rs_body := rs_body r |}.

(* informational (1xx, not 101) responses the upstream sends before the final one:
   httputil.ReverseProxy (Got1xxResponse trace hook) writes each through the ResponseWriter with
   its headers as they are; the final response follows as [respond] says.  stdlib behaviour:
   modelled, not verified.  What fabio contributes is its responseWriter wrapper
   (http_proxy.go:281-300), through which every one of these WriteHeader calls must pass. *)
Definition respond_info (r : response) : response :=
  {| rs_status := rs_status r; rs_headers := rs_headers r; rs_body := [] |}.
Definition respond_all (infos : list response) (final : response) : list response * response :=
  (map respond_info infos, respond final).

(* no route (http_proxy.go:102-113): status, page; no upstream *)
Definition noroute_status (configured : Z) : Z :=
  if (configured <? 100)%Z || (999 <? configured)%Z then 404%Z else configured.
Definition noroute_response (configured : Z) (html : str) : response :=
  {| rs_status := noroute_status configured; rs_headers := []; rs_body := html |}.

(* ServeHTTP as a whole: which upstream request is made (None: none) and, given the upstream's
   answer to it, what the client receives.  [route] = what Lookup returned. *)
Record config := { cf_noroute_status : Z; cf_noroute_html : str }.
Definition serve_http (wire : bool) (cf : config) (route : option route_opts) (q : request)
           (answer : upstream -> response) : outcome (option upstream * response) :=
  match route with
  | None => Ok (None, noroute_response (cf_noroute_status cf) (cf_noroute_html cf))
  | Some o => do u <- forward wire o q; Ok (Some u, respond (answer u))
  end.

(* ================= specification side ================= *)

(* the client's raw path and, when a '?' was sent, the raw query *)
Definition raw_path_of (target : str) : str := fst (cut_q target).
Definition raw_query_of (target : str) : option str := snd (cut_q target).

(* Remove from the RAW path the shortest prefix that denotes [strip]: each byte of [strip]
   is matched either literally or by a %XX triple that decodes to it.  None = the raw path
   does not start with (an encoding of) [strip]. *)
Fixpoint raw_drop (raw strip : str) {struct strip} : option str :=
  match strip with
  | [] => Some raw
  | s :: strip' =>
      match raw with
      | [] => None
      | c :: r =>
          if c =? 37 then
            match r with
            | a :: b :: r' => if (unhex a * 16 + unhex b =? s) then raw_drop r' strip' else None
            | _ => None
            end
          else if c =? s then raw_drop r strip' else None
      end
  end.

(* the raw path the property asks for: the client's bytes with the strip prefix taken off and the
   (encoded) prepend put in front, made absolute; untouched when neither option applies *)
Definition spec_raw_path (raw strip prepend : str) : str :=
  let r1 := match (if nonempty strip then raw_drop raw strip else None) with
            | Some rest => slash_fix rest
            | None => raw
            end in
  if nonempty prepend then slash_fix (escape prepend ++ r1) else r1.

(* the query the property asks for: the route's own first, '&'-joined, a '?' exactly when the
   client sent one or the route has a query *)
Definition spec_query (o : route_opts) (target : str) : str :=
  let q := match raw_query_of target with Some x => x | None => [] end in
  let has_q := match raw_query_of target with Some _ => true | None => false end in
  if has_q || nonempty (ro_tquery o)
  then 63 :: join (filter nonempty [ro_tquery o; q]) [38] else [].

Definition spec_target (o : route_opts) (target : str) : str :=
  spec_raw_path (raw_path_of target) (ro_strip o) (ro_prepend o) ++ spec_query o target.

Definition spec_host (o : route_opts) (client_host : str) : str :=
  if nonempty (ro_host o) then (if beq (ro_host o) dst then ro_thost o else ro_host o)
  else if nonempty client_host then client_host else ro_thost o.

(* names a proxy manages itself: hop-by-hop (RFC 7230 6.1, incl. those the Connection header
   lists), the forwarding headers (property C08), framing *)
Definition managed_req : list str :=
  [bs "Forwarded"%string; bs "X-Forwarded-For"%string; bs "X-Forwarded-Proto"%string; bs "X-Forwarded-Port"%string;
   bs "X-Forwarded-Host"%string; bs "X-Forwarded-Prefix"%string; bs "X-Real-Ip"%string; bs "Content-Length"%string].
Definition mem_str (k : str) (l : list str) : bool := existsb (beq k) l.
Definition is_hop (h : header) (k : str) : bool := mem_str k hop_headers || mem_str k (conn_listed h).
Definition project (drop : list str) (h : header) : header :=
  filter (fun kv => negb (mem_str (fst kv) drop)) h.

(* every end-to-end header of [hin] arrives with the same values in the same order, and
   nothing else arrives ([hout] already projected).  User-Agent: an absent one may be
   represented as the single empty value (Go's way of sending none).  [hop]: the names that are
   hop-by-hop for this message (decided on the unprojected header). *)
Definition e2e_same (hop : str -> bool) (hin hout : header) : bool :=
  let names := map fst hin ++ map fst hout in
  forallb (fun k =>
    if hop k then true
    else if beq k k_user_agent && negb (hhas hin k)
         then list_eqb beq (hvalues hout k) [[]] || negb (hhas hout k)
         else list_eqb beq (hvalues hout k) (hvalues hin k)) names.

(* the hop-by-hop fields a proxy may emit on its own towards the upstream *)
Definition own_hop_ok (hin hout : header) : bool :=
  forallb (fun kv => negb (is_hop hin (fst kv))
                     || beq (fst kv) k_te || beq (fst kv) k_connection || beq (fst kv) k_upgrade
                     (* Go's representation of "send no User-Agent" *)
                     || (beq (fst kv) k_user_agent && negb (nonempty (snd kv)))) hout.

(* everything but the request target *)
Definition spec_forward_rest (o : route_opts) (q : request) (u : upstream) : bool :=
  beq (up_method u) (rq_method q)
  && beq (up_body u) (rq_body q)
  && beq (up_host u) (spec_host o (rq_host q))
  && e2e_same (is_hop (rq_headers q)) (project managed_req (rq_headers q)) (project managed_req (up_headers u))
  && own_hop_ok (rq_headers q) (up_headers u).

Definition spec_forward (o : route_opts) (q : request) (u : upstream) : bool :=
  beq (up_target u) (spec_target o (rq_target q)) && spec_forward_rest o q u.

Definition spec_response (drop : list str) (ur cl : response) : bool :=
  (rs_status cl =? rs_status ur)%Z
  && beq (rs_body cl) (rs_body ur)
  && e2e_same (is_hop (rs_headers ur)) (project drop (rs_headers ur)) (project drop (rs_headers cl))
  && forallb (fun kv => negb (is_hop (rs_headers ur) (fst kv))) (project drop (rs_headers cl)).

(* ---------- known-finding regions (predicates on the input) ---------- *)
Definition canonical_raw (raw : str) : bool :=
  match unescape raw with Ok p => beq (escape p) raw | _ => false end.
Definition opts_touch_path (o : route_opts) (raw : str) : bool :=
  match unescape raw with
  | Ok p => strip_applies p (ro_strip o) || nonempty (ro_prepend o)
  | _ => false
  end.
(* bytes escape() leaves alone: such a string is its own encoding *)
Definition plain (s : str) : bool := forallb (fun c => negb (should_escape c)) s.
(* putting a '/' in front of the raw remainder and of its decoded form is the same thing *)
Definition slash_ok (rest : str) : bool :=
  match unescape rest with
  | Ok d => Bool.eqb (has_prefix d [47]) (has_prefix rest [47])
  | _ => false
  end.
(* the side-condition under which the repaired code keeps a non-canonical client encoding:
   the strip prefix (if it applies) is spelled literally in the raw path, with plain bytes, and
   cuts where a '/' can be put in front consistently; the prepend (if any) is plain *)
Definition encoding_kept_cond (o : route_opts) (raw path : str) : bool :=
  (negb (strip_applies path (ro_strip o))
   || (plain (ro_strip o) && has_prefix raw (ro_strip o) && slash_ok (skipn (length (ro_strip o)) raw)))
  && (negb (nonempty (ro_prepend o)) || plain (ro_prepend o)).
(* 1 (narrowed by fix 402775d): a strip/prepend option applies to a valid, non-canonical raw path
   and the side-condition fails (strip prefix itself percent-encoded in the request or cutting
   in front of an encoded '/', strip/prepend option with a byte that needs escaping) *)
Definition region_strip_encoding (o : route_opts) (target : str) : bool :=
  let raw := raw_path_of target in
  match unescape raw with
  | Ok path => opts_touch_path o raw && negb (canonical_raw raw) && valid_encoded raw
               && negb (encoding_kept_cond o raw path)
  | _ => false
  end.
(* 2: the raw path is not canonical and holds a byte validEncoded rejects (with or without options) *)
Definition region_invalid_byte (o : route_opts) (target : str) : bool :=
  let raw := raw_path_of target in
  negb (canonical_raw raw) && negb (valid_encoded raw).
(* where the transport of before 5e1efca added Accept-Encoding: gzip (for the _unrepaired theorem) *)
Definition region_gzip_added (q : request) : bool :=
  let h := fwd_headers (rq_headers q) in
  negb (nonempty (hget h k_accept_encoding)) && negb (nonempty (hget h k_range))
  && negb (beq (rq_method q) (bs "HEAD"%string)).

(* 4: over a real connection Go's http.Transport writes only the first User-Agent value, and none
   when that value is empty: a repeated or an empty User-Agent does not arrive as sent *)
Definition region_ua_wire (q : request) : bool :=
  negb (is_hop (rq_headers q) k_user_agent)
  && match hvalues (rq_headers q) k_user_agent with
     | [] => false
     | [v] => negb (nonempty v)
     | _ => true
     end.
(* 5: websocket upgrade: the target URL is built without ForceQuery, a lone trailing '?' is lost *)
Definition region_ws_lone_q (target : str) : bool :=
  match raw_query_of target with Some [] => true | _ => false end.

(* ---------- the other ways out of ServeHTTP (http_proxy.go:115-140, http_handler.go:39-66) ----------
   1 access denied, 2 not authorized, 3 redirect route: no upstream round trip;
   4..8 the round trip fails: net.Error (not timeout), timeout, io.EOF, context.Canceled, anything else *)
Definition exit_contacts (kind : N) : bool := 4 <=? kind.
Definition exit_status (kind : N) (redirect_code : Z) : Z :=
  if kind =? 1 then 403%Z else if kind =? 2 then 401%Z else if kind =? 3 then redirect_code
  else if kind =? 4 then 502%Z else if kind =? 5 then 504%Z else if kind =? 6 then 502%Z
  else if kind =? 7 then 499%Z else 500%Z.
