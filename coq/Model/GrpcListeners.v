(** Model of main.go startServers as far as gRPC is concerned: SEVERAL gRPC listeners in one
    fabio process.  The loop over cfg.Listen (main.go:376-405) does, for every entry of
    proxy.addr with proto grpc / grpcs,

        tlscfg, err := makeTLSConfig(l)            // nil unless the entry has a cert source
        ...
        go func() {
            h := newGrpcProxy(cfg, tlscfg, grpStatsHandler)
            proxy.ListenAndServeGRPC(l, h, tlscfg)
        }()

    i.e. every listener gets a proxy OF ITS OWN -- interceptor, glob cache, director and the
    director's backend connection pool (GetGRPCDirector -> newGrpcConnectionPool(tlscfg, cfg),
    with its own cleanup loop) -- built with the tls.Config of THAT listener; only the stats
    handler (counters) is shared (grpcOnce).  The pool dials a grpcs:// target with TLS iff its
    tlscfg is not nil (Model/GrpcPool.v [unreachable]): what a listener can reach depends on its
    own proxy.addr entry alone.  The routing table is the one table of the process
    (route.SetTable / route.GetTable).

    A process is the list of its gRPC listeners in proxy.addr order; each one is a copy of the
    machine with transports (Model/GrpcTransport.v [xstep]) parameterised by its own TLS flag.
    No proofs in this file. *)
From Coq Require Import String List NArith Bool.
From Fabio Require Import Lib.Outcome Lib.Bytes Model.GrpcPool Model.GrpcTransport.
Import ListNotations.
Local Open Scope N_scope.

Record lsn := mklsn {
  ls_tls : bool;       (* makeTLSConfig(l) != nil: the proxy.addr entry names a cert source (proto=grpcs) *)
  ls_px : xstate       (* the proxy newGrpcProxy built for this listener: table as it reads it, pool, transports *)
}.
Definition lproc := list lsn.
(* startServers on a process whose table is [t] *)
Definition l_init (tls : list bool) (t : table) : lproc := map (fun b => mklsn b (x_init t)) tls.

Inductive lop :=
| LCall (i : nat) (m : md) (path : str) (k : nat)   (* a call arrives at listener i; k: the picker's choice *)
| LSetTable (t : table)                              (* route.SetTable *)
| LTick (i : nat)                                    (* the cleanup loop of listener i's pool wakes up *)
| LConnShutdown (i : nat) (u : url)                  (* the channel listener i's pool holds for u enters Shutdown *)
| LLose (u : url).                                   (* backend u loses every connection it has *)

(* one operation on the proxy of one listener: it dials with the listener's own tls.Config *)
Definition ls_step (ng : bool) (down : list url) (l : lsn) (o : xop) : lsn :=
  mklsn (ls_tls l) (xstep ng (unreachable (ls_tls l) down) (ls_px l) o).
Definition ls_run (ng : bool) (down : list url) (l : lsn) (ops : list xop) : lsn :=
  mklsn (ls_tls l) (xrun ng (unreachable (ls_tls l) down) (ls_px l) ops).

Fixpoint at_listener (i : nat) (f : lsn -> lsn) (ps : lproc) : lproc :=
  match ps, i with
  | [], _ => []
  | l :: r, O => f l :: r
  | l :: r, S i' => l :: at_listener i' f r
  end.

Definition lstep (ng : bool) (down : list url) (ps : lproc) (o : lop) : lproc :=
  match o with
  | LCall i m p k => at_listener i (fun l => ls_step ng down l (XOp (Call m p k))) ps
  | LSetTable t => map (fun l => ls_step ng down l (XOp (SetTable t))) ps
  | LTick i => at_listener i (fun l => ls_step ng down l (XOp CleanupTick)) ps
  | LConnShutdown i u => at_listener i (fun l => ls_step ng down l (XOp (ConnShutdown u))) ps
  | LLose u => map (fun l => ls_step ng down l (XLose u)) ps
  end.
Definition lrun (ng : bool) (down : list url) (ps : lproc) (ops : list lop) : lproc :=
  fold_left (lstep ng down) ops ps.

(* what the proxy of listener [j] sees of an operation of the process, and of a history *)
Definition l_sees (j : nat) (o : lop) : list xop :=
  match o with
  | LCall i m p k => if Nat.eqb i j then [XOp (Call m p k)] else []
  | LSetTable t => [XOp (SetTable t)]
  | LTick i => if Nat.eqb i j then [XOp CleanupTick] else []
  | LConnShutdown i u => if Nat.eqb i j then [XOp (ConnShutdown u)] else []
  | LLose u => [XLose u]
  end.
Definition lproj (j : nat) (ops : list lop) : list xop := flat_map (l_sees j) ops.

(* what backend [u] sees of the process: connections from all its listeners together *)
Definition l_sum (f : xstate -> N) (ps : lproc) : N := fold_right (fun l a => f (ls_px l) + a) 0 ps.
Definition l_begun_at (ps : lproc) (u : url) : N := l_sum (fun xs => x_begun_at xs u) ps.
Definition l_ended_at (ps : lproc) (u : url) : N := l_sum (fun xs => x_ended_at xs u) ps.
Definition l_up_at (ps : lproc) (u : url) : N := l_sum (fun xs => x_up_at xs u) ps.

(* every cleanup loop of the process wakes up once (they were started together) *)
Definition l_tick_all (n : nat) : list lop := map LTick (seq 0 n).

(* ---- VARIANT, not the code (what startServers would be if the server options were built once,
   for the first gRPC listener, and handed to every listener): one proxy, one pool, dialling with
   the tls.Config of the first entry of proxy.addr whichever listener the call came through ---- *)
Definition shared_sees (o : lop) : list xop :=
  match o with
  | LCall _ m p k => [XOp (Call m p k)]
  | LSetTable t => [XOp (SetTable t)]
  | LTick _ => [XOp CleanupTick]
  | LConnShutdown _ u => [XOp (ConnShutdown u)]
  | LLose u => [XLose u]
  end.
Definition lrun_shared (ng : bool) (down : list url) (tls : list bool) (t : table) (ops : list lop) : xstate :=
  xrun ng (unreachable (hd false tls) down) (x_init t) (flat_map shared_sees ops).
