(** Model of config/kvslice.go: [lex] (lines 158-233) and [parseKVSlice]
    (lines 20-135), state machine for state machine.  The input is the rune
    slice [[]rune(in)] (code points, [list N]); token values and map keys/values
    are Go strings, i.e. UTF-8 bytes ([str]).

    Library functions the code calls, modelled executably and tested against the
    real library on every correspondence run: [strconv.Unquote] on the quoted
    token (only the double-quote and single-quote forms can reach it), [strings.TrimSpace],
    [string([]rune)].  Domain: every rune is a valid code point (what
    [[]rune(string)] produces).

    [s = s[n:]] is a checked slice: [KPanic] if the lexer ever reported more
    runes than there are.  The parser loop runs on fuel; running out of fuel is
    the distinguished [KFuel], excluded by theorem [parse_kvslice_total].

    No proofs here (Proofs/KVSlice.v). *)
From Coq Require Import String List NArith Bool.
From Fabio Require Import Lib.Outcome Lib.Bytes Model.FlagSet.
Import ListNotations.
Local Open Scope N_scope.

Definition rune := N.

(* ---- string(rune) / string([]rune) ---- *)
Definition utf8_enc (r : rune) : str :=
  if r <? 128 then [r]
  else if r <? 2048 then [192 + r / 64; 128 + r mod 64]
  else if r <? 65536 then [224 + r / 4096; 128 + (r / 64) mod 64; 128 + r mod 64]
  else [240 + r / 262144; 128 + (r / 4096) mod 64; 128 + (r / 64) mod 64; 128 + r mod 64].
Definition utf8_str (rs : list rune) : str := flat_map utf8_enc rs.

(* ---- strings.TrimSpace on a byte string: unicode.IsSpace runes, by their encodings ---- *)
Definition space_seqs : list str :=
  [[9]; [10]; [11]; [12]; [13]; [32]; [194; 133]; [194; 160]; [225; 154; 128];
   [226; 128; 128]; [226; 128; 129]; [226; 128; 130]; [226; 128; 131]; [226; 128; 132];
   [226; 128; 133]; [226; 128; 134]; [226; 128; 135]; [226; 128; 136]; [226; 128; 137];
   [226; 128; 138]; [226; 128; 168]; [226; 128; 169]; [226; 128; 175]; [226; 129; 159];
   [227; 128; 128]].

Definition space_prefix (s : str) : option nat :=
  match find (fun q => has_prefix s q) space_seqs with
  | Some q => Some (length q)
  | None => None
  end.

Fixpoint trim_left (fuel : nat) (s : str) : str :=
  match fuel with
  | O => s
  | S f => match space_prefix s with
           | Some n => trim_left f (skipn n s)
           | None => s
           end
  end.

(* trimming on the right = trimming the reversed string by the reversed sequences *)
Definition space_prefix_rev (s : str) : option nat :=
  match find (fun q => has_prefix s (rev q)) space_seqs with
  | Some q => Some (length q)
  | None => None
  end.
Fixpoint trim_left_rev (fuel : nat) (s : str) : str :=
  match fuel with
  | O => s
  | S f => match space_prefix_rev s with
           | Some n => trim_left_rev f (skipn n s)
           | None => s
           end
  end.

Definition trim_space (s : str) : str :=
  let l := trim_left (length s) s in
  rev (trim_left_rev (length l) (rev l)).

(* ---- strconv.Unquote for double- and single-quoted literals, on runes ---- *)
Definition unhex (c : rune) : option N :=
  if (48 <=? c) && (c <=? 57) then Some (c - 48)
  else if (97 <=? c) && (c <=? 102) then Some (c - 87)
  else if (65 <=? c) && (c <=? 70) then Some (c - 55)
  else None.

Fixpoint hexn (n : nat) (s : list rune) (acc : N) : option (N * list rune) :=
  match n with
  | O => Some (acc, s)
  | S n' => match s with
            | [] => None
            | c :: t => match unhex c with
                        | Some x => hexn n' t (acc * 16 + x)
                        | None => None
                        end
            end
  end.

Definition valid_rune (v : N) : bool :=
  (v <? 55296) || ((57343 <? v) && (v <=? 1114111)).

(* strconv.UnquoteChar: (value, multibyte, tail) *)
Definition unquote_char (s : list rune) (quote : rune) : option (N * bool * list rune) :=
  match s with
  | [] => None
  | c :: t =>
      if c =? quote then None
      else if 128 <=? c then Some (c, true, t)
      else if negb (c =? 92) then Some (c, false, t)
      else match t with
           | [] => None
           | e :: s2 =>
               if e =? 97 then Some (7, false, s2)
               else if e =? 98 then Some (8, false, s2)
               else if e =? 102 then Some (12, false, s2)
               else if e =? 110 then Some (10, false, s2)
               else if e =? 114 then Some (13, false, s2)
               else if e =? 116 then Some (9, false, s2)
               else if e =? 118 then Some (11, false, s2)
               else if e =? 120 then
                 match hexn 2 s2 0 with Some (v, r) => Some (v, false, r) | None => None end
               else if e =? 117 then
                 match hexn 4 s2 0 with
                 | Some (v, r) => if valid_rune v then Some (v, true, r) else None
                 | None => None end
               else if e =? 85 then
                 match hexn 8 s2 0 with
                 | Some (v, r) => if valid_rune v then Some (v, true, r) else None
                 | None => None end
               else if (48 <=? e) && (e <=? 55) then
                 match s2 with
                 | x1 :: x2 :: r =>
                     if (48 <=? x1) && (x1 <=? 55) && (48 <=? x2) && (x2 <=? 55) then
                       let v := ((e - 48) * 8 + (x1 - 48)) * 8 + (x2 - 48) in
                       if 255 <? v then None else Some (v, false, r)
                     else None
                 | _ => None
                 end
               else if e =? 92 then Some (92, false, s2)
               else if (e =? 39) || (e =? 34) then
                 if e =? quote then Some (e, false, s2) else None
               else None
           end
  end.

(* the loop of strconv.unquote after the opening quote; result: buffer and the rest,
   which must start with the closing quote *)
Fixpoint uq_loop (fuel : nat) (quote : rune) (s : list rune) (buf : str) : option (str * list rune) :=
  match fuel with
  | O => None
  | S f =>
      match s with
      | [] => Some (buf, s)
      | c :: _ =>
          if c =? quote then Some (buf, s) else
          match unquote_char s quote with
          | None => None
          | Some (r, mb, rem) =>
              if c =? 10 then None else
              let buf' := buf ++ (if (r <? 128) || negb mb then [r] else utf8_enc r) in
              if quote =? 39 then Some (buf', rem) else uq_loop f quote rem buf'
          end
      end
  end.

Fixpoint rune_index (s : list rune) (c : rune) : option nat :=
  match s with
  | [] => None
  | x :: t => if x =? c then Some O
              else match rune_index t c with Some i => Some (S i) | None => None end
  end.

Definition unquote (s : list rune) : option str :=
  match s with
  | q :: rest =>
      if (q =? 34) || (q =? 39) then
        match rune_index rest q with
        | None => None
        | Some e =>
            let inner := firstn e rest in
            let plain := negb (existsb (fun c => (c =? 92) || (c =? 10)) inner) in
            let valid := if q =? 34 then true else Nat.leb (length inner) 1 in
            if plain && valid then
              match skipn (S e) rest with
              | [] => Some (utf8_str inner)
              | _ => None
              end
            else
              match uq_loop (S (length rest)) q rest [] with
              | Some (buf, [c]) => if c =? q then Some buf else None
              | _ => None
              end
        end
      else None
  | [] => None
  end.

(* ---- lex ---- *)
Inductive item := IText | IEqual | ISemicolon | IComma | IError.
Inductive lstate := LStart | LText | LQText | LQTextEnd | LQTextEsc.

Definition is_comma (r : rune) := r =? 44.
Definition is_semicolon (r : rune) := r =? 59.
Definition is_equal (r : rune) := r =? 61.
Definition is_escape (r : rune) := r =? 92.
Definition is_quote (r : rune) := (r =? 34) || (r =? 39).

Definition msg_unbalanced : str := bs "unbalanced quotes"%string.
Definition msg_unterminated : str := bs "unterminated escape sequence"%string.
Definition msg_invalid_escape : str := bs "invalid escape sequence"%string.

(* for i, r := range s { switch state {...} } ; then the switch after the loop.
   [s] is the whole slice, [rest] = s[i:]. *)
Fixpoint lex_loop (s : list rune) (st : lstate) (quote : rune) (i : nat) (rest : list rune)
  : item * str * nat :=
  match rest with
  | [] =>
      match st with
      | LQText => (IError, msg_unbalanced, length s)
      | LQTextEsc => (IError, msg_unterminated, length s)
      | LQTextEnd => match unquote s with
                     | Some v => (IText, v, length s)
                     | None => (IError, msg_invalid_escape, length s)
                     end
      | _ => (IText, utf8_str s, length s)
      end
  | r :: rest' =>
      match st with
      | LStart =>
          if is_comma r then (IComma, utf8_enc r, 1%nat)
          else if is_semicolon r then (ISemicolon, utf8_enc r, 1%nat)
          else if is_equal r then (IEqual, utf8_enc r, 1%nat)
          else if is_quote r then lex_loop s LQText r (S i) rest'
          else lex_loop s LText quote (S i) rest'
      | LText =>
          if is_comma r || is_semicolon r || is_equal r then (IText, utf8_str (firstn i s), i)
          else lex_loop s LText quote (S i) rest'
      | LQText =>
          if r =? quote then lex_loop s LQTextEnd quote (S i) rest'
          else if is_escape r then lex_loop s LQTextEsc quote (S i) rest'
          else lex_loop s LQText quote (S i) rest'
      | LQTextEsc => lex_loop s LQText quote (S i) rest'
      | LQTextEnd =>
          match unquote (firstn i s) with
          | Some v => (IText, v, i)
          | None => (IError, msg_invalid_escape, i)
          end
      end
  end.

Definition lex (s : list rune) : item * str * nat := lex_loop s LStart 0 0%nat s.

(* ---- parseKVSlice ---- *)
Inductive pstate := PFirstKey | PAfterFirstKey | PKey | PEqual | PVal.

Record pst := {
  p_maps : list smap;
  p_m : smap;
  p_key : str;          (* keyOrFirstVal *)
  p_v : str;
  p_state : pstate
}.

Inductive kvresult :=
| KOk (maps : list smap)        (* nil,nil is KOk [] *)
| KErr (msg : str)              (* errors.New(val) *)
| KPanic
| KFuel.

Definition is_empty (s : str) : bool := match s with [] => true | _ => false end.

(* newMap() *)
Definition new_map (p : pst) : pst :=
  match p_m p with
  | [] => p
  | m => {| p_maps := p_maps p ++ [m]; p_m := []; p_key := p_key p; p_v := p_v p; p_state := p_state p |}
  end.

Definition with_state (p : pst) (st : pstate) : pst :=
  {| p_maps := p_maps p; p_m := p_m p; p_key := p_key p; p_v := p_v p; p_state := st |}.
Definition with_key (p : pst) (k : str) (st : pstate) : pst :=
  {| p_maps := p_maps p; p_m := p_m p; p_key := k; p_v := p_v p; p_state := st |}.
(* if keyOrFirstVal is not empty, m[empty] = keyOrFirstVal *)
Definition store_first (p : pst) : pst :=
  if is_empty (p_key p) then p
  else {| p_maps := p_maps p; p_m := map_set (p_m p) [] (p_key p); p_key := p_key p; p_v := p_v p;
          p_state := p_state p |}.
(* m[keyOrFirstVal] = v; v = empty *)
Definition store_val (p : pst) : pst :=
  {| p_maps := p_maps p; p_m := map_set (p_m p) (p_key p) (p_v p); p_key := p_key p; p_v := [];
     p_state := p_state p |}.

(* one iteration of the switch: inl = continue with the new state, inr = return nil, errors.New(val) *)
Definition pstep (p : pst) (typ : item) (val : str) : pst + str :=
  match p_state p with
  | PFirstKey =>
      match typ with
      | IText => inl (with_key p (trim_space val) PAfterFirstKey)
      | IComma | ISemicolon => inl p
      | _ => inr val
      end
  | PAfterFirstKey =>
      match typ with
      | IEqual => inl (with_state p PVal)
      | IComma => inl (with_state (new_map (store_first p)) PFirstKey)
      | ISemicolon => inl (with_state (store_first p) PKey)
      | _ => inr val
      end
  | PKey =>
      match typ with
      | IText => inl (with_key p (trim_space val) PEqual)
      | IComma | ISemicolon => inl p
      | _ => inr val
      end
  | PEqual =>
      match typ with
      | IEqual => inl (with_state p PVal)
      | _ => inr val
      end
  | PVal =>
      match typ with
      | IText | IEqual =>
          inl {| p_maps := p_maps p; p_m := p_m p; p_key := p_key p; p_v := p_v p ++ val;
                 p_state := PVal |}
      | IComma => inl (with_state (new_map (store_val p)) PFirstKey)
      | ISemicolon => inl (with_state (store_val p) PKey)
      | _ => inr val
      end
  end.

(* after the loop *)
Definition pfinish (p : pst) : kvresult :=
  let p1 := match p_state p with
            | PVal => store_val p
            | PAfterFirstKey => store_first p
            | _ => p
            end in
  KOk (match p_m p1 with [] => p_maps p1 | m => p_maps p1 ++ [m] end).

Fixpoint parse_loop (fuel : nat) (s : list rune) (p : pst) : kvresult :=
  match s with
  | [] => pfinish p
  | _ :: _ =>
      match fuel with
      | O => KFuel
      | S f =>
          let '(typ, val, n) := lex s in
          if Nat.ltb (length s) n then KPanic else          (* s = s[n:] *)
          match pstep p typ val with
          | inl p' => parse_loop f (skipn n s) p'
          | inr msg => KErr msg
          end
      end
  end.

Definition pst0 : pst := {| p_maps := []; p_m := []; p_key := []; p_v := []; p_state := PFirstKey |}.

Definition parse_kvslice (s : list rune) : kvresult := parse_loop (length s) s pst0.

(* ---- config/load.go:299-311, the ui.addr block of load(), up to the call of parseListen:
     if uiListenerValue != "" {
         kvs, err := parseKVSlice(uiListenerValue)
         if err != nil { return nil, err }                                   Err 1
         if len(kvs) != 1 { return nil, "ui.addr must contain only one listener" }   Err 2
         cfg.UI.Listen, err = parseListen(kvs[0], ...)                       kvs[0]: checked index
     }
   Ok None = the value is empty, nothing to do; Ok (Some m) = parseListen is called with m
   (what parseListen does is outside the model). *)
Definition ui_addr_step (v : list rune) : outcome (option smap) :=
  match v with
  | [] => Ok None
  | _ =>
      match parse_kvslice v with
      | KErr _ => Err 1
      | KPanic | KFuel => Panic
      | KOk kvs =>
          if negb (Nat.eqb (length kvs) 1) then Err 2
          else match nth_error kvs 0 with
               | Some m => Ok (Some m)
               | None => Panic
               end
      end
  end.
