(** C08, the ROUTING STAGE in front of addHeaders.

    HTTPProxy.ServeHTTP does not hand the request it got from net/http straight to addHeaders:
    in between run p.Lookup (main.go: Table.Lookup of the current routing table, with its
    redirect branch: a redirect to the request's own URL is skipped and the next matching host
    is tried), Target.AccessDeniedHTTP (allow= / deny= rules, checked against the peer and
    against every element of the client's X-Forwarded-For lines) and Target.Authorized.  The
    stage reads r.RemoteAddr, r.Host, r.TLS, r.URL.Path and the client's X-Forwarded-For,
    X-Forwarded-Proto and Authorization headers.

    C08 sees two things of that stage:
      - its DECISION: no route (404), access denied (403), not authorized (401), a redirect
        (3xx), or a route target to proxy to.  Which of them is routing's business (other
        properties); here it is data ([decision], observed on the real table by the harness);
      - the REQUEST it leaves behind for addHeaders.  In the code as it is the stage writes
        r.URL.Host only, which is no part of [request]: Host, the header map, the peer and the
        TLS state reach addHeaders as the client sent them.  That is what [serve_routed] says:
        for a proxy decision the upstream receives [serve] of THE CLIENT'S request with the
        target the table picked, for every other decision the upstream is not contacted.
    No proofs in this file. *)
From Coq Require Import String List NArith ZArith Bool.
From Fabio Require Import Lib.Outcome Lib.Bytes Model.Headers Model.HeaderLines.
Import ListNotations.
Local Open Scope N_scope.

Inductive decision :=
| DNoRoute                 (* Lookup returned nil: NoRouteStatus page *)
| DDenied                  (* AccessDeniedHTTP: 403 *)
| DUnauthorized            (* Authorized failed: 401 *)
| DRedirect                (* redirect route (not skipped): 3xx with Location *)
| DProxy (t : target).     (* the target Lookup returned, admitted and authorized *)

(* error kind of "answered by fabio itself, nothing forwarded" *)
Definition E_NOT_FORWARDED : N := 1.

Definition routed {A : Type} (d : decision) (k : target -> outcome A) : outcome A :=
  match d with DProxy t => k t | _ => Err E_NOT_FORWARDED end.

(* header map at the upstream + Strict-Transport-Security set on the response, for the request
   [r] AS THE CLIENT SENT IT and the routing stage's decision *)
Definition serve_routed (cfg : config) (d : decision) (uuid : str) (r : request)
  : outcome (hmap * option str) :=
  routed d (fun t => serve cfg t uuid r).

Definition upstream_host_routed (cfg : config) (d : decision) (uuid : str) (r : request) : outcome str :=
  routed d (fun t => upstream_host cfg t uuid r).

(* the same from the client's header LINES to the upstream's end of the wire *)
Definition serve_routed_lines (cfg : config) (d : decision) (uuid : str) (r : request) (ls : list hline)
  : outcome (hmap * option str) :=
  routed d (fun t => serve_lines cfg t uuid r ls).

Definition upstream_host_routed_wire (cfg : config) (d : decision) (uuid : str) (r : request) (ls : list hline)
  : outcome str :=
  routed d (fun t => upstream_host_wire cfg t uuid (req_of_lines r ls)).

(* when "nothing was forwarded" is a legitimate outcome: fabio answered itself, or the peer
   address could not be read off RemoteAddr (500) *)
Definition not_forwarded_ok (d : decision) (r : request) : bool :=
  match d with
  | DProxy _ => match r_peer r with None => true | Some _ => false end
  | _ => true
  end.

Definition is_proxy (d : decision) : bool := match d with DProxy _ => true | _ => false end.

(* ---- vocabulary for the witness theorems: the two request shapes of round 8 ---- *)
(* a client whose X-Forwarded-For names only the address it connects from *)
Definition xff_only_peer (hdr : hmap) (peer : str) : bool :=
  match hfind hdr K_XFF with
  | Some (v :: vs) => forallb (fun x => beq x peer) (v :: vs)
  | _ => false
  end.
