(** Model of transport/transport.go (package state [cfg], [SetConfig], [NewTransport]),
    of the per-route transport built in route/route.go:78-82, of the error→status map
    of proxy/http_handler.go:40-66 and of the response-header time limit as an abstract
    race between the upstream's delay and the configured limit.  Durations are integers
    (nanoseconds in the harness); 0 means "no limit", as in net/http. *)
From Coq Require Import String List ZArith Bool.
From Fabio Require Import Lib.Outcome Lib.Bytes.
Import ListNotations.
Local Open Scope Z_scope.

(* the five upstream limits of config.Proxy the transport is built from *)
Record limits := {
  l_rht : Z;        (* ResponseHeaderTimeout *)
  l_idle : Z;       (* IdleConnTimeout *)
  l_maxconn : Z;    (* MaxConn -> MaxIdleConnsPerHost *)
  l_dial : Z;       (* DialTimeout *)
  l_keepalive : Z   (* KeepAliveTimeout *)
}.
Definition zero_limits : limits := {| l_rht := 0; l_idle := 0; l_maxconn := 0; l_dial := 0; l_keepalive := 0 |}.

(* tls.Config as far as the callers set it: ServerName, InsecureSkipVerify *)
Record tlscfg := { tls_server_name : str; tls_skip_verify : bool }.

Record transport := {
  t_rht : Z; t_idle : Z; t_maxidle : Z; t_dial : Z; t_keepalive : Z;
  t_tls : option tlscfg;
  (* number of OTHER connection-limit fields of http.Transport that are set (MaxIdleConns,
     MaxConnsPerHost, TLSHandshakeTimeout, ExpectContinueTimeout, DisableKeepAlives, ...):
     NewTransport sets none, so no limit applies that the operator did not configure *)
  t_other : Z
}.

(* package state: var cfg *config.Config = &config.Config{} *)
Definition state := limits.
Definition init_state : state := zero_limits.

(* SetConfig after the repair (fix: commit in /repo): the package variable is assigned *)
Definition set_config (s : state) (c : limits) : state := c.
(* SetConfig as it was (cfg = cfg on the shadowing parameter): a no-op on the state *)
Definition set_config_shadowed (s : state) (c : limits) : state := s.

Definition new_transport (s : state) (tls : option tlscfg) : transport :=
  {| t_rht := l_rht s; t_idle := l_idle s; t_maxidle := l_maxconn s;
     t_dial := l_dial s; t_keepalive := l_keepalive s; t_tls := tls; t_other := 0 |}.

Inductive op := SetConfig (c : limits) | NewTransport (tls : option tlscfg).

(* run a history; the outputs are the transports built, in order *)
Fixpoint run (set : state -> limits -> state) (s : state) (ops : list op) : list transport :=
  match ops with
  | [] => []
  | SetConfig c :: r => run set (set s c) r
  | NewTransport tls :: r => new_transport s tls :: run set s r
  end.

(* route/route.go:78-82: a target gets its own transport only for a host override
   other than "dst" on an https destination *)
Definition route_transport (s : state) (host : str) (dst_https proto_https skip : bool) : option transport :=
  if negb (beq host []) && negb (beq host (bs "dst"%string)) && (dst_https || proto_https)
  then Some (new_transport s (Some {| tls_server_name := host; tls_skip_verify := skip |}))
  else None.

(* proxy/http_handler.go: httpProxyErrorHandler *)
Inductive errkind :=
| ENetTimeout    (* implements net.Error, Timeout() = true *)
| ENetOther      (* implements net.Error, Timeout() = false *)
| EEOF           (* == io.EOF *)
| ECanceled      (* == context.Canceled *)
| EOther.
Definition error_status (e : errkind) : Z :=
  match e with
  | ENetTimeout => 504 | ENetOther => 502 | EEOF => 502 | ECanceled => 499 | EOther => 500
  end.

(* connecting to the upstream takes [connect] and the dialer gives up after [limit] (0 = never);
   a dial timeout is a net.Error with Timeout() = true, so the client is answered 504.
   The same dialer serves every transport NewTransport builds, with or without TLS settings. *)
Definition dial (limit connect upstream_status : Z) : Z :=
  if (0 <? limit) && (limit <=? connect) then error_status ENetTimeout else upstream_status.

(* the upstream answers its header after [delay]; http.Transport gives up after
   [limit] (0 = never).  Result: (status, time at which the client is answered). *)
Definition serve (limit delay upstream_status : Z) : Z * Z :=
  if (0 <? limit) && (limit <=? delay) then (error_status ENetTimeout, limit)
  else (upstream_status, delay).

(* What a layer that hands the request to the transport up to [attempts] times would give
   (each attempt runs against the same upstream and is given up after [limit]).  The proxy
   has no such layer: newHTTPProxy passes the transport itself to httputil.ReverseProxy, so
   the request reaches the upstream once ([attempts_of_proxy]); the generalisation is what
   the limit theorem is refuted for when a retry is put in between.
   Result: (status, time at which the client is answered, requests the upstream received). *)
Definition attempts_of_proxy : Z := 1.
Definition serve_n (attempts limit delay upstream_status : Z) : Z * Z * Z :=
  if (0 <? limit) && (limit <=? delay)
  then (error_status ENetTimeout, Z.max 1 attempts * limit, Z.max 1 attempts)
  else (upstream_status, delay, 1).
