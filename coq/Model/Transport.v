(** Model of transport/transport.go (package state [cfg], [SetConfig], [NewTransport]),
    of the per-route transport built in route/route.go:78-82, of the transport choice of
    proxy/http_proxy.go:217-222, of the order in which main() sets the configuration and
    builds transports (main.go:73, 141-156, 230-233), of the error→status map of
    proxy/http_handler.go:40-66 and of the dial / response-header time limits as an abstract
    race between the upstream's delay and the configured limit.  Durations are integers
    (nanoseconds in the harness); 0 means "no limit", as in net/http. *)
From Coq Require Import String List ZArith Bool.
From Fabio Require Import Lib.Outcome Lib.Bytes.
Import ListNotations.
Local Open Scope Z_scope.

(* the five upstream limits of config.Proxy the transport is built from; every value of the Go
   types is allowed (config.Load does not reject negative durations or a negative proxy.maxconn) *)
Record limits := {
  l_rht : Z;        (* ResponseHeaderTimeout *)
  l_idle : Z;       (* IdleConnTimeout *)
  l_maxconn : Z;    (* MaxConn -> MaxIdleConnsPerHost *)
  l_dial : Z;       (* DialTimeout *)
  l_keepalive : Z   (* KeepAliveTimeout *)
}.
Definition zero_limits : limits := {| l_rht := 0; l_idle := 0; l_maxconn := 0; l_dial := 0; l_keepalive := 0 |}.

(* tls.Config as far as the callers set it: ServerName, InsecureSkipVerify *)
Record tlscfg := { tls_server_name : str; tls_skip_verify : bool }.

Record transport := {
  t_rht : Z; t_idle : Z; t_maxidle : Z;
  (* Timeout / KeepAlive of the net.Dialer the transport connects with (Transport.DialContext if set,
     else Transport.Dial); both 0 when the transport has no dialer of its own *)
  t_dial : Z; t_keepalive : Z;
  t_tls : option tlscfg;
  (* how many of the OTHER fields of http.Transport that limit upstream connections or take the
     connect away from the configured dialer are set: MaxConnsPerHost, MaxIdleConns, DialTLS,
     DialTLSContext, DisableKeepAlives.  NewTransport sets none: no limit applies that the
     operator did not configure and no connect escapes the configured dialer *)
  t_other : Z;
  (* how many further exported fields of http.Transport are not at their zero value
     (DisableCompression apart, which NewTransport sets and which is C07's subject).  Not part of
     the property: compared for correspondence only, so that a field the model does not know is
     looked at by a human *)
  t_unknown : Z
}.

(* package state: var cfg *config.Config = &config.Config{} *)
Definition state := limits.
Definition init_state : state := zero_limits.

(* SetConfig after the repair (fix: commit in /repo): the package variable is assigned *)
Definition set_config (s : state) (c : limits) : state := c.
(* SetConfig as it was (cfg = cfg on the shadowing parameter): a no-op on the state *)
Definition set_config_shadowed (s : state) (c : limits) : state := s.
(* SetConfig stores the caller's POINTER: when the caller later writes to the struct it passed,
   the package reads the new values (main() does not do that; see checks/C19.json assumptions) *)
Definition caller_writes (s : state) (c : limits) : state := c.

Definition new_transport (s : state) (tls : option tlscfg) : transport :=
  {| t_rht := l_rht s; t_idle := l_idle s; t_maxidle := l_maxconn s;
     t_dial := l_dial s; t_keepalive := l_keepalive s; t_tls := tls; t_other := 0; t_unknown := 0 |}.

Inductive op := SetConfig (c : limits) | NewTransport (tls : option tlscfg).

(* run a history; the outputs are the transports built, in order *)
Fixpoint run (set : state -> limits -> state) (s : state) (ops : list op) : list transport :=
  match ops with
  | [] => []
  | SetConfig c :: r => run set (set s c) r
  | NewTransport tls :: r => new_transport s tls :: run set s r
  end.

(* route/route.go:78-82: a target gets its own transport only for a host override
   other than "dst" on an https destination *)
Definition wants_transport (host : str) (dst_https proto_https : bool) : bool :=
  negb (beq host []) && negb (beq host (bs "dst"%string)) && (dst_https || proto_https).
Definition route_transport (s : state) (host : str) (dst_https proto_https skip : bool) : option transport :=
  if wants_transport host dst_https proto_https
  then Some (new_transport s (Some {| tls_server_name := host; tls_skip_verify := skip |}))
  else None.
(* opts["proto"] == "https": the option value is compared as written (proto=HTTPS is not https) *)
Definition proto_is_https (proto : str) : bool := beq proto (bs "https"%string).

(* ---- which transport serves a target, and when main() builds them ---- *)

(* a target as far as the transports are concerned: opts host / proto / tlsskipverify and whether
   the destination URL has scheme https *)
Record target := { tg_host : str; tg_dst_https : bool; tg_proto : str; tg_skip : bool }.
Definition target_tls (tg : target) : tlscfg := {| tls_server_name := tg_host tg; tls_skip_verify := tg_skip tg |}.
Definition target_transport (s : state) (tg : target) : option transport :=
  route_transport s (tg_host tg) (tg_dst_https tg) (proto_is_https (tg_proto tg)) (tg_skip tg).

(* proxy/http_proxy.go:217-222: the target's own transport if it has one, else the skip-verify
   transport for tlsskipverify=true, else the default transport *)
Definition select_transport (per_route : option transport) (skip : bool) (dflt insecure : transport) : transport :=
  match per_route with
  | Some t => t
  | None => if skip then insecure else dflt
  end.

(* main.go:233: &tls.Config{InsecureSkipVerify: true} *)
Definition insecure_tls : tlscfg := {| tls_server_name := []; tls_skip_verify := true |}.

(* what the HTTP proxy holds once main() is serving: the targets of the routing table with their
   private transports, the default and the skip-verify transport *)
Record proxy := { px_targets : list (target * option transport); px_default : transport; px_insecure : transport }.

(* route.NewTable -> Route.addTarget for every target, from the package state at that moment *)
Definition build_table (s : state) (tgs : list target) : list (target * option transport) :=
  map (fun tg => (tg, target_transport s tg)) tgs.

(* main(): transport.SetConfig(cfg) (main.go:73); initBackend / watchBackend build the first routing
   table and main waits for it (main.go:141-153); startServers -> newHTTPProxy then builds the
   default and the skip-verify transport (main.go:156, 232-233) *)
Definition main_start (set : state -> limits -> state) (s0 : state) (cfg : limits) (tgs : list target) : proxy :=
  let s := set s0 cfg in
  let tbl := build_table s tgs in
  {| px_targets := tbl; px_default := new_transport s None; px_insecure := new_transport s (Some insecure_tls) |}.
(* the same with SetConfig moved to the top of startServers, i.e. after the first table is built *)
Definition main_start_late (set : state -> limits -> state) (s0 : state) (cfg : limits) (tgs : list target) : proxy :=
  let tbl := build_table s0 tgs in
  let s := set s0 cfg in
  {| px_targets := tbl; px_default := new_transport s None; px_insecure := new_transport s (Some insecure_tls) |}.
(* a later routing table (watchBackend, every change of the registry): same package state *)
Definition reload (s : state) (px : proxy) (tgs : list target) : proxy :=
  {| px_targets := build_table s tgs; px_default := px_default px; px_insecure := px_insecure px |}.

(* the same start-up as a history of package operations, in the order main() performs them *)
Definition target_ops (tg : target) : list op :=
  if wants_transport (tg_host tg) (tg_dst_https tg) (proto_is_https (tg_proto tg))
  then [NewTransport (Some (target_tls tg))] else [].
Definition table_ops (tgs : list target) : list op := flat_map target_ops tgs.
Definition servers_ops : list op := [NewTransport None; NewTransport (Some insecure_tls)].
Definition main_ops (cfg : limits) (tgs : list target) : list op := SetConfig cfg :: table_ops tgs ++ servers_ops.
Definition main_ops_late (cfg : limits) (tgs : list target) : list op := table_ops tgs ++ SetConfig cfg :: servers_ops.
(* every transport the proxy holds, in the order they were built *)
Definition proxy_transports (px : proxy) : list transport :=
  flat_map (fun p => match snd p with Some t => [t] | None => [] end) (px_targets px) ++ [px_default px; px_insecure px].

(* the transport a request for the i-th target of the table is handed to *)
Definition chosen (px : proxy) (i : nat) : option transport :=
  match nth_error (px_targets px) i with
  | Some (tg, pr) => Some (select_transport pr (tg_skip tg) (px_default px) (px_insecure px))
  | None => None
  end.

(* proxy/http_handler.go: httpProxyErrorHandler *)
Inductive errkind :=
| ENetTimeout    (* implements net.Error, Timeout() = true *)
| ENetOther      (* implements net.Error, Timeout() = false *)
| EEOF           (* == io.EOF *)
| ECanceled      (* == context.Canceled *)
| EWrapsTimeout  (* does not implement net.Error itself but wraps (errors.As) one whose Timeout() = true:
                    the handler uses a type assertion, not errors.As, so this is "any other error".
                    http.Transport hands the response-header, dial and TLS-handshake timeouts out bare *)
| EOther.
Definition error_status (e : errkind) : Z :=
  match e with
  | ENetTimeout => 504 | ENetOther => 502 | EEOF => 502 | ECanceled => 499 | EWrapsTimeout => 500 | EOther => 500
  end.

(* connecting to the upstream takes [connect] >= 0 and the dialer gives up after [limit] (0 = never).
   net.Dialer turns every non-zero Timeout into a deadline now+Timeout (net/dial.go: "including
   negative, for historical reasons"), so a negative limit is a deadline in the past: the connect
   fails at once.  A dial timeout is a net.Error with Timeout() = true, so the client is answered 504.
   The same dialer serves every transport NewTransport builds, with or without TLS settings. *)
Definition dial_expires (limit connect : Z) : bool := (limit <? 0) || ((0 <? limit) && (limit <=? connect)).
Definition dial (limit connect upstream_status : Z) : Z :=
  if dial_expires limit connect then error_status ENetTimeout else upstream_status.

(* the upstream answers its header after [delay]; http.Transport gives up after [limit]; it starts
   the timer only for a limit > 0 (net/http/transport.go: `if d := pc.t.ResponseHeaderTimeout; d > 0`),
   so 0 and negative values mean never.  Result: (status, time at which the client is answered). *)
Definition rht_expires (limit delay : Z) : bool := (0 <? limit) && (limit <=? delay).
Definition serve (limit delay upstream_status : Z) : Z * Z :=
  if rht_expires limit delay then (error_status ENetTimeout, limit)
  else (upstream_status, delay).

(* What a layer that hands the request to the transport up to [attempts] times would give
   (each attempt runs against the same upstream and is given up after [limit]).  The proxy
   has no such layer: newHTTPProxy passes the transport itself to httputil.ReverseProxy, so
   the request reaches the upstream once ([attempts_of_proxy]); the generalisation is what
   the limit theorem is refuted for when a retry is put in between.
   Result: (status, time at which the client is answered, requests the upstream received). *)
Definition attempts_of_proxy : Z := 1.
Definition serve_n (attempts limit delay upstream_status : Z) : Z * Z * Z :=
  if rht_expires limit delay
  then (error_status ENetTimeout, Z.max 1 attempts * limit, Z.max 1 attempts)
  else (upstream_status, delay, 1).

(* ---- the whole exchange: request upload, response header, response body ----
   net/http starts the response-header timer when the request has been written
   (net/http/transport.go, persistConn.roundTrip: `case err := <-writeErrCh: ... if d :=
   pc.t.ResponseHeaderTimeout; d > 0 { timer := time.NewTimer(d) ...`) and stops looking at it once
   the header is there: neither the time the client needs to upload its request body nor the time
   the upstream needs to deliver its response body is limited by it.  proxy/http_proxy.go hands
   the client's request (with the client's own context, no deadline of the proxy's) to
   httputil.ReverseProxy, which copies the body until the upstream ends it.

   An upstream exchange: the client's request body takes [x_upload] to arrive at the upstream;
   the upstream answers its header [x_delay] after it has the request and then delivers its body
   in chunks, each [gap] after the previous event.  Times are measured from the moment the client
   starts its request. *)
Record exchange := { x_upload : Z; x_delay : Z; x_status : Z; x_chunks : list (Z * str) }.
(* what the client gets: status, when, the body bytes it received, whether the body ended the way
   the upstream ended it (false = cut off: connection aborted / unexpected EOF), when the exchange
   was over, whether the upstream received the whole request, how often the upstream was asked *)
Record answer := { a_status : Z; a_head_at : Z; a_body : str; a_complete : bool; a_done_at : Z;
                   a_request_whole : bool; a_hits : Z }.

(* A limit [whole] on the exchange as a whole (a deadline on the request's context) would apply to
   every phase.  The proxy sets none ([whole_deadline_of_proxy]); the generalisation is what the
   served-normally theorem is refuted for when such a deadline is put around the exchange. *)
Definition past (whole : option Z) (t : Z) : bool := match whole with Some d => d <=? t | None => false end.
Definition whole_deadline_of_proxy : option Z := None.

(* the body from time [now] on: (bytes received, ended properly, time of the end) *)
Fixpoint deliver (whole : option Z) (now : Z) (chunks : list (Z * str)) : str * bool * Z :=
  match chunks with
  | [] => ([], true, now)
  | (gap, b) :: r =>
      if past whole (now + gap) then ([], false, match whole with Some d => d | None => now end)
      else let '(bs, ok, e) := deliver whole (now + gap) r in (b ++ bs, ok, e)
  end.

Definition exchange_with (whole : option Z) (limit : Z) (x : exchange) : answer :=
  let sent := x_upload x in
  let head := sent + x_delay x in
  let gave_up (t : Z) (req : bool) :=
    {| a_status := error_status ENetTimeout; a_head_at := t; a_body := []; a_complete := true; a_done_at := t;
       a_request_whole := req; a_hits := attempts_of_proxy |} in
  match whole with
  | Some d =>
      if d <=? sent then gave_up d false
      else if rht_expires limit (x_delay x) && (sent + limit <=? d) then gave_up (sent + limit) true
      else if d <=? head then gave_up d true
      else let '(b, ok, e) := deliver whole head (x_chunks x) in
           {| a_status := x_status x; a_head_at := head; a_body := b; a_complete := ok; a_done_at := e;
              a_request_whole := true; a_hits := attempts_of_proxy |}
  | None =>
      if rht_expires limit (x_delay x) then gave_up (sent + limit) true
      else let '(b, ok, e) := deliver None head (x_chunks x) in
           {| a_status := x_status x; a_head_at := head; a_body := b; a_complete := ok; a_done_at := e;
              a_request_whole := true; a_hits := attempts_of_proxy |}
  end.
Definition exchange_of_proxy (limit : Z) (x : exchange) : answer := exchange_with whole_deadline_of_proxy limit x.

(* ---- the dial timeout in time: an upstream that cannot be reached ----
   [dial] above says which status the client gets; what follows also says WHEN.  An upstream either
   completes the connect after some time or never does (its SYNs are dropped: dead host, firewall,
   full accept queue) - the connect is then neither accepted nor refused and only the dialer's own
   Timeout ends it.  transport.NewTransport puts the METHOD VALUE (&net.Dialer{...}).Dial into the
   transport: net/http calls it once per connection it needs, and the request that waits for that
   connection fails with the dialer's error (a net.Error with Timeout() = true -> 504).  There is no
   layer between net/http and the dialer that connects a second time ([dial_attempts_of_proxy]); the
   generalisation to [attempts] is what the theorems are refuted for when one is put in between.
   Result: Some (status, time at which the client is answered); None = the dialer never gives up
   (no limit configured and the upstream unreachable: the operating system's own SYN retry limit,
   minutes, is outside the model). *)
Inductive reach := Connects (after : Z) | Unreachable.
Definition dial_attempts_of_proxy : Z := 1.
Definition dial_at (attempts limit : Z) (c : reach) (upstream_status : Z) : option (Z * Z) :=
  let gives_up := Some (error_status ENetTimeout, if limit <? 0 then 0 else Z.max 1 attempts * limit) in
  match c with
  | Connects t => if dial_expires limit t then gives_up else Some (upstream_status, t)
  | Unreachable => if limit =? 0 then None else gives_up
  end.
