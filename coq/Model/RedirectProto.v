(** C13, round 6: the scheme of the self-redirect test, on the request's header fields AS SENT.

    MODEL PART (what the code does today):
    - route/table.go:459-466 [Table.Lookup], the derivation of "the scheme the client used":
        proto := req.Header.Get("X-Forwarded-Proto")
        if proto == "" { proto = "http"; if req.TLS != nil { proto = "https" } }
      -> [lookup_proto] on the list of header fields ([header_get] of Model/Redirect.v is
      http.Header.Get: the first field of that name in any spelling, "" if there is none).
      Lookup does NOT read the RFC 7239 Forwarded header (proxy/http_headers.go does, for the
      headers it sends to the upstream; that derivation is no part of the redirect decision).
    - [handle_full] of Model/Redirect.v is the whole answer for a request with header fields.

    SPECIFICATION PART (independent of [header_get] and of the host loop of the model):
    - what a request says about the scheme the client used, as a classification of the header
      fields: [said_x] (X-Forwarded-Proto absent / a value), [said_f] (Forwarded absent / with a
      proto parameter / without one), and the connection (TLS or not);
    - the request's own scheme as a decision table over these three, [own_scheme_said];
    - the reference host loop parametrised by that scheme, [ref_lookup_own] / [ref_answer_own].
    No proofs in this file. *)
From Coq Require Import String List NArith ZArith Bool.
From Fabio Require Import Lib.Outcome Lib.Bytes Model.Redirect.
Import ListNotations.
Local Open Scope N_scope.

Definition s_http : str := [104;116;116;112].
Definition s_https : str := [104;116;116;112;115].
Definition h_forwarded : str := [70;111;114;119;97;114;100;101;100].          (* Forwarded *)

(* ------------------------------------------------------------------ *)
(** * model: route/table.go:459-466 *)
Definition lookup_proto (hs : headers) (tls : bool) : str :=
  let proto := header_get hs h_xfp in
  if is_nil proto then (if tls then s_https else s_http) else proto.

(* ------------------------------------------------------------------ *)
(** * specification: what the request says *)
Inductive xfp_said := XNone | XSays (s : str).
Inductive fwd_said := FNone | FNoProto | FProto (s : str).

(* the fields of one name, in the order in which they were sent (names are case-insensitive) *)
Definition same_name (a b : str) : bool := beq (lower a) (lower b).
Definition fields_named (hs : headers) (name : str) : list str :=
  map snd (filter (fun kv => same_name (fst kv) name) hs).

(* X-Forwarded-Proto: the first field of that name; an empty value says nothing *)
Definition said_x (hs : headers) : xfp_said :=
  match fields_named hs h_xfp with
  | [] => XNone
  | v :: _ => if is_nil v then XNone else XSays v
  end.

(* Forwarded (RFC 7239): elements separated by ',', parameters by ';', blanks around them;
   parameter names are case-insensitive.  The first proto parameter of the first field. *)
Fixpoint trim_left (s : str) : str :=
  match s with c :: r => if (c =? 32) || (c =? 9) then trim_left r else s | [] => [] end.
Definition k_proto : str := [112;114;111;116;111;61].                         (* proto= *)
Definition is_value_end (c : N) : bool := (c =? 32) || (c =? 9) || (c =? 59) || (c =? 44).
Fixpoint take_value (s : str) : str :=
  match s with c :: r => if is_value_end c then [] else c :: take_value r | [] => [] end.
Definition param_proto (p : str) : option str :=
  let p := trim_left p in
  if has_prefix (lower p) k_proto then Some (take_value (skipn (length k_proto) p)) else None.
Fixpoint first_some {A} (l : list (option A)) : option A :=
  match l with [] => None | Some a :: _ => Some a | None :: r => first_some r end.
Definition forwarded_proto (v : str) : option str :=
  first_some (map param_proto (flat_map (fun e => split_byte e 59) (split_byte v 44))).
Definition said_f (hs : headers) : fwd_said :=
  match fields_named hs h_forwarded with
  | [] => FNone
  | v :: _ => match forwarded_proto v with Some s => FProto s | None => FNoProto end
  end.

(* THE REQUEST'S OWN SCHEME, as a decision table: the scheme a proxy in front of fabio reports
   in X-Forwarded-Proto; without it the scheme of the connection.  A Forwarded header - with or
   without a proto parameter - never takes that away (and, today, does not stand in for a
   missing X-Forwarded-Proto either: assumption in checks/C13.json). *)
Definition own_scheme_said (x : xfp_said) (f : fwd_said) (tls : bool) : str :=
  match x, f with
  | XSays s, FNone | XSays s, FNoProto | XSays s, FProto _ => s
  | XNone, FNone | XNone, FNoProto | XNone, FProto _ => if tls then s_https else s_http
  end.

(* the reference host loop for a given own scheme, host and path: first host whose route is
   not a redirect to exactly that URL *)
Definition back_to (own host path : str) (u : url) : bool :=
  beq (u_scheme u) own && beq (u_host u) host && beq (u_path u) path.
Fixpoint ref_lookup_own (own : str) (q : request) (cands : list (option target)) : option target :=
  match cands with
  | [] => None
  | None :: r => ref_lookup_own own q r
  | Some t :: r =>
      if (t_code t =? 0)%Z then Some t
      else if back_to own (q_host q) (q_path q) (build_redirect_url t q) then ref_lookup_own own q r
      else Some t
  end.
Definition ref_answer_own (own : str) (q : request) (cands : list (option target)) : response :=
  match ref_lookup_own own q cands with
  | None => RNoRoute
  | Some t => if (t_code t =? 0)%Z then RProxy (t_id t)
              else RRedirect (t_code t) (hex_escape_non_ascii (url_string (build_redirect_url t q)))
  end.

(* the request the specification judges: the same request line and host, the scheme
   information replaced by what the classification says *)
Definition said_request (hs : headers) (host path rawpath query : str) (tls : bool) : request :=
  mkReq host path rawpath query (match said_x hs with XSays s => s | XNone => [] end) tls.

(* ------------------------------------------------------------------ *)
(** * the grid of combinations (used by the non-vacuity theorems and mirrored by the harness
      class serve-self-forwarded): X-Forwarded-Proto absent / http / https  x  Forwarded absent /
      without proto / with proto=http / with proto=https  x  plain / TLS *)
Definition grid_x (i : nat) : headers :=
  match i with
  | O => []
  | S O => [([88;45;70;111;114;119;97;114;100;101;100;45;80;114;111;116;111], s_http)]
  | _ => [([120;45;102;111;114;119;97;114;100;101;100;45;112;114;111;116;111], s_https)]   (* lower-case spelling *)
  end.
Definition v_for : str := [102;111;114;61;50;48;51;46;48;46;49;49;51;46;55].              (* for=203.0.113.7 *)
Definition grid_f (j : nat) : headers :=
  match j with
  | O => []
  | S O => [(h_forwarded, v_for)]
  | S (S O) => [(h_forwarded, v_for ++ [59] ++ k_proto ++ s_http)]
  | _ => [(h_forwarded, v_for ++ [59] ++ k_proto ++ s_https)]
  end.
Definition grid : list (nat * nat * bool) :=
  flat_map (fun i => flat_map (fun j => [(i, j, false); (i, j, true)]) [0;1;2;3]%nat) [0;1;2]%nat.
