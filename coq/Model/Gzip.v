(** Model of proxy/gzip/gzip_handler.go (NewGzipHandler, GzipResponseWriter.WriteHeader /
    Write / Close, isCompressable, acceptsGzip) running an arbitrary inner handler, given as
    the sequence of calls it makes on its http.ResponseWriter, on top of an
    underlying writer that follows net/http's server (server.go): header snapshot at the first
    final WriteHeader/Write, implicit 200, 1xx codes sent at once without finalising, and the
    server's Content-Type sniffing rule applied when the response is finished: no Content-Type key,
    no Transfer-Encoding, NO non-empty Content-Encoding, non-empty body -> DetectContentType of
    the body's start.  The harness's underlying writer implements the same rule and is compared
    with the real server on every end-to-end script.

    External library behaviour is abstract:
      [sniff]  http.DetectContentType            (Section variable, supplied per case by the harness)
      [ctm]    contentTypes.MatchString          (Section variable, computed with the real regexp)
      gzip     the compressor does not occur in the model at all: the model records the bytes
               FED to the gzip writer ([o_fed]); the wire body is [body_of gz res] for any
               whole-stream compressor [gz] (gzip.Writer: output after Close = gz of the
               concatenation of all Writes since Reset).
    No proofs in this file. *)
From Coq Require Import String List NArith Bool.
From Fabio Require Import Lib.Bytes.
Import ListNotations.
Local Open Scope N_scope.

(* ---------- http.Header with canonical keys: an association list, one entry per key ---------- *)
Definition hdr := list (str * list str).

Fixpoint hvals (h : hdr) (k : str) : option (list str) :=     (* h[k] *)
  match h with
  | [] => None
  | (k', vs) :: r => if beq k' k then Some vs else hvals r k
  end.

Definition hget (h : hdr) (k : str) : str :=                  (* h.Get(k) *)
  match hvals h k with Some (v :: _) => v | _ => [] end.

Fixpoint hdel (h : hdr) (k : str) : hdr :=                    (* h.Del(k) *)
  match h with
  | [] => []
  | (k', vs) :: r => if beq k' k then hdel r k else (k', vs) :: hdel r k
  end.

Definition hput (h : hdr) (k : str) (vs : list str) : hdr := hdel h k ++ [(k, vs)].
Definition hset (h : hdr) (k v : str) : hdr := hput h k [v].  (* h.Set(k, v) *)
Definition hadd (h : hdr) (k v : str) : hdr :=                (* h.Add(k, v) *)
  hput h k (match hvals h k with Some vs => vs ++ [v] | None => [v] end).

Definition H_VARY : str := bs "Vary".
Definition H_AE   : str := bs "Accept-Encoding".
Definition H_CE   : str := bs "Content-Encoding".
Definition H_CT   : str := bs "Content-Type".
Definition H_CL   : str := bs "Content-Length".
Definition H_TE   : str := bs "Transfer-Encoding".
Definition GZIP   : str := bs "gzip".
Definition EVENT_STREAM : str := bs "text/event-stream".

(* ---------- what the inner handler does with its ResponseWriter ---------- *)
Inductive op :=
| SetHeader (k v : str)       (* w.Header().Set(k, v), k canonical *)
| AddHeader (k v : str)       (* w.Header().Add(k, v) *)
| DelHeader (k : str)         (* w.Header().Del(k) *)
| ClearHeaders                (* clear(w.Header()): httputil.ReverseProxy after forwarding a 1xx *)
| WriteHeader (c : N)         (* w.WriteHeader(c); the modelled domain is [valid_code c] *)
| Write (b : str).            (* w.Write(b) *)

Definition hdr_op (o : op) (h : hdr) : hdr :=
  match o with
  | SetHeader k v => hset h k v
  | AddHeader k v => hadd h k v
  | DelHeader k => hdel h k
  | ClearHeaders => []
  | _ => h
  end.

(* the bytes the inner handler produced *)
Definition written (ops : list op) : str :=
  flat_map (fun o => match o with Write b => b | _ => [] end) ops.

(* an informational status code: not the final response.  net/http's server sends it at once
   with the current header map and stays ready for the final WriteHeader (server.go, "code >= 100
   && code <= 199 && code != StatusSwitchingProtocols"); 101 is outside the modelled domain *)
Definition is_1xx (c : N) : bool := (100 <=? c) && (c <=? 199).

(* the modelled domain of status codes: net/http panics outside 100..999, and 101 (Switching
   Protocols) is final for the server although the handler passes it on like a 1xx *)
Definition valid_code (c : N) : bool := (100 <=? c) && (c <=? 999) && negb (c =? 101).
Definition valid_codes (ops : list op) : bool :=
  forallb (fun o => match o with WriteHeader c => valid_code c | _ => true end) ops.

(* strings.Cut(s, string(c)): before and after the first c (after = "" when there is none) *)
Fixpoint cut_byte (s : str) (c : N) : str * str :=
  match s with
  | [] => ([], [])
  | x :: r => if x =? c then ([], r) else let (a, b) := cut_byte r c in (x :: a, b)
  end.

(* strings.TrimSpace on ASCII: \t \n \v \f \r and space (multi-byte Unicode spaces are outside the domain) *)
Definition is_space (c : N) : bool := (c =? 32) || ((9 <=? c) && (c <=? 13)).
Fixpoint trim_space_left (s : str) : str :=
  match s with c :: r => if is_space c then trim_space_left r else s | [] => [] end.
Definition trim_space (s : str) : str := rev (trim_space_left (rev (trim_space_left s))).

(* strings.Trim(q, "0.") == "" *)
Definition zero_dot (q : str) : bool := forallb (fun c => (c =? 48) || (c =? 46)) q.

Definition is_gzip_name (n : str) : bool := beq n GZIP || beq n (bs "x-gzip").

(* the weight test shared by both versions of the loop: CutPrefix(p, "q="); Trim(q, "0.") == "" && q != "" *)
Definition zero_weight (p : str) : bool :=
  match p with
  | c :: d :: q => (c =? 113) && (d =? 61) && zero_dot q && negb (beq q [])
  | _ => false
  end.

(* one element of Accept-Encoding in acceptsGzip's loop (commits 7cff601 + bfb8a14): true = "return true"
   here.  strings.ToLower is modelled on ASCII ([lower]). *)
Definition gzip_elem_ok (e : str) : bool :=
  let (name, params) := cut_byte e 59 in
  is_gzip_name (lower (trim_space name)) && negb (zero_weight (lower (trim_space params))).

(* acceptsGzip (gzip_handler.go:115-142): r.Header.Get = first value or "" *)
Definition accepts_gzip (accept ae : list str) : bool :=
  if contains (hd [] accept) EVENT_STREAM then false
  else existsb gzip_elem_ok (split_byte (hd [] ae) 44).

(* before commit 7cff601: strings.Contains(Accept-Encoding, "gzip"), weights ignored *)
Definition accepts_gzip_unrepaired (accept ae : list str) : bool :=
  if contains (hd [] accept) EVENT_STREAM then false
  else contains (hd [] ae) GZIP.

(* between commits 7cff601 and bfb8a14: element-wise, but the name matched by substring and the
   weight's "q=" case-sensitively *)
Definition gzip_elem_ok_7cff601 (e : str) : bool :=
  let (name, params) := cut_byte e 59 in
  contains name GZIP && negb (zero_weight (trim_space params)).
Definition accepts_gzip_7cff601 (accept ae : list str) : bool :=
  if contains (hd [] accept) EVENT_STREAM then false
  else existsb gzip_elem_ok_7cff601 (split_byte (hd [] ae) 44).

Section Handler.
Variable sniff : str -> str.     (* http.DetectContentType *)
Variable ctm : str -> bool.      (* contentTypes.MatchString *)

(* ---------- the underlying http.ResponseWriter (net/http's server) ----------
   a 1xx WriteHeader before the final one is sent at once with the current header map and does
   not finalise the response; the final WriteHeader / first Write snapshots the header map;
   Content-Type sniffing happens when the response is finished ([finish_hdr]). *)
Record rcd := mkR {
  r_hdr : hdr;                (* HeaderMap (live) *)
  r_wrote : bool;             (* the final header has been written *)
  r_code : N;                 (* Code *)
  r_snap : hdr;               (* snapHeader *)
  r_body : str;               (* Body *)
  r_info : list (N * hdr)     (* informational responses sent so far: code, headers *)
}.

Definition rec_new (h0 : hdr) : rcd := mkR h0 false 200 [] [] [].

Definition rec_upd (f : hdr -> hdr) (r : rcd) : rcd :=
  mkR (f (r_hdr r)) (r_wrote r) (r_code r) (r_snap r) (r_body r) (r_info r).

(* WriteHeader *)
Definition rec_write_header (c : N) (r : rcd) : rcd :=
  if r_wrote r then r
  else if is_1xx c then mkR (r_hdr r) false (r_code r) (r_snap r) (r_body r) (r_info r ++ [(c, r_hdr r)])
  else mkR (r_hdr r) true c (r_hdr r) (r_body r) (r_info r).

(* Write: implicit WriteHeader(200), then the bytes *)
Definition rec_write (b : str) (r : rcd) : rcd :=
  let r1 := if r_wrote r then r else mkR (r_hdr r) true 200 (r_hdr r) (r_body r) (r_info r) in
  mkR (r_hdr r1) (r_wrote r1) (r_code r1) (r_snap r1) (r_body r1 ++ b) (r_info r1).

(* server.go, chunkWriter.writeHeader: "if !hasCE && !haveType && !hasTE && len(p) > 0" sniff.
   [body] is everything written; DetectContentType looks at its first 512 bytes only, which is
   what the server has in hand at its first flush. *)
Definition finish_hdr (h : hdr) (body : str) : hdr :=
  match hvals h H_CT with
  | Some _ => h
  | None => if beq (hget h H_TE) [] && beq (hget h H_CE) [] && negb (beq body [])
            then hset h H_CT (sniff body) else h
  end.

Definition rec_step (o : op) (r : rcd) : rcd :=
  match o with
  | WriteHeader c => rec_write_header c r
  | Write b => rec_write b r
  | _ => rec_upd (hdr_op o) r
  end.

(* ---------- GzipResponseWriter ---------- *)
Record grw := mkG {
  g_sel : option bool;   (* grw.writer: None = nil, Some true = the gzip writer, Some false = the ResponseWriter *)
  g_fed : str;           (* bytes written to grw.gzipWriter since Reset *)
  g_panic : bool;        (* a nil grw.writer was used (Go: nil-interface method call panics) *)
  g_rec : rcd            (* the embedded http.ResponseWriter *)
}.

(* isCompressable *)
Definition is_compressable (h : hdr) : bool :=
  if beq (hget h H_CE) [] then ctm (hget h H_CT) else false.

(* the decision and the final header (WriteHeader below the 1xx guard) *)
Definition grw_decide_write_header (c : N) (g : grw) : grw :=
  let g1 :=
    match g_sel g with
    | None =>
        if is_compressable (r_hdr (g_rec g))
        then mkG (Some true) []                      (* pool Get + Reset *)
                 (g_panic g)
                 (rec_upd (fun h => hset (hdel h H_CL) H_CE GZIP) (g_rec g))
        else mkG (Some false) (g_fed g) (g_panic g) (g_rec g)
    | Some _ => g
    end in
  mkG (g_sel g1) (g_fed g1) (g_panic g1) (rec_write_header c (g_rec g1)).

(* GzipResponseWriter.WriteHeader: an informational code is passed through and decides nothing *)
Definition grw_write_header (c : N) (g : grw) : grw :=
  if is_1xx c then mkG (g_sel g) (g_fed g) (g_panic g) (rec_write_header c (g_rec g))
  else grw_decide_write_header c g.

(* GzipResponseWriter.Write, parametrised by the WriteHeader it calls *)
Definition grw_write_with (wh : N -> grw -> grw) (b : str) (g : grw) : grw :=
  let g1 :=
    match g_sel g with
    | None =>
        let r' := match hvals (r_hdr (g_rec g)) H_CT with
                  | None => rec_upd (fun h => hset h H_CT (sniff b)) (g_rec g)
                  | Some _ => g_rec g
                  end in
        wh 200 (mkG (g_sel g) (g_fed g) (g_panic g) r')
    | Some _ => g
    end in
  match g_sel g1 with
  | Some true => mkG (g_sel g1) (g_fed g1 ++ b) (g_panic g1) (g_rec g1)
  | Some false => mkG (g_sel g1) (g_fed g1) (g_panic g1) (rec_write b (g_rec g1))
  | None => mkG (g_sel g1) (g_fed g1) true (g_rec g1)
  end.

Definition grw_write : str -> grw -> grw := grw_write_with grw_write_header.

Definition grw_step (o : op) (g : grw) : grw :=
  match o with
  | WriteHeader c => grw_write_header c g
  | Write b => grw_write b g
  | _ => mkG (g_sel g) (g_fed g) (g_panic g) (rec_upd (hdr_op o) (g_rec g))
  end.

(* the code before commit a52f2fd: every WriteHeader, informational or not, decided *)
Definition grw_step_unrepaired (o : op) (g : grw) : grw :=
  match o with
  | WriteHeader c => grw_decide_write_header c g
  | Write b => grw_write_with grw_decide_write_header b g
  | _ => mkG (g_sel g) (g_fed g) (g_panic g) (rec_upd (hdr_op o) (g_rec g))
  end.

Definition grw_run (ops : list op) (g : grw) : grw := fold_left (fun g o => grw_step o g) ops g.
Definition rec_run (ops : list op) (r : rcd) : rcd := fold_left (fun r o => rec_step o r) ops r.

(* ---------- what the client sees ---------- *)
Record result := mkRes {
  o_code : N;              (* final status *)
  o_hdr : hdr;             (* final headers: the snapshot (the live map when nothing was written) after the server's sniffing *)
  o_plain : str;           (* bytes written to the underlying writer directly *)
  o_fed : option str;      (* Some f: a gzip writer was used, fed f, closed (flushes everything) *)
  o_panic : bool;
  o_info : list (N * hdr)  (* the informational responses, in order *)
}.

Definition rec_result (r : rcd) (fed : option str) (p : bool) : result :=
  mkRes (r_code r) (finish_hdr (if r_wrote r then r_snap r else r_hdr r) (r_body r)) (r_body r) fed p (r_info r).

(* Close: gzipWriter != nil  <->  the decision was "compress" *)
Definition grw_result (g : grw) : result :=
  rec_result (g_rec g) (match g_sel g with Some true => Some (g_fed g) | _ => None end) (g_panic g).

(* NewGzipHandler; [h0] = headers already on the ResponseWriter; [acc] = acceptsGzip(r) *)
Definition handler_core (acc : bool) (h0 : hdr) (ops : list op) : result :=
  let r0 := rec_new (hadd h0 H_VARY H_AE) in
  if acc
  then grw_result (grw_run ops (mkG None [] false r0))
  else rec_result (rec_run ops r0) None false.

Definition handler (h0 : hdr) (accept ae : list str) (ops : list op) : result :=
  handler_core (accepts_gzip accept ae) h0 ops.

(* the code before commit 7cff601 (Accept-Encoding weights ignored) *)
Definition handler_q0_unrepaired (h0 : hdr) (accept ae : list str) (ops : list op) : result :=
  handler_core (accepts_gzip_unrepaired accept ae) h0 ops.

(* the code between commits 7cff601 and bfb8a14 *)
Definition handler_q0_7cff601 (h0 : hdr) (accept ae : list str) (ops : list op) : result :=
  handler_core (accepts_gzip_7cff601 accept ae) h0 ops.

(* the code before commit a52f2fd (an informational WriteHeader decided) *)
Definition handler_unrepaired (h0 : hdr) (accept ae : list str) (ops : list op) : result :=
  let r0 := rec_new (hadd h0 H_VARY H_AE) in
  if accepts_gzip accept ae
  then grw_result (fold_left (fun g o => grw_step_unrepaired o g) ops (mkG None [] false r0))
  else rec_result (rec_run ops r0) None false.

(* the reference: the same inner handler writing to the underlying writer directly = "what the upstream produced" *)
Definition bare (h0 : hdr) (ops : list op) : result :=
  rec_result (rec_run ops (rec_new h0)) None false.

(* the inner handler may end by panicking (http.ErrAbortHandler, e.g. httputil.ReverseProxy when the
   backend dies mid-body): the deferred Close still runs -- the response so far is the one of a normal
   return -- and the panic propagates to the server, which aborts the connection *)
Record served := mkS { s_res : result; s_propagated : bool }.
Definition serve (h0 : hdr) (accept ae : list str) (ops : list op) (abort : bool) : served :=
  mkS (handler h0 accept ae ops) abort.

End Handler.

(* the body on the wire, for a whole-stream compressor [gz] *)
Definition body_of (gz : str -> str) (res : result) : str :=
  o_plain res ++ match o_fed res with Some f => gz f | None => [] end.

(* ================= specification side: RFC 9110 12.5.3 Accept-Encoding =================
   Accept-Encoding = #( codings [ weight ] ),  weight = OWS ";" OWS "q=" qvalue  (12.4.2; the
   literal "q" is case-insensitive, RFC 5234).  An element is read as  coding *( ";" parameter );
   a coding is refused when ANY of its parameters is a zero weight -- also when other (extension)
   parameters stand before or after it: "gzip;q=0;x=1" is a refusal. *)

(* qvalue = "0" [ "." *("0") ]   (anything else is taken as non-zero) *)
Definition q_zero (v : str) : bool :=
  match v with
  | [] => false
  | a :: [] => a =? 48
  | a :: b :: ds => (a =? 48) && (b =? 46) && forallb (fun c => c =? 48) ds
  end.

Definition param_q_zero (p : str) : bool :=
  match lower (trim_space p) with
  | c :: d :: v => (c =? 113) && (d =? 61) && q_zero v
  | _ => false
  end.

Definition weight_zero (params : str) : bool := existsb param_q_zero (split_byte params 59).

(* one list element -> (lower-cased coding, its weight is not zero) *)
Definition coding (e : str) : str * bool :=
  let (name, params) := cut_byte e 59 in (lower (trim_space name), negb (weight_zero params)).

(* does the request allow a gzip-coded response?  if gzip / x-gzip is listed: some such entry has
   a non-zero weight; else "*" with a non-zero weight; no field at all is treated as "no" *)
Definition rfc_accepts_gzip (ae : list str) : bool :=
  let cs := map coding (flat_map (fun v => split_byte v 44) ae) in
  if existsb (fun c => is_gzip_name (fst c)) cs
  then existsb (fun c => is_gzip_name (fst c) && snd c) cs
  else existsb (fun c => beq (fst c) [42] && snd c) cs.

(* ================= known-finding regions: predicates on the input only =================
   region 1 (F-C17-5): the first Accept-Encoding line has a gzip / x-gzip element with two or more
   parameters one of which is a zero weight ("gzip;q=0;x=1", "gzip;x=1;q=0"): acceptsGzip only looks
   at "q=" right after the first ";" and requires the rest to be zeros and dots *)
Definition q0_ext_elem (e : str) : bool :=
  let (name, params) := cut_byte e 59 in
  is_gzip_name (lower (trim_space name)) && Nat.leb 2 (length (split_byte params 59)) && weight_zero params.
Definition q0_ext_region (ae : list str) : bool := existsb q0_ext_elem (split_byte (hd [] ae) 44).

(* region 2 (F-C17-3): the request is accepted, the inner handler's first non-informational call is a
   Write, and no Content-Type key exists at that moment: GzipResponseWriter.Write then sets
   DetectContentType(first chunk) -- also when it goes on NOT to compress *)
Fixpoint implicit_no_ct (h : hdr) (ops : list op) : bool :=
  match ops with
  | [] => false
  | Write _ :: _ => match hvals h H_CT with None => true | Some _ => false end
  | WriteHeader c :: r => if is_1xx c then implicit_no_ct h r else false
  | o :: r => implicit_no_ct (hdr_op o h) r
  end.
Definition sniff_region (h0 : hdr) (accept ae : list str) (ops : list op) : bool :=
  accepts_gzip accept ae && implicit_no_ct h0 ops.

(* region 3 (F-C17-4): the upstream's Content-Encoding has an empty first value and a non-empty later
   one (two header lines "Content-Encoding:" and "Content-Encoding: br"): isCompressable reads Get =
   the first value only *)
Definition ce_hidden (vs : list str) : bool :=
  match vs with
  | v :: rest => beq v [] && existsb (fun x => negb (beq x [])) rest
  | [] => false
  end.
Definition ce_values (h : hdr) : list str := match hvals h H_CE with Some vs => vs | None => [] end.
(* "not already encoded": every Content-Encoding value is empty *)
Definition not_encoded (h : hdr) : bool := forallb (fun v => beq v []) (ce_values h).

(* ================= handlers sharing the pool of gzip writers (gzipWriterPool) =================
   A pooled writer is represented by the bytes it still holds from whoever used it last.
   A handler draws one at its decision ([take]: any of the pooled ones, or a new one),
   applies [reset] to it, and returns it at Close.  Threads are interleaved call by call by a
   schedule of (thread, which pooled writer to take). *)
Section Pool.
Variable sniff : str -> str.
Variable ctm : str -> bool.
Variable reset : str -> str.       (* gzip.Writer.Reset on the held bytes: the code's is [fun _ => []] *)

Record hst := mkH {
  h_todo : list op;                (* calls the inner handler has still to make *)
  h_g : grw;
  h_done : option result           (* Some r: the handler returned and Close ran *)
}.

Definition take (n : nat) (p : list str) : str * list str :=
  match p with
  | [] => ([], [])                                         (* pool.New *)
  | _ => let i := Nat.modulo n (length p) in (nth i p [], firstn i p ++ skipn (S i) p)
  end.

Definition thread_step (n : nat) (pool : list str) (t : hst) : list str * hst :=
  match h_done t with
  | Some _ => (pool, t)
  | None =>
      match h_todo t with
      | o :: rest =>
          let g := h_g t in
          let g' := grw_step sniff ctm o g in
          match g_sel g, g_sel g' with
          | None, Some true =>
              let (w, pool') := take n pool in
              (pool', mkH rest (mkG (g_sel g') (reset w ++ g_fed g') (g_panic g') (g_rec g')) None)
          | _, _ => (pool, mkH rest g' None)
          end
      | [] =>
          (match g_sel (h_g t) with Some true => g_fed (h_g t) :: pool | _ => pool end,
           mkH [] (h_g t) (Some (grw_result sniff (h_g t))))
      end
  end.

Fixpoint upd {A} (i : nat) (x : A) (l : list A) : list A :=
  match l, i with
  | [], _ => []
  | _ :: r, O => x :: r
  | y :: r, S j => y :: upd j x r
  end.

Definition sys_step (s : list str * list hst) (c : nat * nat) : list str * list hst :=
  match nth_error (snd s) (fst c) with
  | Some t => let (p', t') := thread_step (snd c) (fst s) t in (p', upd (fst c) t' (snd s))
  | None => s
  end.

Definition sys_run (sched : list (nat * nat)) (s : list str * list hst) : list str * list hst :=
  fold_left sys_step sched s.

(* the response a thread produces / will produce when run alone from where it stands *)
Definition outcome_of (t : hst) : result :=
  match h_done t with
  | Some r => r
  | None => grw_result sniff (grw_run sniff ctm (h_todo t) (h_g t))
  end.
End Pool.
