(** Executable model of Go's [bufio.Reader] (go1.24 bufio/bufio.go: fill, Peek, Read)
    over a scripted source, as far as [SNIProxy.ServeTCP] depends on it
    (sni_proxy.go:45-73: NewReader, Peek(9), io.ReadFull), plus [io.ReadFull]
    (io/io.go ReadAtLeast).  No proofs here.

    The source is a scripted connection: a list of segments; one [Read(p)] returns
    at most one segment (the first non-empty one, cut to [len p]; the rest of the
    segment stays for the next call) and [io.EOF] when no segment is left.  This is
    exactly the harness's scripted [net.Conn]; tested against the real bufio in
    the correspondence run (cases [CBufio]). *)
From Coq Require Import List NArith Bool Arith PeanoNat.
From Fabio Require Import Lib.Outcome Lib.Bytes.
Import ListNotations.

(* one Read(p), len p = m > 0, on the scripted source: (data, remaining source, eof) *)
Fixpoint src_read (m : nat) (src : list str) : str * list str * bool :=
  match src with
  | [] => ([], [], true)
  | [] :: rest => src_read m rest
  | seg :: rest => (firstn m seg, skipn m seg :: rest, false)
  end.

(* error kinds: 0 nil, 1 io.EOF, 2 io.ErrUnexpectedEOF, 3 bufio.ErrBufferFull *)
Record breader := {
  b_cap : nat;            (* len(b.buf): 4096 for bufio.NewReader *)
  b_buf : str;            (* b.buf[b.r:b.w], the buffered unread bytes *)
  b_src : list str;       (* what the underlying connection still holds *)
  b_err : N               (* b.err: 0 = nil, 1 = io.EOF *)
}.

Definition new_reader (cap : nat) (src : list str) : breader :=
  {| b_cap := cap; b_buf := []; b_src := src; b_err := 0 |}.

Definition buffered (b : breader) : nat := length (b_buf b).

(* fill(): slide, then one Read into the free space (the source never returns 0, nil) *)
Definition fill (b : breader) : breader :=
  let '(d, src', eof) := src_read (b_cap b - buffered b) (b_src b) in
  {| b_cap := b_cap b; b_buf := b_buf b ++ d; b_src := src'; b_err := if eof then 1 else 0 |}%N.

(* the loop of Peek: for b.w-b.r < n && b.w-b.r < len(b.buf) && b.err == nil { b.fill() } *)
Fixpoint peek_loop (fuel : nat) (b : breader) (n : nat) : option breader :=
  if (buffered b <? n)%nat && (buffered b <? b_cap b)%nat && (b_err b =? 0)%N then
    match fuel with
    | O => None
    | S f => peek_loop f (fill b) n
    end
  else Some b.

Definition clear_err (b : breader) : breader :=
  {| b_cap := b_cap b; b_buf := b_buf b; b_src := b_src b; b_err := 0 |}.
Definition set_buf (b : breader) (buf : str) : breader :=
  {| b_cap := b_cap b; b_buf := buf; b_src := b_src b; b_err := b_err b |}.

(* Peek(n): (bytes, error kind, reader).  Err 77 = fuel exhausted: an explicit error, never a
   normal-looking value (every fill adds a byte or sets the error, so cap+1 rounds suffice;
   the correspondence check counts an Err 77 as a disagreement). *)
Definition peek (b : breader) (n : nat) : outcome (str * N * breader) :=
  match peek_loop (S (b_cap b)) b n with
  | None => Err 77
  | Some b1 =>
      if (b_cap b1 <? n)%nat then Ok (b_buf b1, 3%N, b1)          (* ErrBufferFull, everything buffered *)
      else if (buffered b1 <? n)%nat then
        (* not enough data: err = b.readErr(); if nil, ErrBufferFull *)
        Ok (b_buf b1, (if (b_err b1 =? 0)%N then 3 else b_err b1)%N, clear_err b1)
      else Ok (firstn n (b_buf b1), 0%N, b1)
  end.

(* Read(p), len p = n *)
Definition bread (b : breader) (n : nat) : str * N * breader :=
  match n with
  | O => if (0 <? buffered b)%nat then ([], 0%N, b) else ([], b_err b, clear_err b)
  | _ =>
    match b_buf b with
    | [] =>
        if negb (b_err b =? 0)%N then ([], b_err b, clear_err b)
        else if (b_cap b <=? n)%nat then
          (* large read, empty buffer: read directly into p *)
          let '(d, src', eof) := src_read n (b_src b) in
          (d, (if eof then 1 else 0)%N,
           {| b_cap := b_cap b; b_buf := []; b_src := src'; b_err := 0 |})
        else
          (* one read into the buffer, then copy *)
          let '(d, src', eof) := src_read (b_cap b) (b_src b) in
          match d with
          | [] => ([], (if eof then 1 else 0)%N,
                   {| b_cap := b_cap b; b_buf := []; b_src := src'; b_err := 0 |})
          | _ => (firstn n d, 0%N,
                  {| b_cap := b_cap b; b_buf := skipn n d; b_src := src'; b_err := if eof then 1 else 0 |}%N)
          end
    | buf => (firstn n buf, 0%N, set_buf b (skipn n buf))
    end
  end.

(* io.ReadFull(b, p), len p = n: for got < n && err == nil { Read(p[got:]) } *)
Fixpoint read_full_loop (fuel : nat) (b : breader) (need : nat) (acc : str) : option (str * N * breader) :=
  match need with
  | O => Some (acc, 0%N, b)
  | _ =>
    match fuel with
    | O => None
    | S f =>
        let '(d, e, b1) := bread b need in
        if (e =? 0)%N then read_full_loop f b1 (need - length d) (acc ++ d)
        else
          let acc' := acc ++ d in
          if (need <=? length d)%nat then Some (acc', 0%N, b1)
          else Some (acc', (if (0 <? length acc')%nat && (e =? 1)%N then 2 else e)%N, b1)
    end
  end.

Definition read_full (b : breader) (n : nat) : outcome (str * N * breader) :=
  match read_full_loop (S n) b n [] with
  | None => Err 77
  | Some r => Ok r
  end.
