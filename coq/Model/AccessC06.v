(** C06 - the access decision of concurrent requests.  The verdict itself is C12's model
    ([Model/Access.v: access_denied_http], a function of the target's rule map, the peer address and the
    X-Forwarded-For field values; net.ParseIP and net.SplitHostPort are parameters).  Here: goroutines
    that each take the decision for their own request, as a machine over a shared state.  The rule map
    of a target is built with the table and never written afterwards, and Target.AccessDeniedHTTP keeps
    nothing between calls: the decision is ONE action that reads the (immutable) rules and writes nothing
    shared.  No proofs in this file. *)
From Coq Require Import List NArith Bool.
From Fabio Require Import Lib.Outcome Lib.Bytes Model.Interleave Model.Access.
Import ListNotations.

Record ac_req := { ac_remote : str; ac_xff : list str }.        (* r.RemoteAddr; r.Header.Values("X-Forwarded-For") *)
Record ac_local := { ac_rq : ac_req; ac_verdict : option bool }.  (* Some true = denied (403) *)
Definition ac_init (q : ac_req) : ac_local := {| ac_rq := q; ac_verdict := None |}.

(* what the request alone is answered with *)
Definition ac_alone (parse_ip : str -> option ipaddr) (split_host : str -> option str) (r : rules) (q : ac_req) : bool :=
  access_denied_http parse_ip split_host r (ac_remote q) (ac_xff q).

(* shared state: the rule map of the target (read only) *)
Definition ac_step (parse_ip : str -> option ipaddr) (split_host : str -> option str) (r : rules) (l : ac_local) : rules * ac_local :=
  match ac_verdict l with
  | Some _ => (r, l)
  | None => (r, {| ac_rq := ac_rq l; ac_verdict := Some (ac_alone parse_ip split_host r (ac_rq l)) |})
  end.
