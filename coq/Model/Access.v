(** Model of route/access_rules.go (ProcessAccessRules, parseAccessRule, denyByIP,
    AccessDeniedHTTP, AccessDeniedTCP), route/auth.go (Target.Authorized) and of the
    gate order of proxy/http_proxy.go ServeHTTP and proxy/tcp/{tcp,sni,tcp_dynamic}_proxy.go
    ServeTCP, transcribed statement by statement, defects included.

    External library behaviour is never assumed: net.ParseIP, net.ParseCIDR and
    net.SplitHostPort are *parameters* of the model (Section variables: the theorems hold
    for every such function); the correspondence run instantiates them with tables the
    harness filled by calling the real functions.  net.IP.To4, net.IPNet.Contains and
    networkNumberAndMask are modelled executably (on big-endian numbers instead of byte
    slices) and compared with the real ones on every probe address.

    No proofs in this file. *)
From Coq Require Import String List NArith Bool.
From Fabio Require Import Lib.Outcome Lib.Bytes.
Import ListNotations.
Local Open Scope N_scope.

(* ================= net.IP / net.IPNet ================= *)

(* a net.IP of length 4 or 16, as the big-endian number of its bytes
   (invariant supplied by the harness: IP4 a -> a < 2^32, IP16 a -> a < 2^128) *)
Inductive ipaddr := IP4 (a : N) | IP16 (a : N).

Definition ip_raw (ip : ipaddr) : N := match ip with IP4 a => a | IP16 a => a end.

(* net.IP.To4: the 4-byte form of a 4-byte address or of ::ffff:a.b.c.d, else nil *)
Definition to4 (ip : ipaddr) : option N :=
  match ip with
  | IP4 a => Some a
  | IP16 a => if N.shiftr a 32 =? 65535 then Some (N.land a (N.ones 32)) else None
  end.

(* a *net.IPNet as net.ParseCIDR returns it: IP (already masked), Mask = CIDRMask(ones, 32|128) *)
Record ipnet := { n_ip : ipaddr; n_ones : N; n_m16 : bool }.

Definition width (v6 : bool) : N := if v6 then 128 else 32.

(* net.networkNumberAndMask: Some (is16, network number, ones of the effective mask);
   None = (nil, nil).  A 16-byte mask on a 4-byte number is m[12:], i.e. ones-96 (0 below 96). *)
Definition network_number_and_mask (n : ipnet) : option (bool * N * N) :=
  match to4 (n_ip n) with
  | Some a => Some (false, a, if n_m16 n then n_ones n - 96 else n_ones n)
  | None => if n_m16 n then Some (true, ip_raw (n_ip n), n_ones n) else None
  end.

(* nn[i]&m[i] == ip[i]&m[i] for all bytes, with m = ones leading 1-bits of w:
   the bits above position w-ones agree *)
Definition same_prefix (w ones a b : N) : bool :=
  N.shiftr a (w - ones) =? N.shiftr b (w - ones).

(* the address a peer is compared as: unmapped to 4 bytes when To4 succeeds *)
Definition canon (ip : ipaddr) : bool * N :=
  match to4 ip with Some a => (false, a) | None => (true, ip_raw ip) end.

(* net.IPNet.Contains *)
Definition contains (n : ipnet) (ip : ipaddr) : bool :=
  match network_number_and_mask n with
  | None => false                          (* l != len(nn) = 0 *)
  | Some (n6, nn, ones) =>
      let '(x6, x) := canon ip in
      Bool.eqb x6 n6 && same_prefix (width n6) ones nn x
  end.

(* ================= the rule map  t.accessRules ================= *)
(* map[string][]interface{} with the two keys "allow:ip" / "deny:ip"; None = the key is
   absent.  A present key normally has a non-empty list (entries are created by append);
   since 1cbe751 denyAll installs the allow key with an EMPTY list. *)
Record rules := { r_allow : option (list ipnet); r_deny : option (list ipnet) }.
Definition no_rules : rules := {| r_allow := None; r_deny := None |}.
(* Target.denyAll (1cbe751): map[string][]interface{}{ipAllowTag: {}} *)
Definition deny_all_rules : rules := {| r_allow := Some []; r_deny := None |}.

Definition is_nil {A} (l : list A) : bool := match l with [] => true | _ => false end.
Definition has_key {A} (o : option A) : bool := match o with Some _ => true | None => false end.

(* len(t.accessRules) == 0 *)
Definition rules_empty (r : rules) : bool := negb (has_key (r_allow r)) && negb (has_key (r_deny r)).

(* t.accessRules[tag] = append(t.accessRules[tag], n) *)
Definition map_append (o : option (list ipnet)) (n : ipnet) : option (list ipnet) :=
  Some (match o with Some l => l ++ [n] | None => [n] end).

(* denyByIP (access_rules.go:105-158); [None] = nil IP *)
Definition deny_by_ip (r : rules) (ip : option ipaddr) : bool :=
  match ip with
  | None => false
  | Some ip =>
      if rules_empty r then false else
      match r_allow r with
      | Some l =>
          (* allow key exists: first containing block returns false, none (or no block) -> true *)
          negb (existsb (fun b => contains b ip) l)
      | None =>
          match r_deny r with
          | Some l => existsb (fun b => contains b ip) l
          | None => false
          end
      end
  end.

(* ================= string helpers (ASCII domain) ================= *)
(* strings.TrimSpace restricted to ASCII input: \t \n \v \f \r and space *)
Definition is_space (c : N) : bool := (c =? 32) || ((9 <=? c) && (c <=? 13)).
Fixpoint trim_left (s : str) : str :=
  match s with
  | c :: s' => if is_space c then trim_left s' else s
  | [] => []
  end.
Definition trim_space (s : str) : str := rev (trim_left (rev (trim_left s))).

(* strings.SplitN(c, ":", 2): None when there is no ':' (len(temps) != 2) *)
Definition split_colon (c : str) : option (str * str) :=
  match index_byte c 58 with
  | Some i => Some (firstn i c, skipn (S i) c)
  | None => None
  end.

Definition has_slash (s : str) : bool :=
  match index_byte s 47 with Some _ => true | None => false end.

Inductive kind := KAllow | KDeny.
Definition kind_str (k : kind) : str :=
  match k with KAllow => bs "allow" | KDeny => bs "deny" end.
Definition ip_allow_tag : str := bs "allow:ip".
Definition ip_deny_tag : str := bs "deny:ip".

(* ================= ProcessAccessRules / parseAccessRule ================= *)
Section Parse.
  Variable parse_ip : str -> option ipaddr.      (* net.ParseIP   (None = nil)   *)
  Variable parse_cidr : str -> option ipnet.     (* net.ParseCIDR (None = error) *)

  (* lines 186-198: the value of an ip item -> block.  ip.String()+"/32" (To4 != nil) or
     "/128" fed back to ParseCIDR yields the host block of the parsed address (the harness
     checks this round trip of the standard library on every such value) *)
  Definition value_net (value : str) : option ipnet :=
    if has_slash value then parse_cidr value else
    match parse_ip value with
    | None => None
    | Some ip =>
        match to4 ip with
        | Some a => Some {| n_ip := IP4 a; n_ones := 32; n_m16 := false |}
        | None => Some {| n_ip := ip; n_ones := 128; n_m16 := true |}
        end
    end.

  (* one loop iteration of parseAccessRule; None = an error return *)
  Definition parse_item (k : kind) (c : str) (r : rules) : option rules :=
    match split_colon c with
    | None => None                                    (* "invalid access item" *)
    | Some (t0, t1) =>
        let tag := kind_str k ++ [58] ++ lower (trim_space t0) in
        if beq tag ip_allow_tag then
          match value_net (trim_space t1) with
          | None => None
          | Some n => Some {| r_allow := map_append (r_allow r) n; r_deny := r_deny r |}
          end
        else if beq tag ip_deny_tag then
          match value_net (trim_space t1) with
          | None => None
          | Some n => Some {| r_allow := r_allow r; r_deny := map_append (r_deny r) n |}
          end
        else None                                     (* "unknown access item type" *)
    end.

  (* the loop: the first error returns, leaving what was appended so far *)
  Fixpoint parse_items (k : kind) (items : list str) (r : rules) : rules * bool :=
    match items with
    | [] => (r, true)
    | c :: rest =>
        match parse_item k c r with
        | None => (r, false)
        | Some r' => parse_items k rest r'
        end
    end.

  Definition parse_access_rule (k : kind) (opt : str) (r : rules) : rules * bool :=
    parse_items k (split_byte opt 44) r.

  (* ProcessAccessRules: (rule map afterwards, true = nil error).  Since 1cbe751 every error
     return is preceded by t.denyAll(): the map becomes {allow:ip: []}.  addTarget logs the
     error and keeps the target with that map (route.go:94-97). *)
  Definition process_access_rules (allow_opt deny_opt : str) : rules * bool :=
    if negb (is_nil allow_opt) && negb (is_nil deny_opt) then (deny_all_rules, false) else
    let '(r1, ok1) := if is_nil allow_opt then (no_rules, true)
                      else parse_access_rule KAllow allow_opt no_rules in
    if negb ok1 then (deny_all_rules, false) else
    if is_nil deny_opt then (r1, true) else
    let '(r2, ok2) := parse_access_rule KDeny deny_opt r1 in
    if negb ok2 then (deny_all_rules, false) else (r2, true).

  Definition target_rules (allow_opt deny_opt : str) : rules :=
    fst (process_access_rules allow_opt deny_opt).

  (* the code before 1cbe751, kept for the three fail-open refutations: an error returned
     leaving the map as it was (empty for allow+deny, partially filled otherwise) *)
  Definition process_access_rules_unrepaired (allow_opt deny_opt : str) : rules * bool :=
    if negb (is_nil allow_opt) && negb (is_nil deny_opt) then (no_rules, false) else
    let '(r1, ok1) := if is_nil allow_opt then (no_rules, true)
                      else parse_access_rule KAllow allow_opt no_rules in
    if negb ok1 then (r1, false) else
    if is_nil deny_opt then (r1, true) else parse_access_rule KDeny deny_opt r1.
  Definition target_rules_unrepaired (allow_opt deny_opt : str) : rules :=
    fst (process_access_rules_unrepaired allow_opt deny_opt).

  (* ---- the intent of a rule text: every parsable item of every given option ---- *)
  Definition item_net (c : str) : option ipnet :=
    match split_colon c with
    | None => None
    | Some (t0, t1) =>
        if beq (lower (trim_space t0)) (bs "ip") then value_net (trim_space t1) else None
    end.
  Definition intended_blocks (opt : str) : list ipnet :=
    flat_map (fun c => match item_net c with Some n => [n] | None => [] end) (split_byte opt 44).
  (* an allow option admits only addresses inside one of its parsable blocks (nobody when
     none parses), a deny option rejects addresses inside any of its parsable blocks;
     when both are given both apply *)
  Definition intended_admits (allow_opt deny_opt : str) (ip : ipaddr) : bool :=
    (is_nil allow_opt || existsb (fun b => contains b ip) (intended_blocks allow_opt))
    && (is_nil deny_opt || negb (existsb (fun b => contains b ip) (intended_blocks deny_opt))).

  (* syntactic well-formedness of a rule text: at most one option, every item parses *)
  Definition items_ok (opt : str) : bool :=
    forallb (fun c => match item_net c with Some _ => true | None => false end) (split_byte opt 44).
  Definition rule_well_formed (allow_opt deny_opt : str) : bool :=
    negb (negb (is_nil allow_opt) && negb (is_nil deny_opt))
    && (is_nil allow_opt || items_ok allow_opt) && (is_nil deny_opt || items_ok deny_opt).

  (* ================= AccessDeniedHTTP ================= *)
  Variable split_host : str -> option str.       (* net.SplitHostPort: host, None = error *)

  (* route.parseIP (since f5e2970): everything from the first '%' on is cut, then net.ParseIP *)
  Definition strip_zone (s : str) : str :=
    match index_byte s 37 with Some i => firstn i s | None => s end.
  Definition parse_ip_zone (s : str) : option ipaddr := parse_ip (strip_zone s).

  (* the loop over strings.Split(xff, ","); [pip] = the parse function the loop body calls *)
  Fixpoint xff_walk (pip : str -> option ipaddr) (r : rules) (host : str) (elems : list str) : bool :=
    match elems with
    | [] => false
    | x :: rest =>
        let xip := trim_space x in
        if beq xip host then xff_walk pip r host rest else
        match pip xip with
        | None => xff_walk pip r host rest
        | Some ip => if deny_by_ip r (Some ip) then true else xff_walk pip r host rest
        end
    end.

  (* [xff] = r.Header.Values("X-Forwarded-For"): all field values in order.  Since 273c6ed the
     walk runs over their comma-join; since f5e2970 host and elements go through parseIP. *)
  Definition access_denied_http (r : rules) (remote : str) (xff : list str) : bool :=
    if rules_empty r then false else
    match split_host remote with
    | None => false
    | Some host =>
        if deny_by_ip r (parse_ip_zone host) then true else
        let v := join xff [44] in
        if is_nil v then false else xff_walk parse_ip_zone r host (split_byte v 44)
    end.

  (* ---- the code before the two repairs, kept for the refutation theorems ---- *)
  (* before f5e2970 (after 273c6ed): net.ParseIP directly, a zone makes it answer nil *)
  Definition access_denied_http_zone_unrepaired (r : rules) (remote : str) (xff : list str) : bool :=
    if rules_empty r then false else
    match split_host remote with
    | None => false
    | Some host =>
        if deny_by_ip r (parse_ip host) then true else
        let v := join xff [44] in
        if is_nil v then false else xff_walk parse_ip r host (split_byte v 44)
    end.

  (* before 273c6ed: r.Header.Get reads the first field value only *)
  Definition access_denied_http_first_value_unrepaired (r : rules) (remote : str) (xff : list str) : bool :=
    if rules_empty r then false else
    match split_host remote with
    | None => false
    | Some host =>
        if deny_by_ip r (parse_ip host) then true else
        match xff with
        | [] => false
        | v :: _ => if is_nil v then false else xff_walk parse_ip r host (split_byte v 44)
        end
    end.
End Parse.

(* ================= AccessDeniedTCP ================= *)
(* c.RemoteAddr(): not a *net.TCPAddr, or a TCPAddr with IP nil / 4 / 16 bytes *)
Inductive tcp_peer := NotTCPAddr | TCPAddr (ip : option ipaddr).

Definition access_denied_tcp (r : rules) (p : tcp_peer) : bool :=
  if rules_empty r then false else
  match p with
  | NotTCPAddr => false
  | TCPAddr ip => deny_by_ip r ip
  end.

(* ================= Target.Authorized ================= *)
Section Auth.
  Variable creds : Type.                          (* whatever the request carries *)
  (* p.AuthSchemes: name -> scheme; a scheme decides on the request *)
  Definition scheme_table := str -> option (creds -> bool).

  Definition authorized (auth_scheme : str) (schemes : scheme_table) (c : creds) : bool :=
    if is_nil auth_scheme then true else
    match schemes auth_scheme with
    | None => false                               (* unknown auth scheme *)
    | Some s => s c
    end.
End Auth.
Arguments authorized {creds} auth_scheme schemes c.

(* ================= gate order of ServeHTTP / ServeTCP ================= *)
Inductive event :=
| ERespond (status : N)      (* status written to the client, nothing forwarded *)
| ERedirect (code : N)       (* http.Redirect with the route's code and Location, nothing forwarded *)
| EUpstream                  (* RoundTrip / net.DialTimeout to the target *)
| EClose.                    (* TCP: connection closed without a dial *)

(* what ServeHTTP reads of the target that Table.Lookup returned.  [t_redirect] = RedirectCode
   (0 = the route forwards; otherwise 300..399 as validated by addTarget).  For a redirect
   route Lookup returns a per-request COPY of the table's target (table.go:452-456,
   `redirect := *target`): same rule map, same auth scheme. *)
Record target := { t_rules : rules; t_auth : str; t_redirect : N }.

Definition table_lookup_copy (t : target) : target :=
  if t_redirect t =? 0 then t
  else {| t_rules := t_rules t; t_auth := t_auth t; t_redirect := t_redirect t |}.

Section Gate.
  Variable parse_ip : str -> option ipaddr.
  Variable split_host : str -> option str.
  Variable creds : Type.

  (* http_proxy.go:99-124, the redirect answer (lines 135-141) + addHeaders' own SplitHostPort;
     [t] = the table's target for the request (None = no route), looked up through Table.Lookup *)
  Definition serve_http (t : option target) (schemes : scheme_table creds)
             (remote : str) (xff : list str) (c : creds) : list event :=
    match t with
    | None => [ERespond 404]
    | Some t0 =>
        let t := table_lookup_copy t0 in
        if access_denied_http parse_ip split_host (t_rules t) remote xff then [ERespond 403] else
        if negb (authorized (t_auth t) schemes c) then [ERespond 401] else
        if negb (t_redirect t =? 0) then [ERedirect (t_redirect t)] else
        match split_host remote with
        | None => [ERespond 500]                      (* addHeaders: cannot parse RemoteAddr *)
        | Some _ => [EUpstream]
        end
    end.

  (* tcp_proxy.go:42-56, tcp_dynamic_proxy.go:41-60, sni_proxy.go:94-106 *)
  Definition serve_tcp (t : option target) (p : tcp_peer) : list event :=
    match t with
    | None => [EClose]
    | Some t => if access_denied_tcp (t_rules t) p then [EClose] else [EUpstream]
    end.
End Gate.

(* proxy/grpc_handler.go: GrpcProxyInterceptor.Stream looks the target up (Table.Lookup on the
   method path) and hands the stream to the director, which dials the target.  Neither
   AccessDeniedHTTP / AccessDeniedTCP nor Authorized is called anywhere on this path: the
   allow / deny / auth options of a proto=grpc route have no effect (F-C12-4, open).
   [ERespond 404] stands for status NotFound ("no route found"). *)
Definition serve_grpc (t : option target) : list event :=
  match t with
  | None => [ERespond 404]
  | Some _ => [EUpstream]
  end.

(* ================= specification side ================= *)
(* a CIDR block as a set of addresses: family, network number, prefix length *)
Record sblock := { s_v6 : bool; s_net : N; s_len : N }.

(* bit-level membership: same family and the first s_len bits (from the top) agree *)
Definition in_sblock (b : sblock) (a : bool * N) : Prop :=
  fst a = s_v6 b /\
  forall i, i < s_len b ->
    N.testbit (snd a) (width (s_v6 b) - 1 - i) = N.testbit (s_net b) (width (s_v6 b) - 1 - i).

(* brute-force boolean version used as the reference in the correspondence check *)
Fixpoint bits_agree (fuel : nat) (top : N) (a b : N) : bool :=
  match fuel with
  | O => true
  | S f => Bool.eqb (N.testbit a top) (N.testbit b top) && bits_agree f (top - 1) a b
  end.
Definition in_sblock_b (b : sblock) (a : bool * N) : bool :=
  Bool.eqb (fst a) (s_v6 b) &&
  bits_agree (N.to_nat (N.min (s_len b) (width (s_v6 b)))) (width (s_v6 b) - 1) (snd a) (s_net b).

(* the set a *net.IPNet denotes *)
Definition sblock_of (n : ipnet) : option sblock :=
  match network_number_and_mask n with
  | Some (v6, nn, ones) => Some {| s_v6 := v6; s_net := nn; s_len := ones |}
  | None => None
  end.

(* reference reading of a route's rule options: None = option not given *)
Record ref_rules := { ref_allow : option (list sblock); ref_deny : option (list sblock) }.
Definition ref_admits (rr : ref_rules) (a : bool * N) : bool :=
  match ref_allow rr with Some bs => existsb (fun b => in_sblock_b b a) bs | None => true end
  && match ref_deny rr with Some bs => negb (existsb (fun b => in_sblock_b b a) bs) | None => true end.
