(** Model of the enumerated options proxy.strategy, proxy.matcher and ui.access between
    config.Load and the code that runs with the configuration (C15, "a configuration that is
    accepted can be run"):
    - config/load.go:139,140,222 register the three options as plain strings (defaults of
      config/default.go: "rnd", "prefix", "rw"); config/load.go:351-361 validate the values
      byte for byte (values are case-sensitive; nothing is normalised: the returned
      configuration carries the string it was given);
    - main.go:219-220 (newHTTPProxy), :250 (lookupHostFn), :263 (lookupHostMatcher),
      proxy/grpc_handler.go:142-143 index the maps route.Picker / route.Matcher with the
      configured strings: a key that is not in the map yields a nil func;
    - route/table.go:426 Lookup tries the matching host keys and then "", :487 LookupHost one
      key with the prefix matcher; :491 lookup walks the routes of a key, CALLS match on each
      (nil func: run-time panic) and on the first match returns nil for no target, the only
      target, or CALLS pick for two or more targets (nil func: run-time panic);
    - admin/server.go:33 registers the manual-override endpoints as forbidden ("ro"), as the
      real handlers ("rw"), or not at all (any other string: the endpoints silently fall
      through to the catch-all redirect).
    No proofs here (Proofs/EnumOptions.v). *)
From Coq Require Import String List NArith Bool.
From Fabio Require Import Lib.Outcome Lib.Bytes Model.FlagSet.
Import ListNotations.
Local Open Scope N_scope.
Local Open Scope outcome_scope.

(* ---------- config.Load ---------- *)
Definition en_strategy_name : str := bs "proxy.strategy".
Definition en_matcher_name : str := bs "proxy.matcher".
Definition en_access_name : str := bs "ui.access".

Definition en_default_strategy : str := bs "rnd".
Definition en_default_matcher : str := bs "prefix".
Definition en_default_access : str := bs "rw".

(* the three fields of the returned *Config *)
Record enum_cfg := { e_strategy : str; e_matcher : str; e_access : str }.

Definition en_or (d : str) (o : option str) : str := match o with Some v => v | None => d end.

(* load.go:351-361 on the raw values the three flags ended with (None: the default stays).
   Err 1 = config.Load returns an error *)
Definition load_enums (s m a : option str) : outcome enum_cfg :=
  let s := en_or en_default_strategy s in
  let m := en_or en_default_matcher m in
  let a := en_or en_default_access a in
  check (beq s (bs "rr") || beq s (bs "rnd")) else 1;
  check (beq m (bs "prefix") || beq m (bs "glob") || beq m (bs "iprefix")) else 1;
  check (beq a (bs "ro") || beq a (bs "rw")) else 1;
  Ok {| e_strategy := s; e_matcher := m; e_access := a |}.

(* the three options as ParseFlags sees them, and Load from the four sources *)
Definition enum_flags : list flagdecl :=
  [ {| fname := en_strategy_name; fbool := false |};
    {| fname := en_matcher_name; fbool := false |};
    {| fname := en_access_name; fbool := false |} ].

(* string options: Value.Set accepts every raw value *)
Definition en_no_bad (_ _ : str) : bool := false.

Definition load_enums_from (args environ : list str) (props : option smap) : outcome enum_cfg :=
  do rs <- parse_flags enum_flags en_no_bad args environ fabio_prefixes props;
  match rs with
  | [r1; r2; r3] => load_enums (final_raw r1) (final_raw r2) (final_raw r3)
  | _ => Err 99
  end.

(* ---------- the consumers ---------- *)
Inductive en_picker := PickRnd | PickRR.
Inductive en_matcher := MatchPrefix | MatchGlob | MatchIPrefix.

(* route.Picker[s], route.Matcher[m]: None = the nil func a missing key yields *)
Definition picker_of (s : str) : option en_picker :=
  if beq s (bs "rnd") then Some PickRnd else if beq s (bs "rr") then Some PickRR else None.
Definition matcher_of (m : str) : option en_matcher :=
  if beq m (bs "prefix") then Some MatchPrefix
  else if beq m (bs "glob") then Some MatchGlob
  else if beq m (bs "iprefix") then Some MatchIPrefix
  else None.

(* a route as a lookup of one request path sees it: what each of the three matchers says
   about (path, route) and the number of targets *)
Record en_route := { rt_prefix : bool; rt_glob : bool; rt_iprefix : bool; rt_targets : N }.

(* match(path, r) *)
Definition en_call_match (m : option en_matcher) (r : en_route) : outcome bool :=
  match m with
  | None => Panic                                     (* call of a nil func *)
  | Some MatchPrefix => Ok (rt_prefix r)
  | Some MatchGlob => Ok (rt_glob r)
  | Some MatchIPrefix => Ok (rt_iprefix r)
  end.

(* what a lookup returns: no target, or a target of route number [i] of its key -- the only
   one, or the one the picker chose *)
Inductive en_found := FoundOnly (i : nat) | FoundPicked (i : nat) (k : en_picker).

(* route/table.go:491 lookup over the routes of one host key *)
Fixpoint en_lookup (p : option en_picker) (m : option en_matcher) (routes : list en_route) (i : nat)
  : outcome (option en_found) :=
  match routes with
  | [] => Ok None
  | r :: rest =>
      do b <- en_call_match m r;
      if b then
        (if rt_targets r =? 0 then Ok None
         else if rt_targets r =? 1 then Ok (Some (FoundOnly i))
         else match p with
              | None => Panic                         (* call of a nil func *)
              | Some k => Ok (Some (FoundPicked i k))
              end)
      else en_lookup p m rest (S i)
  end.

(* route/table.go:426 Lookup: the host keys in order, the first target wins
   (no redirect targets here); result = (number of the key, what was found) *)
Fixpoint en_lookup_keys (p : option en_picker) (m : option en_matcher) (keys : list (list en_route))
         (h : nat) : outcome (option (nat * en_found)) :=
  match keys with
  | [] => Ok None
  | routes :: rest =>
      do f <- en_lookup p m routes 0;
      match f with
      | Some x => Ok (Some (h, x))
      | None => en_lookup_keys p m rest (S h)
      end
  end.

(* the four consumers: 0 HTTPProxy.Lookup of newHTTPProxy, 1 lookupHostFn, 2 lookupHostMatcher
   (both LookupHost: the prefix matcher, whatever proxy.matcher says), 3 the gRPC interceptor *)
Definition en_site_lookup (c : enum_cfg) (site : N) (keys : list (list en_route))
  : outcome (option (nat * en_found)) :=
  let p := picker_of (e_strategy c) in
  if (site =? 1) || (site =? 2) then en_lookup_keys p (Some MatchPrefix) keys 0
  else en_lookup_keys p (matcher_of (e_matcher c)) keys 0.

(* admin/server.go:33: what becomes of the manual-override endpoints *)
Inductive en_admin := AdminForbidden | AdminManual.
Definition admin_mode_of (a : str) : option en_admin :=
  if beq a (bs "ro") then Some AdminForbidden
  else if beq a (bs "rw") then Some AdminManual
  else None.                                         (* endpoints not registered at all *)

(* Load, then (if a configuration was returned) one lookup at a consumer *)
Definition load_then_lookup (s m a : option str) (site : N) (keys : list (list en_route))
  : outcome (option (nat * en_found)) :=
  do c <- load_enums s m a;
  en_site_lookup c site keys.
