(** Tables produced by route command SEQUENCES (add / del / weight), for C03: composes C05's
    model of NewTable's command loop (Model/TableCmd.v: addRoute, delRoute with its sweeps,
    weighRoute) with the lookup model of Model/Lookup.v.  The projection keeps, per route,
    its path and its NUMBER OF TARGETS, and [lookup_cmd] is Table.Lookup including the
    "route without targets" branch of Table.lookup (table.go: [if n == 0 { return nil }]):
    such a route ends the search in its host.  Proofs.LookupCmd shows that no table reachable
    by commands has such a route, so there [lookup_cmd] = [lookup].  No proofs in this file. *)
From Coq Require Import List NArith Bool.
From Fabio Require Import Lib.Outcome Lib.Bytes Model.WtF64 Model.Glob Model.Lookup.
From Fabio Require Model.TableCmd.
Import ListNotations.
Local Open Scope N_scope.

(* one command: 0 add / 1 del / 2 weight, service, src (host/path as written), dst,
   weight as k / 10^d, tags *)
Definition cdef := (N * str * str * str * (N * N) * list str)%type.

Definition to_def (c : cdef) : TableCmd.def :=
  let '(cmd, svc, src, dst, (k, d), tags) := c in
  {| TableCmd.d_cmd := if cmd =? 0 then TableCmd.CmdAdd else if cmd =? 1 then TableCmd.CmdDel
                       else TableCmd.CmdWeight;
     TableCmd.d_svc := svc; TableCmd.d_src := src; TableCmd.d_dst := dst;
     TableCmd.d_w := w_of_dec false k d; TableCmd.d_tags := tags; TableCmd.d_opts := [] |}.

(* the harness only writes target URLs that url.Parse renders unchanged and patterns that compile *)
Definition idcanon (d : str) : option str := Some d.
Definition anyglob (p : str) : bool := true.

(* route id := number of targets of the route *)
Definition proj_routes (rs : list TableCmd.route) : list route :=
  map (fun r => (TableCmd.r_path r, N.of_nat (length (TableCmd.r_targets r)))) rs.

(* NewTable's final sort of every host's routes *)
Definition proj (t : TableCmd.table) : table :=
  map (fun hr => (fst hr, sort_desc route_ltb (proj_routes (snd hr)))) t.

Definition cmd_table (cs : list cdef) : outcome table :=
  match TableCmd.run idcanon anyglob (map to_def cs) with
  | Ok t => Ok (proj t)
  | Err k => Err k
  | Panic => Panic
  end.

(* Table.lookup with the target-less branch: the first route whose path matches answers;
   without targets the answer is nil and the remaining routes of the host are not tried *)
Definition lookup1c (t : table) (h uri : str) (m : matcher) : option cand :=
  match find (fun r : route => path_match m uri (fst r)) (assoc t (lower h)) with
  | Some (p, n) => if n =? 0 then None else Some (lower h, p, n)
  | None => None
  end.

Definition lookup_cmd (t : table) (host : str) (tls : bool) (uri : str) (m : matcher)
           (globoff : bool) : option cand :=
  let hosts := if globoff then matching_host_noglob t host tls else matching_hosts t host tls in
  first_some (fun h => lookup1c t h uri m) (hosts ++ [[]]).

(* route.NewTableCustom(defs *[]RouteDef) (the custom registry backend, registry/custom/custom.go):
   the command list arrives as data (decoded JSON, no text and no Parse).  A nil pointer is
   rejected; otherwise it is the SAME command loop (addRoute / delRoute with its sweeps /
   weighRoute) and the same final sort of every host's routes as NewTable's.  [None] = nil. *)
Definition e_no_defs : N := 12.         (* "route: no route definitions" *)
Definition custom_table (o : option (list cdef)) : outcome table :=
  match o with
  | None => Err e_no_defs
  | Some cs => cmd_table cs
  end.
