(** C13, redirect routes registered through a consul tag
      urlprefix-/path redirect=303,https://www.foo.com$path
    (docs/content/feature/http-redirects.md; registry/consul/routecmd.go turns the tag into a
    route command, route.NewTable into a target).

    This file is a small INDEPENDENT SPECIFICATION of "the template, the code and the path
    options WRITTEN IN THE TAG": cut the tag at its first blank, read the option fields, find
    redirect=<code>,<url>, cut <url> into scheme, host, path and query.  It is not a model of
    routecmd.build (that one is Model/RouteCmd.v, property C14) and does not share code with it:
    nothing is expanded, nothing is rewritten - in particular the pseudo-variables $path and
    $host of the template stay exactly as written.  The correspondence run (class
    consul-tag-redirect) compares the target the REAL pipeline tag -> routecmd.build ->
    route.NewTable registers, and the response HTTPProxy.ServeHTTP gives, with this reading.
    No proofs in this file. *)
From Coq Require Import String List NArith ZArith Bool.
From Fabio Require Import Lib.Outcome Lib.Bytes Model.Redirect Model.RedirectSpec.
Import ListNotations.
Local Open Scope N_scope.

(* ---- cutting ---- *)
Fixpoint take_until (p : N -> bool) (s : str) : str :=
  match s with [] => [] | c :: r => if p c then [] else c :: take_until p r end.
Fixpoint drop_until (p : N -> bool) (s : str) : str :=
  match s with [] => [] | c :: r => if p c then s else drop_until p r end.

Definition is_blank (c : N) : bool := c =? 32.
Definition no_blank (s : str) : bool := forallb (fun c => negb (is_blank c)) s.
Definition trim_left (s : str) : str := drop_until (fun c => negb (is_blank c)) s.
Definition trim (s : str) : str := rev (trim_left (rev (trim_left s))).

(* the blank-separated fields of the options part, empty ones dropped *)
Fixpoint fields (s : str) : list str :=
  match s with
  | [] => []
  | c :: r =>
      if is_blank c then fields r
      else match r with
           | [] => [[c]]
           | d :: _ => if is_blank d then [c] :: fields r
                       else match fields r with w :: ws => (c :: w) :: ws | [] => [[c]] end
           end
  end.

(* ---- the tag ---- *)
(* prefix ++ src [blank options]: Some (src, option fields) *)
Definition tag_fields (prefix tag : str) : option (str * list str) :=
  let s := trim tag in
  if has_prefix s prefix then
    let s := trim_left (skipn (length prefix) s) in
    Some (take_until is_blank s, fields (drop_until is_blank s))
  else None.

Definition k_redirect : str := [114;101;100;105;114;101;99;116;61].   (* "redirect=" *)
Definition k_strip : str := [115;116;114;105;112;61].                   (* "strip=" *)
Definition k_prepend : str := [112;114;101;112;101;110;100;61].         (* "prepend=" *)

(* redirect=<code>,<url> : exactly one comma *)
Definition redirect_of (f : str) : option (str * str) :=
  if has_prefix f k_redirect then
    match split_byte (skipn (length k_redirect) f) 44 with
    | [c; u] => Some (c, u)
    | _ => None
    end
  else None.
Fixpoint first_some {A B} (f : A -> option B) (l : list A) : option B :=
  match l with
  | [] => None
  | x :: r => match f x with Some y => Some y | None => first_some f r end
  end.
Definition opt_value (key : str) (fs : list str) : str :=
  match first_some (fun f => if has_prefix f key then Some (skipn (length key) f) else None) fs with
  | Some v => v
  | None => []
  end.

Record written := mkWritten { w_src : str; w_code : str; w_tmpl : str; w_strip : str; w_prepend : str }.

(* what the tag says about a redirect; None: the tag registers an ordinary upstream route *)
Definition tag_written (prefix tag : str) : option written :=
  match tag_fields prefix tag with
  | Some (src, fs) =>
      match first_some redirect_of fs with
      | Some (c, u) => Some (mkWritten src c u (opt_value k_strip fs) (opt_value k_prepend fs))
      | None => None
      end
  | None => None
  end.

(* ---- the template text: scheme://host[/path][?query] ----
   scheme in lower-case letters, no userinfo, no fragment, no percent-encoding outside the
   query (so that the parsed Path is the text as written); None outside this shape.  The
   harness compares the result with url.Parse on every case. *)
Definition v_css : str := [58;47;47].                                   (* "://" *)
Definition is_delim (c : N) : bool := (c =? 47) || (c =? 63) || (c =? 35).
Definition is_qf (c : N) : bool := (c =? 63) || (c =? 35).
Definition host_text_ok (s : str) : bool := forallb (fun c => negb (is_delim c || (c =? 37) || (c =? 64) || (c =? 32))) s.
Definition path_text_ok (s : str) : bool :=
  (is_nil s || has_prefix s [47]) && forallb (fun c => negb (is_qf c || (c =? 37) || (c =? 32))) s.
Definition scheme_text_ok (s : str) : bool := negb (is_nil s) && forallb is_lower s.
Definition query_text_ok (s : str) : bool := forallb (fun c => negb ((c =? 35) || (c =? 32))) s.

Definition split_template (s : str) : option (str * str * str * str) :=
  match index s v_css with
  | None => None
  | Some i =>
      let scheme := firstn i s in
      let rest := skipn (i + 3) s in
      let host := take_until is_delim rest in
      let r1 := drop_until is_delim rest in
      let path := take_until is_qf r1 in
      let r2 := drop_until is_qf r1 in
      let oq := match r2 with
                | [] => Some []
                | c :: qy => if (c =? 63) && negb (is_nil qy) && query_text_ok qy then Some qy else None
                end in
      match oq with
      | Some qy =>
          if scheme_text_ok scheme && negb (is_nil host) && host_text_ok host && path_text_ok path
          then Some (scheme, host, path, qy) else None
      | None => None
      end
  end.

(* the target the tag describes: the template as written, the code its text denotes
   ([redirect_code], the option parsing of route/route.go), the path options as written *)
Definition tag_target (id : nat) (prefix tag : str) : option target :=
  match tag_written prefix tag with
  | Some w =>
      match split_template (w_tmpl w) with
      | Some (sc, h, p, qy) => Some (mkTarget id sc h p qy (w_strip w) (w_prepend w) (redirect_code (w_code w)))
      | None => None
      end
  | None => None
  end.

(* a tag without redirect option registers the service itself: all that matters here is that
   it is not a redirect target and which service it is *)
Definition upstream_target (id : nat) : target := mkTarget id [] [] [] [] [] [] 0%Z.
Definition has_redirect_field (prefix tag : str) : bool :=
  match tag_fields prefix tag with
  | Some (_, fs) => existsb (fun f => has_prefix f k_redirect) fs
  | None => false
  end.

(* ---- letter case (the self-redirect test must not fold it in the path) ---- *)
Definition case_variant (a b : str) : bool := beq (lower a) (lower b) && negb (beq a b).
