(** Specification side of C13 (declarative / reference definitions, no proofs):
    what the Location of a redirect route has to be, written on the text of the request
    line and on the template, without the Path/RawPath bookkeeping of the implementation;
    the reference host loop. *)
From Coq Require Import String List NArith ZArith Bool.
From Fabio Require Import Lib.Outcome Lib.Bytes Model.Redirect.
Import ListNotations.
Local Open Scope N_scope.

(* ---- an escaped path as the client wrote it: literal bytes and %XY triplets ---- *)
Inductive tok := Lit (c : N) | Enc (h l : N).
Definition render_tok (t : tok) : str := match t with Lit c => [c] | Enc h l => [37; h; l] end.
Definition decode_tok (t : tok) : N := match t with Lit c => c | Enc h l => unhex h * 16 + unhex l end.
Definition render (ts : list tok) : str := flat_map render_tok ts.
Definition decode (ts : list tok) : str := map decode_tok ts.

Fixpoint tokens (s : str) : option (list tok) :=
  match s with
  | [] => Some []
  | c :: r =>
      if c =? 37 then
        match r with
        | h :: l :: r' =>
            if ishex h && ishex l then
              match tokens r' with Some ts => Some (Enc h l :: ts) | None => None end
            else None
        | _ => None
        end
      else match tokens r with Some ts => Some (Lit c :: ts) | None => None end
  end.

(* bytes net/url leaves alone in a path: letters, digits, - _ . ~ $ & + , / : ; = @ *)
Definition plain_byte (c : N) : bool := negb (should_escape c EncPath).
Definition plain (s : str) : bool := forallb plain_byte s.
(* ! ' ( ) * [ ] : accepted raw by url.validEncoded but escaped by url.escape.  Written raw
   they are kept as written; a request that percent-ENCODES one of them (in upper-case hex and
   with nothing else that needs RawPath) gets it back decoded: net/url considers /a%21b and /a!b
   the same path (see the assumption in checks/C13.json), so these triplets stay outside the domain *)
Definition lax7 : list N := [33;39;40;41;42;91;93].
Definition lit_ok (c : N) : bool := plain_byte c || memb c lax7.
Definition tok_ok (t : tok) : bool :=
  match t with
  | Lit c => lit_ok c
  | Enc h l => ishex h && ishex l && negb (memb (unhex h * 16 + unhex l) lax7)
  end.
(* a triplet that url.escape itself would have produced *)
Definition tok_canon (t : tok) : bool :=
  match t with
  | Lit c => plain_byte c
  | Enc h l => should_escape (unhex h * 16 + unhex l) EncPath
               && beq [37; h; l] (pct (unhex h * 16 + unhex l))
  end.

(* ---- the template, read off the parsed target URL ---- *)
Definition adjacent (t : target) : bool := has_suffix (t_host t) v_path.   (* https://host$path *)
Definition host_pat (t : target) : str :=
  if adjacent t then firstn (length (t_host t) - length v_path) (t_host t) else t_host t.
Definition drop_one_slash (pre : str) : str :=
  match rev pre with c :: r => if c =? 47 then rev r else pre | [] => pre end.
(* Some (pre, post): the path pattern is  pre [/] $path post *)
Definition path_pat (t : target) : option (str * str) :=
  if adjacent t then Some ([], [])
  else match index (t_path t) v_path with
       | None => None
       | Some i => Some (drop_one_slash (firstn i (t_path t)), skipn (i + length v_path) (t_path t))
       end.

Definition host_plain (s : str) : bool := forallb (fun c => negb (should_escape c EncHost)) s.
Definition no_dollar (s : str) : bool := negb (memb 36 s).
Definition ascii (s : str) : bool := forallb (fun c => c <? 128) s.

(* the template forms of the documentation and of the test suite:
   scheme://HOST[/static...]            scheme://HOST$path
   scheme://HOST/pre/$path              scheme://HOST/pre$path      HOST literal or with $host *)
Definition tmpl_dom (t : target) : bool :=
  negb (is_nil (t_scheme t)) && forallb is_alnum (t_scheme t)
  && negb (is_nil (host_pat t)) && host_plain (host_pat t)
  && no_dollar (replace_first (host_pat t) v_host [])
  && ascii (t_query t)
  && plain (t_strip t) && plain (t_prepend t)
  && (if adjacent t then is_nil (t_path t)
      else match path_pat t with
           | Some (pre, post) => plain pre && no_dollar pre && plain post && no_dollar post
                                 && (is_nil pre || has_prefix pre [47])
           | None => plain (t_path t) && no_dollar (t_path t)
           end).

Definition req_dom0 (wire : str) (q : request) : bool :=
  negb (is_nil (q_host q)) && host_plain (q_host q) && ascii (q_query q)
  && match tokens wire with Some ts => forallb tok_ok ts | None => false end.
(* the strip prefix is present in the request path as written iff it is present after decoding *)
Definition strip_consistent (t : target) (wire : str) (q : request) : bool :=
  Bool.eqb (has_prefix (q_path q) (t_strip t)) (has_prefix wire (t_strip t)).
Definition req_dom (t : target) (wire : str) (q : request) : bool :=
  req_dom0 wire q && strip_consistent t wire q.

Definition norm_path (p : str) : str := match p with 47 :: _ => p | _ => 47 :: p end.
Definition qs (q : str) : str := if is_nil q then [] else 63 :: q.

(* THE SPECIFICATION of the Location: the template with $host := the request's host and
   $path := the request path exactly as written on the request line, after strip and
   prepend; the request's query iff the template has none (only with $path: a template
   without $path does not include the request URI at all) *)
Definition expected_location (t : target) (wire : str) (q : request) : str :=
  t_scheme t ++ [58;47;47] ++ replace_first (host_pat t) v_host (q_host q)
  ++ match path_pat t with
     | Some (pre, post) =>
         norm_path (pre ++ t_prepend t ++ trim_prefix wire (t_strip t) ++ post)
         ++ qs (if is_nil (t_query t) then q_query q else t_query t)
     | None => norm_path (t_path t) ++ qs (t_query t)
     end.

(* ---- finding region 6 (F-C13-6): the strip prefix matches the request path only after
   percent-decoding (GET /%61bc/... with strip=/abc; the route itself matches on the decoded
   path).  The specification: strip removes the shortest prefix of the path as written that
   decodes to the strip text; the rest stays as written. *)
Definition strip_decoded_only (t : target) (wire : str) (q : request) : bool :=
  has_prefix (q_path q) (t_strip t) && negb (has_prefix wire (t_strip t)).
Fixpoint raw_strip (ts : list tok) (st : str) : option (list tok) :=
  match st with
  | [] => Some ts
  | c :: st' => match ts with
                | t :: ts' => if decode_tok t =? c then raw_strip ts' st' else None
                | [] => None
                end
  end.
Definition raw_remainder (wire st : str) : str :=
  match tokens wire with
  | Some ts => match raw_strip ts st with Some r => render r | None => wire end
  | None => wire
  end.
Definition expected_location_dec (t : target) (wire : str) (q : request) : str :=
  t_scheme t ++ [58;47;47] ++ replace_first (host_pat t) v_host (q_host q)
  ++ match path_pat t with
     | Some (pre, post) =>
         norm_path (pre ++ t_prepend t ++ raw_remainder wire (t_strip t) ++ post)
         ++ qs (if is_nil (t_query t) then q_query q else t_query t)
     | None => norm_path (t_path t) ++ qs (t_query t)
     end.

(* where the repaired finding F-C13-1 lived (fix: e4368b6): $path glued to the host and a
   request path that is not in net/url's default encoding (so it carries an encoded reserved
   byte such as %2F, or a needlessly encoded one).  Used only by the refutation theorem. *)
Definition region_adjacent_raw (t : target) (q : request) : bool :=
  adjacent t && negb (is_nil (q_rawpath q)).

(* ---- the host loop: reference ----
   "A redirect that would point back at the request's own scheme, host and path is skipped in
   favour of the next matching host": the request's own scheme is the one a proxy in front
   reports (X-Forwarded-Proto), otherwise that of the connection; whatever headers were sent *)
Definition own_scheme (q : request) : str :=
  if negb (is_nil (q_xfp q)) then q_xfp q
  else if q_tls q then [104;116;116;112;115] else [104;116;116;112].
Definition points_back (u : url) (q : request) : bool :=
  beq (u_scheme u) (own_scheme q) && beq (u_host u) (q_host q) && beq (u_path u) (q_path q).

(* an independent reading of "the request's own scheme, host and path": host names compare
   case-insensitively and the scheme's default port may be left out *)
Definition drop_default_port (scheme h : str) : str :=
  if beq scheme [104;116;116;112] && has_suffix h [58;56;48] then firstn (length h - 3) h
  else if beq scheme [104;116;116;112;115] && has_suffix h [58;52;52;51] then firstn (length h - 4) h
  else h.
Definition norm_host (scheme h : str) : str := drop_default_port scheme (lower h).
Definition points_back_norm (u : url) (q : request) : bool :=
  beq (u_scheme u) (own_scheme q)
  && beq (norm_host (u_scheme u) (u_host u)) (norm_host (own_scheme q) (q_host q))
  && beq (u_path u) (q_path q).

(* first host whose route is not a redirect back to the request itself *)
Fixpoint ref_lookup (q : request) (cands : list (option target)) : option target :=
  match cands with
  | [] => None
  | None :: r => ref_lookup q r
  | Some t :: r =>
      if (t_code t =? 0)%Z then Some t
      else if points_back (build_redirect_url t q) q then ref_lookup q r
      else Some t
  end.
Definition code_ok (c : Z) : bool := ((300 <=? c) && (c <=? 399))%Z.
Definition ref_response (q : request) (cands : list (option target)) : response :=
  match ref_lookup q cands with
  | None => RNoRoute
  | Some t => if (t_code t =? 0)%Z then RProxy (t_id t)
              else RRedirect (t_code t) (hex_escape_non_ascii (url_string (build_redirect_url t q)))
  end.

Definition somes {A} (l : list (option A)) : list A :=
  flat_map (fun o => match o with Some a => [a] | None => [] end) l.

(* an option text on which strconv.Atoi reports a range error (the repaired finding F-C13-5) *)
Definition code_overflows (opt : str) : bool :=
  let '(v, ok) := atoi opt in negb ok && negb (v =? 0)%Z.
