(** Executable transcription of the parts of Go 1.24 net/url that decide which
    bytes an upstream sees as the request path: [unescape] (path mode),
    [shouldEscape]/[escape] (encodePath), [validEncoded], [URL.setPath],
    [URL.EscapedPath], [URL.RequestURI] and the origin-form branch of
    [ParseRequestURI].  Nothing here is assumed about net/url: the harness runs
    url.PathUnescape, url.ParseRequestURI, URL.EscapedPath, URL.RequestURI and
    URL.String on generated inputs and these definitions must give the same
    bytes (cases CUnesc / CParse / CEsc).  No proofs in this file. *)
From Coq Require Import List NArith Bool.
From Fabio Require Import Lib.Outcome Lib.Bytes.
Import ListNotations.
Local Open Scope N_scope.
Local Open Scope outcome_scope.

Definition nonempty (s : str) : bool := match s with [] => false | _ => true end.

(* ---- hex digits ---- *)
Definition is_digit (c : N) : bool := (48 <=? c) && (c <=? 57).
Definition ishex (c : N) : bool :=
  is_digit c || ((97 <=? c) && (c <=? 102)) || ((65 <=? c) && (c <=? 70)).
Definition unhex (c : N) : N :=
  if is_digit c then c - 48
  else if (97 <=? c) && (c <=? 102) then c - 87
  else if (65 <=? c) && (c <=? 70) then c - 55
  else 0.
(* upperhex[n] = "0123456789ABCDEF"[n] *)
Definition upperhex (n : N) : N := if n <? 10 then 48 + n else 55 + n.

(* ---- unescape(s, encodePath) = url.PathUnescape: Err 1 = EscapeError ---- *)
Fixpoint unescape (s : str) : outcome str :=
  match s with
  | [] => Ok []
  | c :: r =>
      if c =? 37 then
        match r with
        | a :: b :: r' =>
            if ishex a && ishex b
            then match unescape r' with
                 | Ok t => Ok ((unhex a * 16 + unhex b) :: t)
                 | e => e
                 end
            else Err 1
        | _ => Err 1
        end
      else match unescape r with
           | Ok t => Ok (c :: t)
           | e => e
           end
  end.

(* ---- shouldEscape(c, encodePath) ---- *)
Definition is_alnum (c : N) : bool :=
  ((97 <=? c) && (c <=? 122)) || ((65 <=? c) && (c <=? 90)) || is_digit c.
Definition mem_byte (c : N) (l : list N) : bool := existsb (N.eqb c) l.
(* '-' '_' '.' '~' *)
Definition unreserved_marks : list N := [45; 95; 46; 126].
(* '$' '&' '+' ',' '/' ':' ';' '=' '@'   ('?' is the one reserved byte that IS escaped in a path) *)
Definition path_reserved_ok : list N := [36; 38; 43; 44; 47; 58; 59; 61; 64].
Definition should_escape (c : N) : bool :=
  negb (is_alnum c || mem_byte c unreserved_marks || mem_byte c path_reserved_ok).

Definition esc_byte (c : N) : str :=
  if should_escape c then [37; upperhex (c / 16); upperhex (c mod 16)] else [c].
(* escape(s, encodePath) *)
Definition escape (s : str) : str := flat_map esc_byte s.

(* ---- validEncoded(s, encodePath) ----
   '!' '$' '&' ''' '(' ')' '*' '+' ',' ';' '=' ':' '@' '[' ']' '%' *)
Definition valid_extra : list N := [33; 36; 38; 39; 40; 41; 42; 43; 44; 59; 61; 58; 64; 91; 93; 37].
Definition valid_encoded (s : str) : bool :=
  forallb (fun c => mem_byte c valid_extra || negb (should_escape c)) s.

(* ---- URL.setPath: (Path, RawPath) ---- *)
Definition set_path (p : str) : outcome (str * str) :=
  do path <- unescape p;
  Ok (path, if beq (escape path) p then [] else p).

Definition out_is (r : outcome str) (s : str) : bool :=
  match r with Ok t => beq t s | _ => false end.

(* ---- URL.EscapedPath ---- *)
Definition escaped_path (path rawpath : str) : str :=
  if nonempty rawpath && valid_encoded rawpath && out_is (unescape rawpath) path then rawpath
  else if beq path [42] then [42]
  else escape path.

(* ---- URL.RequestURI for a URL without Opaque ---- *)
Definition request_uri (path rawpath rawquery : str) (force : bool) : str :=
  let r := escaped_path path rawpath in
  let r := if nonempty r then r else [47] in
  if force || nonempty rawquery then r ++ 63 :: rawquery else r.

(* ---- URL.String for {Scheme:"http", Host:"h:1", Path, RawPath, RawQuery, ForceQuery} ---- *)
Definition http_h1 : str := [104; 116; 116; 112; 58; 47; 47; 104; 58; 49].
Definition url_string (path rawpath rawquery : str) (force : bool) : str :=
  let ep := escaped_path path rawpath in
  let ep := match ep with c :: _ => if c =? 47 then ep else 47 :: ep | [] => ep end in
  http_h1 ++ ep ++ (if force || nonempty rawquery then 63 :: rawquery else []).

(* ---- url.ParseRequestURI on an origin-form request target ----
   Err 1: net/url rejects (control byte, empty, bad escape);
   Err 2: not origin-form ("*", absolute-form, authority-form): outside this model *)
Definition has_ctl (s : str) : bool := existsb (fun c => (c <? 32) || (c =? 127)) s.

(* strings.Cut(s, "?") *)
Fixpoint cut_q (s : str) : str * option str :=
  match s with
  | [] => ([], None)
  | c :: r => if c =? 63 then ([], Some r)
              else let '(a, b) := cut_q r in (c :: a, b)
  end.

Record parsed := { p_path : str; p_rawpath : str; p_rawquery : str; p_force : bool }.

(* net/url decides ForceQuery by [HasSuffix(rest,"?") && Count(rest,"?") == 1] and cuts at the
   first '?' otherwise; that is: the text after the first '?' is empty (the directed targets
   "/a?", "/a??", "/?x?", "/?" are in every correspondence run) *)
Definition parse_target (t : str) : outcome parsed :=
  check negb (has_ctl t) else 1;
  check nonempty t else 1;
  check has_prefix t [47] else 2;
  let '(rest, q, force) :=
    match cut_q t with
    | (a, Some []) => (a, [], true)
    | (a, Some x) => (a, x, false)
    | (a, None) => (a, [], false)
    end in
  do '(path, raw) <- set_path rest;
  Ok {| p_path := path; p_rawpath := raw; p_rawquery := q; p_force := force |}.

(* ---- absolute-form request targets ("GET http://host/path?q HTTP/1.1") ----
   net/url: scheme, then "//" authority up to the next '/', the rest is parsed like an origin-form
   target; net/http hands the handler the same URL.Path / RawPath / RawQuery.  [origin_form]
   reduces such a target to its origin-form part (targets without a path are outside the model).
   Tested against url.ParseRequestURI like the rest (CParse on absolute-form targets). *)
Definition http_scheme : str := [104; 116; 116; 112; 58; 47; 47].   (* "http://" *)
Fixpoint drop_authority (s : str) : str :=
  match s with
  | [] => []
  | c :: r => if (c =? 47) || (c =? 63) then s else drop_authority r
  end.
Definition origin_form (t : str) : str :=
  if has_prefix t http_scheme then drop_authority (skipn 7 t) else t.
