(** Model of cert/store.go ([certstore.BuildNameToCertificate], [getCertificate],
    the atomic store) and of cert/watch.go (the reload loop), after the repair of the
    reload loop (fix: commit in /repo: sleep after a failed certificate build) and of the
    index (fix: commit: certificate names are lower-cased when indexed); the old loop and
    the old index are kept as [watch_step_spinning] / [build_from_unfolded] for the
    refutation theorems.
    A certificate is abstracted to the list of names BuildNameToCertificate indexes it
    under: the CommonName when non-empty, then the DNS SANs, in that order. *)
From Coq Require Import String List NArith Bool.
From Fabio Require Import Lib.Outcome Lib.Bytes.
Import ListNotations.
Local Open Scope N_scope.

Definition cert := list str.

(* map[string]*tls.Certificate built by successive assignments: an association list in
   assignment order; a later assignment to the same key wins *)
Definition index := list (str * nat).
Fixpoint lookup_last (ix : index) (n : str) : option nat :=
  match ix with
  | [] => None
  | (k, v) :: r => match lookup_last r n with
                   | Some w => Some w
                   | None => if beq k n then Some v else None
                   end
  end.

(* BuildNameToCertificate after the repair (fix: commit in /repo): names are indexed
   lower-cased, as DNS names compare *)
Fixpoint build_from (i : nat) (certs : list cert) : index :=
  match certs with
  | [] => []
  | c :: r => map (fun n => (lower n, i)) c ++ build_from (S i) r
  end.
Definition build_index (certs : list cert) : index := build_from 0 certs.
(* as it was: the certificate's spelling is the key, while requests are lower-cased *)
Fixpoint build_from_unfolded (i : nat) (certs : list cert) : index :=
  match certs with
  | [] => []
  | c :: r => map (fun n => (n, i)) c ++ build_from_unfolded (S i) r
  end.

(* strings.ToLower, then strip every trailing '.' *)
Fixpoint strip_dots_rev (r : str) : str :=
  match r with 46 :: r' => strip_dots_rev r' | _ => r end.
Definition normalize (name : str) : str := rev (strip_dots_rev (rev (lower name))).

(* labels[0..k] replaced by "*" *)
Fixpoint stars (k : nat) (labels : list str) : list str :=
  match k, labels with
  | S k', _ :: r => [42] :: stars k' r
  | _, _ => labels
  end.
Definition candidate (labels : list str) (k : nat) : str := join (stars (S k) labels) [46].
Definition candidates (name : str) : list str :=
  let labels := split_byte name 46 in map (candidate labels) (seq 0 (length labels)).

Fixpoint first_hit (ix : index) (cands : list str) : option nat :=
  match cands with
  | [] => None
  | c :: r => match lookup_last ix c with Some i => Some i | None => first_hit ix r end
  end.

Inductive pick := PCert (i : nat) | PNone | PErrNoCerts.

(* getCertificate(cs, hello, strict); [ix = None] is a nil NameToCertificate map *)
Definition get_certificate (certs : list cert) (ix : option index) (server_name : str) (strict : bool) : pick :=
  match certs with
  | [] => PErrNoCerts
  | _ =>
    if negb strict && (Nat.eqb (length certs) 1 || match ix with None => true | Some _ => false end)
    then PCert 0
    else
      let ix := match ix with Some i => i | None => [] end in
      let name := normalize server_name in
      match lookup_last ix name with
      | Some i => PCert i
      | None => match first_hit ix (candidates name) with
                | Some i => PCert i
                | None => if strict then PNone else PCert 0
                end
      end
  end.

(* Store.SetCertificates then a handshake: the index is always built *)
Definition store_pick (certs : list cert) (server_name : str) (strict : bool) : pick :=
  get_certificate certs (Some (build_index certs)) server_name strict.

(* ---- the atomic store under interleaving: a handshake loads the store once and then
        computes on that snapshot ---- *)
Inductive action :=
| APublish (certs : list cert)                 (* Store.SetCertificates: one atomic.Value.Store *)
| AHandshake (name : str) (strict : bool).     (* certstore() load + getCertificate on the snapshot *)
(* run a schedule of atomic actions from the store content [cur]; output: the handshake results *)
Fixpoint run_store (cur : list cert) (sched : list action) : list pick :=
  match sched with
  | [] => []
  | APublish c :: r => run_store c r
  | AHandshake n s :: r => store_pick cur n s :: run_store cur r
  end.

(* ---- cert/watch.go ---- *)
(* what one call of loadFn + loadCertificates yields: an error, or PEM blocks (abstract
   identity [id], compared with reflect.DeepEqual) that build into certificates or do not *)
Inductive load :=
| LoadErr
| Blocks (id : N) (good : option N).   (* Some set = loadCertificates succeeded with that set; None = it failed *)
Inductive event := ELoad | ESleep | EPublish (set : N).

(* one iteration of the loop; state = identity of the last published blocks; result:
   events after the ELoad, new state, whether the loop returns (the [once] case) *)
Definition watch_step (once : bool) (last : option N) (l : load) : list event * option N * bool :=
  match l with
  | LoadErr => ([ESleep], last, false)
  | Blocks id good =>
      if match last with Some l0 => l0 =? id | None => false end then ([ESleep], last, false)
      else match good with
           | None => ([ESleep], last, false)              (* repaired: sleep before retrying *)
           | Some set => ([EPublish set], Some id, once)
           end
  end.
(* the loop before the repair: `continue` without sleeping *)
Definition watch_step_spinning (once : bool) (last : option N) (l : load) : list event * option N * bool :=
  match l with
  | Blocks id None =>
      if match last with Some l0 => l0 =? id | None => false end then ([ESleep], last, false)
      else ([], last, false)
  | _ => watch_step once last l
  end.

Fixpoint watch_run (step : bool -> option N -> load -> list event * option N * bool)
         (once : bool) (last : option N) (script : list load) : list event :=
  match script with
  | [] => []
  | l :: r => let '(ev, last', stop) := step once last l in
              ELoad :: ev ++ (if stop then [] else watch_run step once last' r)
  end.
