(** Model of cert/store.go ([certstore.BuildNameToCertificate], [getCertificate], the
    atomic store), of cert/load.go ([loadCertificates]) and of cert/watch.go (the reload
    loop), as the code is after the fix: commits in /repo
      2594210  sleep after a failed certificate build,
      64c758c  certificate names are lower-cased when indexed,
      887d762  a load that yields no certificate is an unusable load (nothing is published,
               [last] is not updated).
    The code before each of them is kept for the refutation theorems:
    [watch_step_spinning], [build_from_unfolded], [watch_step_unrepaired].
    A certificate is abstracted to the list of names BuildNameToCertificate indexes it
    under: the CommonName when non-empty, then the DNS SANs, in that order.
    strings.ToLower is modelled on ASCII only (see checks/C11.json assumptions). *)
From Coq Require Import String List NArith Bool.
From Fabio Require Import Lib.Outcome Lib.Bytes.
Import ListNotations.
Local Open Scope N_scope.

Definition cert := list str.
Definition certset := list cert.

(* map[string]*tls.Certificate built by successive assignments: an association list in
   assignment order; a later assignment to the same key wins *)
Definition index := list (str * nat).
Fixpoint lookup_last (ix : index) (n : str) : option nat :=
  match ix with
  | [] => None
  | (k, v) :: r => match lookup_last r n with
                   | Some w => Some w
                   | None => if beq k n then Some v else None
                   end
  end.

(* BuildNameToCertificate after the repair (fix: commit in /repo): names are indexed
   lower-cased, as DNS names compare *)
Fixpoint build_from (i : nat) (certs : list cert) : index :=
  match certs with
  | [] => []
  | c :: r => map (fun n => (lower n, i)) c ++ build_from (S i) r
  end.
Definition build_index (certs : list cert) : index := build_from 0 certs.
(* as it was: the certificate's spelling is the key, while requests are lower-cased *)
Fixpoint build_from_unfolded (i : nat) (certs : list cert) : index :=
  match certs with
  | [] => []
  | c :: r => map (fun n => (n, i)) c ++ build_from_unfolded (S i) r
  end.

(* strings.ToLower, then strip every trailing '.' *)
Fixpoint strip_dots_rev (r : str) : str :=
  match r with 46 :: r' => strip_dots_rev r' | _ => r end.
Definition normalize (name : str) : str := rev (strip_dots_rev (rev (lower name))).

(* labels[0..k] replaced by "*" *)
Fixpoint stars (k : nat) (labels : list str) : list str :=
  match k, labels with
  | S k', _ :: r => [42] :: stars k' r
  | _, _ => labels
  end.
Definition candidate (labels : list str) (k : nat) : str := join (stars (S k) labels) [46].
Definition candidates (name : str) : list str :=
  let labels := split_byte name 46 in map (candidate labels) (seq 0 (length labels)).

Fixpoint first_hit (ix : index) (cands : list str) : option nat :=
  match cands with
  | [] => None
  | c :: r => match lookup_last ix c with Some i => Some i | None => first_hit ix r end
  end.

Inductive pick := PCert (i : nat) | PNone | PErrNoCerts.
Definition pick_eqb (a b : pick) : bool :=
  match a, b with
  | PCert i, PCert j => Nat.eqb i j
  | PNone, PNone => true
  | PErrNoCerts, PErrNoCerts => true
  | _, _ => false
  end.

(* getCertificate(cs, hello, strict); [ix = None] is a nil NameToCertificate map *)
Definition get_certificate (certs : list cert) (ix : option index) (server_name : str) (strict : bool) : pick :=
  match certs with
  | [] => PErrNoCerts
  | _ =>
    if negb strict && (Nat.eqb (length certs) 1 || match ix with None => true | Some _ => false end)
    then PCert 0
    else
      let ix := match ix with Some i => i | None => [] end in
      let name := normalize server_name in
      match lookup_last ix name with
      | Some i => PCert i
      | None => match first_hit ix (candidates name) with
                | Some i => PCert i
                | None => if strict then PNone else PCert 0
                end
      end
  end.

(* Store.SetCertificates then a handshake: the index is always built *)
Definition store_pick (certs : list cert) (server_name : str) (strict : bool) : pick :=
  get_certificate certs (Some (build_index certs)) server_name strict.

(* ---- the atomic store under interleaving, coarse: SetCertificates is one action, a
        handshake is one action ---- *)
Inductive action :=
| APublish (certs : list cert)                 (* Store.SetCertificates *)
| AHandshake (name : str) (strict : bool).     (* certstore() load + getCertificate on the snapshot *)
(* run a schedule of atomic actions from the store content [cur]; output: the handshake results *)
Fixpoint run_store (cur : list cert) (sched : list action) : list pick :=
  match sched with
  | [] => []
  | APublish c :: r => run_store c r
  | AHandshake n s :: r => store_pick cur n s :: run_store cur r
  end.

(* ---- the atomic store under interleaving, fine: the steps that are atomic in the code.
   SetCertificates is   cs := certstore{certs}; cs.BuildNameToCertificate()   (local to the
   one goroutine that applies updates)  followed by  s.cs.Store(cs);
   GetCertificate is    store.certstore()  (one atomic.Value.Load)  followed by
   getCertificate on that value.  A certstore value = certificates + index (None = nil map);
   NewStore stores certstore{} ---- *)
Definition certstore_v := (certset * option index)%type.
Definition pick_on (cs : certstore_v) (n : str) (s : bool) : pick := get_certificate (fst cs) (snd cs) n s.
Inductive faction :=
| FBuild (certs : certset)                       (* the updater prepares its local certstore value *)
| FStore                                         (* the updater stores the prepared value *)
| FLoad (t : nat)                                (* handshake t loads the store *)
| FPick (t : nat) (name : str) (strict : bool).  (* handshake t computes on what it loaded *)
Fixpoint snap_get {A} (t : nat) (snaps : list (nat * A)) : option A :=
  match snaps with
  | [] => None
  | (u, v) :: r => if Nat.eqb u t then Some v else snap_get t r
  end.
(* state: store content, the updater's prepared value, what each handshake loaded *)
Definition fstate := (certstore_v * option certstore_v * list (nat * certstore_v))%type.
Definition fstate0 : fstate := (([], None), None, []).
(* [mk] = what the stored value is for a set of certificates *)
Definition mk_built (certs : certset) : certstore_v := (certs, Some (build_index certs)).
(* the wrong order  s.cs.Store(cs); cs.BuildNameToCertificate() : the stored copy keeps its nil map *)
Definition mk_store_first (certs : certset) : certstore_v := (certs, None).
(* a store without a prepared value and a pick without a load are not steps of any
   execution: they change nothing and answer nothing *)
Definition fine_step (mk : certset -> certstore_v) (st : fstate) (a : faction) : fstate * list pick :=
  let '(store, pend, snaps) := st in
  match a with
  | FBuild certs => ((store, Some (mk certs), snaps), [])
  | FStore => match pend with
              | Some v => ((v, None, snaps), [])
              | None => (st, [])
              end
  | FLoad t => ((store, pend, (t, store) :: snaps), [])
  | FPick t n s => match snap_get t snaps with
                   | Some v => (st, [pick_on v n s])
                   | None => (st, [])
                   end
  end.
Fixpoint run_fine (mk : certset -> certstore_v) (st : fstate) (sched : list faction) : list pick :=
  match sched with
  | [] => []
  | a :: r => let '(st', out) := fine_step mk st a in out ++ run_fine mk st' r
  end.

(* ---- cert/load.go loadCertificates ---- *)
(* a file of the source, abstracted to what tls.X509KeyPair makes of it:
   [f_cert] = Some (public key id, names) when it holds a CERTIFICATE block whose leaf
   parses; [f_key] = Some key id when it holds a private key block that parses;
   [f_id] = identity of the bytes (reflect.DeepEqual compares bytes) *)
Record pfile := { f_id : N; f_cert : option (N * cert); f_key : option N }.
(* map[string][]byte with distinct keys; where two maps are compared the keys are in
   ascending order *)
Definition blocks := list (str * pfile).
Fixpoint blocks_find (m : blocks) (n : str) : option pfile :=
  match m with
  | [] => None
  | (k, v) :: r => if beq k n then Some v else blocks_find r n
  end.
Definition s_cert : str := bs "-cert.pem"%string.
Definition s_key : str := bs "-key.pem"%string.
Definition s_pem : str := bs ".pem"%string.
Definition replace_suffix (s old new : str) : str := firstn (length s - length old) s ++ new.
(* (certFile, keyFile) of a map key, None for names that are skipped *)
Definition classify (name : str) : option (str * str) :=
  if has_suffix name s_cert then Some (name, replace_suffix name s_cert s_key)
  else if has_suffix name s_key then Some (replace_suffix name s_key s_cert, name)
  else if has_suffix name s_pem then Some (name, name)
  else None.
(* pemBlocks[certFile], pemBlocks[keyFile] both present and tls.X509KeyPair succeeds *)
Definition key_pair (m : blocks) (cf kf : str) : option cert :=
  match blocks_find m cf, blocks_find m kf with
  | Some c, Some k =>
      match f_cert c, f_key k with
      | Some (pub, names), Some sk => if pub =? sk then Some names else None
      | _, _ => None
      end
  | _, _ => None
  end.
Fixpoint assoc_mem {A} (k : str) (x : list (str * A)) : bool :=
  match x with
  | [] => false
  | (k', _) :: r => beq k' k || assoc_mem k r
  end.
(* the range loop, in the order [names]; [x] = the map of loaded pairs, [bad] = errs non-empty *)
Fixpoint load_loop (all : blocks) (names : list str) (x : list (str * cert)) (bad : bool)
  : list (str * cert) * bool :=
  match names with
  | [] => (x, bad)
  | name :: r =>
      match classify name with
      | None => load_loop all r x bad
      | Some (cf, kf) =>
          if assoc_mem cf x then load_loop all r x bad
          else match key_pair all cf kf with
               | None => load_loop all r x true
               | Some c => load_loop all r ((cf, c) :: x) bad
               end
      end
  end.
(* sort.Strings over the (distinct) certificate file names *)
Fixpoint insert_file (e : str * cert) (l : list (str * cert)) : list (str * cert) :=
  match l with
  | [] => [e]
  | h :: t => if str_ltb (fst h) (fst e) then h :: insert_file e t else e :: l
  end.
Definition sort_files (l : list (str * cert)) : list (str * cert) := fold_right insert_file [] l.
Definition load_files (m : blocks) : list (str * cert) * bool :=
  let '(x, bad) := load_loop m (map fst m) [] false in (sort_files x, bad).
(* (certs, err != nil) *)
Definition load_certificates (m : blocks) : certset * bool :=
  let '(x, bad) := load_files m in (map snd x, bad).

(* ---- cert/watch.go ---- *)
(* what one call of loadFn yields: an error, or a map (None = a nil map, which loadPath and
   loadURL return for an empty path) *)
Inductive load :=
| LoadErr
| Loaded (m : option blocks).
Inductive event := ELoad | ESleep | EPublish (set : certset).

Definition cert_eqb : cert -> cert -> bool := list_eqb beq.
Definition pfile_eqb (a b : pfile) : bool :=
  (f_id a =? f_id b)
  && opt_eqb (fun x y => (fst x =? fst y) && cert_eqb (snd x) (snd y)) (f_cert a) (f_cert b)
  && opt_eqb N.eqb (f_key a) (f_key b).
Definition blocks_eqb : blocks -> blocks -> bool :=
  list_eqb (fun x y => beq (fst x) (fst y) && pfile_eqb (snd x) (snd y)).
(* reflect.DeepEqual(next, last): a nil map equals only a nil map *)
Definition same_blocks : option blocks -> option blocks -> bool := opt_eqb blocks_eqb.
(* loadCertificates(next); ranging over a nil map is ranging over an empty one *)
Definition built (next : option blocks) : certset * bool :=
  load_certificates (match next with Some m => m | None => [] end).

(* one iteration of the loop; state = the last published blocks (None = nil); result:
   events after the ELoad, new state, whether the loop returns (the [once] case) *)
Definition watch_step (once : bool) (last : option blocks) (l : load) : list event * option blocks * bool :=
  match l with
  | LoadErr => ([ESleep], last, false)
  | Loaded next =>
      if same_blocks next last then ([ESleep], last, false)
      else let '(certs, err) := built next in
           if err then ([ESleep], last, false)                (* 2594210: sleep before retrying *)
           else match certs with
                | [] => ([ESleep], last, false)               (* 887d762: nothing to publish *)
                | _ => ([EPublish certs], next, once)
                end
  end.
(* the loop before 887d762: whatever loadCertificates returned without an error was
   published, an empty set included *)
Definition watch_step_unrepaired (once : bool) (last : option blocks) (l : load) : list event * option blocks * bool :=
  match l with
  | LoadErr => ([ESleep], last, false)
  | Loaded next =>
      if same_blocks next last then ([ESleep], last, false)
      else let '(certs, err) := built next in
           if err then ([ESleep], last, false)
           else ([EPublish certs], next, once)
  end.
(* the loop before 2594210: `continue` without sleeping after a failed build *)
Definition watch_step_spinning (once : bool) (last : option blocks) (l : load) : list event * option blocks * bool :=
  match l with
  | LoadErr => ([ESleep], last, false)
  | Loaded next =>
      if same_blocks next last then ([ESleep], last, false)
      else let '(certs, err) := built next in
           if err then ([], last, false)
           else ([EPublish certs], next, once)
  end.

Definition wstep := bool -> option blocks -> load -> list event * option blocks * bool.
(* the events of each iteration (after its load), until the script ends or the loop returns *)
Fixpoint watch_iters (step : wstep) (once : bool) (last : option blocks) (script : list load) : list (list event) :=
  match script with
  | [] => []
  | l :: r => let '(ev, last', stop) := step once last l in
              ev :: (if stop then [] else watch_iters step once last' r)
  end.
Definition watch_run (step : wstep) (once : bool) (last : option blocks) (script : list load) : list event :=
  flat_map (fun ev => ELoad :: ev) (watch_iters step once last script).

(* ---- watch loop -> channel -> the goroutine of TLSConfig -> Store: every publication is
   one SetCertificates; a handshake (name, strict) is made after every iteration ---- *)
Definition store_actions (ev : list event) : list action :=
  flat_map (fun e => match e with EPublish s => [APublish s] | _ => [] end) ev.
Definition e2e_actions (step : wstep) (once : bool) (last : option blocks) (script : list load)
           (n : str) (s : bool) : list action :=
  flat_map (fun ev => store_actions ev ++ [AHandshake n s]) (watch_iters step once last script).

(* ---- what a handshake is presented: the whole tls.Certificate value, not only the names
   of its leaf.  GetCertificate returns &cs.Certificates[i] of the value it loaded from the
   store, and crypto/tls puts all of it onto the wire.  A certificate of a set as the store
   holds it: the names of its leaf (what the index is built from), the identity of the leaf's
   DER, and the identity of everything else of the value that a client sees
   (Certificate[1:] = the intermediate chain, OCSPStaple, SignedCertificateTimestamps).
   Store.SetCertificates replaces the stored value by the set it is given whatever the
   relation between the two sets is (same leaves with another chain included). ---- *)
Record fcert := { fc_names : cert; fc_leaf : N; fc_rest : N }.
Definition fset := list fcert.
Definition names_of (set : fset) : certset := map fc_names set.
(* what GetCertificate hands to crypto/tls.  [ROutside]: the index computed on the names
   does not denote an element of the set (excluded by C11_presented_member) *)
Inductive presented := RCert (i : nat) (c : fcert) | RNone | RErrNoCerts | ROutside (i : nat).
Definition present_on (set : fset) (n : str) (s : bool) : presented :=
  match store_pick (names_of set) n s with
  | PCert i => match nth_error set i with Some c => RCert i c | None => ROutside i end
  | PNone => RNone
  | PErrNoCerts => RErrNoCerts
  end.
Definition pick_of (p : presented) : pick :=
  match p with RCert i _ => PCert i | RNone => PNone | RErrNoCerts => PErrNoCerts | ROutside i => PCert i end.
Inductive maction :=
| MPublish (set : fset)                        (* Store.SetCertificates *)
| MHandshake (name : str) (strict : bool).     (* certstore() load + getCertificate on the snapshot *)
Fixpoint run_mstore (cur : fset) (sched : list maction) : list presented :=
  match sched with
  | [] => []
  | MPublish c :: r => run_mstore c r
  | MHandshake n s :: r => present_on cur n s :: run_mstore cur r
  end.
(* the same schedule as the name-level store sees it *)
Definition strip_material (a : maction) : action :=
  match a with MPublish c => APublish (names_of c) | MHandshake n s => AHandshake n s end.
Definition fcert_eqb (a b : fcert) : bool :=
  cert_eqb (fc_names a) (fc_names b) && (fc_leaf a =? fc_leaf b) && (fc_rest a =? fc_rest b).
Definition presented_eqb (a b : presented) : bool :=
  match a, b with
  | RCert i c, RCert j d => Nat.eqb i j && fcert_eqb c d
  | RNone, RNone => true
  | RErrNoCerts, RErrNoCerts => true
  | ROutside i, ROutside j => Nat.eqb i j
  | _, _ => false
  end.
