(** Model of fabio's route selection, transcribed from route/table.go
    (addRoute 149-193, NewTable's sort 113-116, normalizeHost 296-308,
    matchingHosts 312-333, matchingHostNoGlob 339-350, sortHostsReverseHostPort
    352-372, ReverseHostPort 376-393, Lookup 399-444, lookup 450-475),
    route/routes.go (Less 19) and route/matcher.go, defects included, followed
    by the specification side (candidates and the strict order [beats], written
    without reference to any sorting) and the named finding regions.
    No proofs in this file.

    Not modelled: targets/pickers (every route has >= 1 target; the harness gives
    each route one service name and a picker that returns Targets[0]), the
    redirect self-skip of Lookup 425-434 (no redirect options are generated),
    trace logging.  Domain: ASCII; keys and hosts contain no '[' or ']'
    (net.SplitHostPort's bracket syntax), keys do not start with ':' (those are
    TCP listener routes, hostpath 78-80). *)
From Coq Require Import List NArith Bool.
From Fabio Require Import Lib.Bytes Model.Glob.
Import ListNotations.
Local Open Scope N_scope.

(* ---------- normalizeHost ---------- *)
Definition s_80 : str := [58; 56; 48].          (* ":80" *)
Definition s_443 : str := [58; 52; 52; 51].     (* ":443" *)
Definition drop_last (n : nat) (s : str) : str := firstn (length s - n) s.

Definition strip_port (host : str) (tls : bool) : str :=
  if negb tls && has_suffix host s_80 then drop_last 3 host
  else if tls && has_suffix host s_443 then drop_last 4 host
  else host.

Definition normalize_host (host : str) (tls : bool) : str := lower (strip_port host tls).

(* ---------- net.SplitHostPort / JoinHostPort on bracket-free strings ----------
   result (host, port); ("","") where Go returns an error *)
Definition ch_colon : N := 58.
Definition has_colon (s : str) : bool := existsb (fun c => c =? ch_colon) s.

Definition split_host_port (s : str) : str * str :=
  match last_index_byte s ch_colon with
  | None => ([], [])                                  (* missing port *)
  | Some i => let host := firstn i s in
              if has_colon host then ([], [])         (* too many colons *)
              else (host, skipn (S i) s)
  end.

Definition join_host_port (host port : str) : str :=
  if has_colon host then [91] ++ host ++ [93; 58] ++ port
  else host ++ [58] ++ port.

(* ReverseHostPort *)
Definition reverse_host_port (s : str) : str :=
  let '(h0, p) := split_host_port s in
  let h := match h0 with [] => s | _ => h0 end in
  match p with
  | [] => rev h
  | _ => join_host_port (rev h) p
  end.

(* ---------- sort.Sort(sort.Reverse(...)): descending byte order ----------
   (the elements sorted are pairwise distinct in both uses, so the result does not
   depend on the sorting algorithm) *)
Section Sort.
  Context {A : Type} (key : A -> str).
  Fixpoint insert_desc (x : A) (l : list A) : list A :=
    match l with
    | [] => [x]
    | y :: l' => if str_ltb (key x) (key y) then y :: insert_desc x l' else x :: l
    end.
  Definition sort_desc (l : list A) : list A := fold_right insert_desc [] l.
End Sort.

Definition sort_hosts_rhp (hosts : list str) : list str :=
  match hosts with
  | [] | [_] => hosts                                  (* len(hosts) < 2 *)
  | _ => map reverse_host_port (sort_desc (fun x => x) (map reverse_host_port hosts))
  end.

(* ---------- the table ---------- *)
Definition route := (str * N)%type.                    (* path, route id *)
Definition table := list (str * list route).           (* host key -> routes *)

Fixpoint assoc (t : table) (k : str) : list route :=
  match t with
  | [] => []
  | (k', rs) :: t' => if beq k' k then rs else assoc t' k
  end.

(* addRoute: a second definition of the same host/path adds a target to the
   existing route (the route keeps its first target = its id) *)
Fixpoint add_to_routes (rs : list route) (path : str) (id : N) : list route :=
  match rs with
  | [] => [(path, id)]
  | (p, i) :: rs' => if beq p path then rs else (p, i) :: add_to_routes rs' path id
  end.

Fixpoint add_route (t : table) (key path : str) (id : N) : table :=
  match t with
  | [] => [(key, [(path, id)])]
  | (k, rs) :: t' => if beq k key then (k, add_to_routes rs path id) :: t'
                     else (k, rs) :: add_route t' key path id
  end.

Definition def := (str * str * N)%type.                (* host as written, path, id *)

Definition add_defs (defs : list def) : table :=
  fold_left (fun t d => let '(h, p, id) := d in add_route t (lower h) p id) defs [].

(* NewTable: add every definition, then sort each host's routes by path, descending *)
Definition new_table (defs : list def) : table :=
  map (fun e => (fst e, sort_desc (fun r : route => fst r) (snd e))) (add_defs defs).

(* ---------- matchers (route/matcher.go) ---------- *)
Inductive matcher := MPrefix | MIPrefix | MGlob.

Definition path_match (m : matcher) (uri path : str) : bool :=
  match m with
  | MPrefix => has_prefix uri path
  | MIPrefix => has_prefix (lower uri) (lower path)
  | MGlob => gobwas_match path uri
  end.

(* the same with glob semantics proper (specification side) *)
Definition spec_path_match (m : matcher) (uri path : str) : bool :=
  match m with
  | MGlob => glob_match path uri
  | _ => path_match m uri path
  end.

(* ---------- matchingHosts / matchingHostNoGlob ---------- *)
Definition matching_hosts (t : table) (host : str) (tls : bool) : list str :=
  sort_hosts_rhp
    (filter (fun k => gobwas_match (normalize_host k tls) (normalize_host host tls)) (map fst t)).

(* since /repo 3f5e3c8 the request host is lower-cased here too (normalizeHost) *)
Definition matching_host_noglob (t : table) (host : str) (tls : bool) : list str :=
  sort_hosts_rhp
    (map lower (filter (fun k => beq (normalize_host k tls) (normalize_host host tls)) (map fst t))).

(* the code before 3f5e3c8 (normalizeHostNoLower: the host keeps its letter case);
   kept only for the refutation theorem [noglob_upper_host_refuted] *)
Definition matching_host_noglob_unrepaired (t : table) (host : str) (tls : bool) : list str :=
  sort_hosts_rhp
    (map lower (filter (fun k => beq (normalize_host k tls) (strip_port host tls)) (map fst t))).

(* ---------- lookup / Lookup ---------- *)
Definition cand := (str * str * N)%type.                (* host key, path, id *)

Definition lookup1 (t : table) (h uri : str) (m : matcher) : option cand :=
  match find (fun r : route => path_match m uri (fst r)) (assoc t (lower h)) with
  | Some (p, id) => Some (lower h, p, id)
  | None => None
  end.

Fixpoint first_some {A B} (f : A -> option B) (l : list A) : option B :=
  match l with
  | [] => None
  | x :: l' => match f x with Some b => Some b | None => first_some f l' end
  end.

Definition lookup (t : table) (host : str) (tls : bool) (uri : str) (m : matcher)
           (globoff : bool) : option cand :=
  let hosts := if globoff then matching_host_noglob t host tls else matching_hosts t host tls in
  first_some (fun h => lookup1 t h uri m) (hosts ++ [[]]).

(* Lookup before 3f5e3c8, glob matching disabled (refutation theorem only) *)
Definition lookup_noglob_unrepaired (t : table) (host : str) (tls : bool) (uri : str) (m : matcher)
  : option cand :=
  first_some (fun h => lookup1 t h uri m) (matching_host_noglob_unrepaired t host tls ++ [[]]).

(* =================== specification side =================== *)
Definition all_routes (t : table) : list cand :=
  flat_map (fun e => map (fun r : route => (fst e, fst r, snd r)) (snd e)) t.

Definition is_nil {A} (l : list A) : bool := match l with [] => true | _ => false end.

(* the route's host pattern matches the request host, case-insensitively, default
   port removed; with glob matching disabled patterns are literal host names *)
Definition spec_host_match (globoff tls : bool) (key host : str) : bool :=
  let nk := normalize_host key tls in
  let nh := normalize_host host tls in
  if globoff then beq nk nh else glob_match nk nh.

Definition is_candidate (globoff tls : bool) (m : matcher) (host uri : str) (c : cand) : bool :=
  let '(k, p, _) := c in
  (is_nil k || spec_host_match globoff tls k host) && spec_path_match m uri p.

Definition candidates (t : table) globoff tls m host uri : list cand :=
  filter (is_candidate globoff tls m host uri) (all_routes t).

(* the host-name part of a pattern or host: what precedes the last colon, if any *)
Definition host_part (s : str) : str :=
  match last_index_byte s ch_colon with
  | Some i => firstn i s
  | None => s
  end.

(* how specific a host key is: no host / a wildcard with a literal host suffix of
   the given length (what follows the last metacharacter of the host-name part) /
   an exact host *)
Inductive hclass := HNone | HWild (tail : nat) | HExact.

Definition host_class (globoff tls : bool) (key : str) : hclass :=
  if is_nil key then HNone
  else let nk := normalize_host key tls in
       if globoff || negb (has_meta nk) then HExact else HWild (length (lit_tail (host_part nk))).

Definition host_beats (a b : hclass) : bool :=
  match a, b with
  | HExact, HWild _ => true                 (* an exact host beats a wildcard host *)
  | HWild n, HWild k => Nat.ltb k n         (* a longer host suffix beats a shorter one *)
  | HExact, HNone => true                   (* host-less routes come last *)
  | HWild _, HNone => true
  | _, _ => false
  end.

Definition is_prefix_matcher (m : matcher) : bool :=
  match m with MGlob => false | _ => true end.

(* [beats c' c]: candidate c' is strictly more specific than candidate c *)
Definition beats (globoff tls : bool) (m : matcher) (c' c : cand) : bool :=
  let '(k', p', _) := c' in
  let '(k, p, _) := c in
  host_beats (host_class globoff tls k') (host_class globoff tls k)
  || (beq k' k && is_prefix_matcher m && Nat.ltb (length p) (length p')).

Definition cand_eqb (a b : cand) : bool :=
  let '(k, p, i) := a in let '(k', p', i') := b in beq k k' && beq p p' && (i =? i').

(* the property, decided by brute force over all routes of the table:
   the selected route is a candidate, no candidate beats it, and something is
   selected whenever a candidate exists *)
Definition spec_b (t : table) globoff tls m host uri (sel : option cand) : bool :=
  let cs := candidates t globoff tls m host uri in
  match sel with
  | None => is_nil cs
  | Some c => existsb (cand_eqb c) cs && forallb (fun c' => negb (beats globoff tls m c' c)) cs
  end.

(* =================== finding regions =================== *)
Definition has_upper (s : str) : bool := existsb is_upper s.
Definition keys (t : table) : list str := map fst t.
Definition ends_with_colon (s : str) : bool :=
  match rev s with c :: _ => c =? ch_colon | [] => false end.

(* 1 (repaired in /repo by 3f5e3c8; no longer part of [region], kept for the refutation
      theorem about the unrepaired code): glob matching disabled and the Host header has
      an upper-case letter *)
Definition F_C03_upper_host_noglob (globoff : bool) (host : str) : bool :=
  globoff && has_upper host.
(* 2: iprefix matcher and some route path has an upper-case letter (the routes are
      sorted by raw bytes but matched case-insensitively) *)
Definition F_C03_iprefix_case (m : matcher) (t : table) : bool :=
  match m with MIPrefix => existsb (fun c : cand => has_upper (snd (fst c))) (all_routes t) | _ => false end.
(* 3: some host key has a metacharacter other than '*' *)
Definition F_C03_metachar_order (globoff : bool) (t : table) : bool :=
  negb globoff && existsb (fun k => negb (star_only k)) (keys t).
(* 4: some wildcard key's literal host suffix is the whole (normalised) host name:
      the star matches the empty string *)
Definition F_C03_empty_star (globoff tls : bool) (t : table) (host : str) : bool :=
  negb globoff &&
  existsb (fun k => let nk := normalize_host k tls in
                    has_meta nk && beq (lit_tail (host_part nk)) (host_part (normalize_host host tls))) (keys t).
(* 5: some host key ends with ':' (ReverseHostPort applied twice drops the colon) *)
Definition F_C03_colon_key (t : table) : bool := existsb ends_with_colon (keys t).

(* 6: gobwas/glob deviates from glob semantics on some host key or (glob matcher)
      some route path of the table for this request *)
Definition F_C03_gobwas_overlap (globoff tls : bool) (m : matcher) (t : table) (host uri : str) : bool :=
  (negb globoff &&
   existsb (fun k => gobwas_deviates (normalize_host k tls) (normalize_host host tls)) (keys t))
  || match m with
     | MGlob => existsb (fun c : cand => gobwas_deviates (snd (fst c)) uri) (all_routes t)
     | _ => false
     end.

Definition region (t : table) globoff tls m host uri : option N :=
  if F_C03_colon_key t then Some 5
  else if F_C03_gobwas_overlap globoff tls m t host uri then Some 6
  else if F_C03_iprefix_case m t then Some 2
  else if F_C03_empty_star globoff tls t host then Some 4
  else if F_C03_metachar_order globoff t then Some 3
  else None.

(* domain of the model (the harness excludes and counts everything else) *)
Definition no_bracket (s : str) : bool := negb (existsb (fun c => (c =? 91) || (c =? 93)) s).
Definition key_domain (k : str) : bool :=
  glob_domain k && no_bracket k && match k with c :: _ => negb (c =? ch_colon) | [] => true end.
