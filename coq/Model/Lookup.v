(** Model of fabio's route selection, transcribed from route/table.go
    (addRoute 149-193, NewTable's sort 113-116, normalizeHost 296-308,
    matchingHosts 312-333, matchingHostNoGlob 339-350, sortHostsReverseHostPort
    352-372, ReverseHostPort 376-393, Lookup 399-444, lookup 450-475),
    route/routes.go (Less 19) and route/matcher.go, defects included, followed
    by the specification side (candidates and the strict order [beats], written
    without reference to any sorting) and the named finding regions.
    No proofs in this file.

    Not modelled: targets/pickers (every route has >= 1 target; the harness gives
    each route one service name and a picker that returns Targets[0]), the
    redirect self-skip of Lookup 425-434 (no redirect options are generated),
    trace logging.  Domain: ASCII; keys and hosts contain no '[' or ']'
    (net.SplitHostPort's bracket syntax), keys do not start with ':' (those are
    TCP listener routes, hostpath 78-80). *)
From Coq Require Import List NArith Bool.
From Fabio Require Import Lib.Bytes Model.Glob.
Import ListNotations.
Local Open Scope N_scope.

(* ---------- normalizeHost ---------- *)
Definition s_80 : str := [58; 56; 48].          (* ":80" *)
Definition s_443 : str := [58; 52; 52; 51].     (* ":443" *)
Definition drop_last (n : nat) (s : str) : str := firstn (length s - n) s.

Definition strip_port (host : str) (tls : bool) : str :=
  if negb tls && has_suffix host s_80 then drop_last 3 host
  else if tls && has_suffix host s_443 then drop_last 4 host
  else host.

Definition normalize_host (host : str) (tls : bool) : str := lower (strip_port host tls).

(* ---------- net.SplitHostPort / JoinHostPort on strings that do not START with '[' ----------
   result (host, port); ("","") where Go returns an error *)
Definition ch_colon : N := 58.
Definition has_colon (s : str) : bool := existsb (fun c => c =? ch_colon) s.

(* net.SplitHostPort (go1.24 net/ipsock.go), errors and the success with empty host and
   empty port both as ([], []) - ReverseHostPort cannot tell them apart.  A leading '['
   opens an IPv6 literal: "[h]:p" gives (h, p). *)
Definition starts_bracket (s : str) : bool := match s with c :: _ => c =? 91 | [] => false end.
Definition split_host_port (s : str) : str * str :=
  match last_index_byte s ch_colon with
  | None => ([], [])                                  (* missing port *)
  | Some i =>
      if starts_bracket s then
        match index_byte s 93 with
        | None => ([], [])                            (* missing ']' in address *)
        | Some e =>
            if Nat.eqb (S e) i then
              if existsb (fun c => c =? 91) (skipn 1 s) || existsb (fun c => c =? 93) (skipn (S e) s)
              then ([], [])                           (* unexpected '[' / ']' in address *)
              else (firstn (e - 1) (skipn 1 s), skipn (S i) s)
            else ([], [])                             (* missing port / too many colons *)
        end
      else
        let host := firstn i s in
        if has_colon host then ([], [])               (* too many colons *)
        else if existsb (fun c => (c =? 91) || (c =? 93)) s then ([], [])
                                                      (* unexpected '[' / ']' in address *)
        else (host, skipn (S i) s)
  end.

Definition join_host_port (host port : str) : str :=
  if has_colon host then [91] ++ host ++ [93; 58] ++ port
  else host ++ [58] ++ port.

(* ReverseHostPort *)
Definition reverse_host_port (s : str) : str :=
  let '(h0, p) := split_host_port s in
  let h := match h0 with [] => s | _ => h0 end in
  match p with
  | [] => rev h
  | _ => join_host_port (rev h) p
  end.

(* ---------- sort.Sort(sort.Reverse(...)): descending byte order ----------
   (the elements sorted are pairwise distinct in both uses, so the result does not
   depend on the sorting algorithm) *)
Section Sort.
  Context {A : Type} (ltb : A -> A -> bool).           (* strict "sorts below" *)
  Fixpoint insert_desc (x : A) (l : list A) : list A :=
    match l with
    | [] => [x]
    | y :: l' => if ltb x y then y :: insert_desc x l' else x :: l
    end.
  Definition sort_desc (l : list A) : list A := fold_right insert_desc [] l.
End Sort.

(* sortHostsReverseHostPort before /repo bc98e3c: reverse, sort descending, reverse *)
Definition sort_hosts_rhp_unrepaired (hosts : list str) : list str :=
  match hosts with
  | [] | [_] => hosts                                  (* len(hosts) < 2 *)
  | _ => map reverse_host_port (sort_desc str_ltb (map reverse_host_port hosts))
  end.

(* since bc98e3c + 1814501: then sort.SliceStable moves the exact hosts (non-empty, none
   of * ? [ { \) to the front, order otherwise kept (a stable sort on a two-valued key =
   a stable partition); the empty key of the host-less routes is not a host and stays
   where the reverse sort put it *)
Definition is_glob_char (c : N) : bool :=
  (c =? 42) || (c =? 63) || (c =? 91) || (c =? 123) || (c =? 92).
Definition is_exact_host (h : str) : bool :=
  match h with [] => false | _ => negb (existsb is_glob_char h) end.
Definition partition_exact (l : list str) : list str :=
  filter is_exact_host l ++ filter (fun h => negb (is_exact_host h)) l.

(* the intermediate state bc98e3c (before 1814501): the empty key counted as exact;
   refutation theorem [empty_host_hostless_first_refuted] only *)
Definition is_exact_host_bc98e3c (h : str) : bool := negb (existsb is_glob_char h).
Definition sort_hosts_rhp_bc98e3c (hosts : list str) : list str :=
  match hosts with
  | [] | [_] => hosts
  | _ => let l := map reverse_host_port (sort_desc str_ltb (map reverse_host_port hosts)) in
         filter is_exact_host_bc98e3c l ++ filter (fun h => negb (is_exact_host_bc98e3c h)) l
  end.

(* the state 1814501 (before /repo cf1c479): ReverseHostPort mapped over the slice, sort,
   mapped again -- the hosts handed on were the twice-reversed strings, not the keys
   (a trailing ':' was lost); refutation theorem [colon_key_refuted] only *)
Definition sort_hosts_rhp_double_unrepaired (hosts : list str) : list str :=
  match hosts with
  | [] | [_] => hosts
  | _ => partition_exact
           (map reverse_host_port (sort_desc str_ltb (map reverse_host_port hosts)))
  end.

(* since cf1c479: the reversed strings are only sort keys.  less(i,j): the reversed strings
   descending, the hosts themselves descending among equal reversed strings (a total order
   on distinct strings; duplicates are equal strings).  [host_ltb a b] = "a sorts after b". *)
Definition host_ltb (a b : str) : bool :=
  let ra := reverse_host_port a in
  let rb := reverse_host_port b in
  if beq ra rb then str_ltb a b else str_ltb ra rb.

Definition sort_hosts_rhp (hosts : list str) : list str :=
  match hosts with
  | [] | [_] => hosts                                  (* len(hosts) < 2: unchanged *)
  | _ => partition_exact (sort_desc host_ltb hosts)
  end.

(* ---------- the table ---------- *)
Definition route := (str * N)%type.                    (* path, route id *)
Definition table := list (str * list route).           (* host key -> routes *)

Fixpoint assoc (t : table) (k : str) : list route :=
  match t with
  | [] => []
  | (k', rs) :: t' => if beq k' k then rs else assoc t' k
  end.

(* addRoute: a second definition of the same host/path adds a target to the
   existing route (the route keeps its first target = its id) *)
Fixpoint add_to_routes (rs : list route) (path : str) (id : N) : list route :=
  match rs with
  | [] => [(path, id)]
  | (p, i) :: rs' => if beq p path then rs else (p, i) :: add_to_routes rs' path id
  end.

Fixpoint add_route (t : table) (key path : str) (id : N) : table :=
  match t with
  | [] => [(key, [(path, id)])]
  | (k, rs) :: t' => if beq k key then (k, add_to_routes rs path id) :: t'
                     else (k, rs) :: add_route t' key path id
  end.

Definition def := (str * str * N)%type.                (* host as written, path, id *)

Definition add_defs (defs : list def) : table :=
  fold_left (fun t d => let '(h, p, id) := d in add_route t (lower h) p id) defs [].

(* Routes.Less since /repo c1f03c0: lower-cased paths descending, raw bytes descending
   among paths that differ only in letter case.  [route_ltb a b] = "a sorts after b". *)
Definition route_ltb (a b : route) : bool :=
  let la := lower (fst a) in
  let lb := lower (fst b) in
  if beq la lb then str_ltb (fst a) (fst b) else str_ltb la lb.
(* before c1f03c0: raw bytes only *)
Definition route_ltb_unrepaired (a b : route) : bool := str_ltb (fst a) (fst b).

(* NewTable: add every definition, then sort each host's routes *)
Definition new_table (defs : list def) : table :=
  map (fun e => (fst e, sort_desc route_ltb (snd e))) (add_defs defs).
Definition new_table_unrepaired (defs : list def) : table :=
  map (fun e => (fst e, sort_desc route_ltb_unrepaired (snd e))) (add_defs defs).

(* ---------- matchers (route/matcher.go) ---------- *)
Inductive matcher := MPrefix | MIPrefix | MGlob.

Definition path_match (m : matcher) (uri path : str) : bool :=
  match m with
  | MPrefix => has_prefix uri path
  | MIPrefix => has_prefix (lower uri) (lower path)
  | MGlob => gobwas_match path uri
  end.

(* the same with glob semantics proper (specification side) *)
Definition spec_path_match (m : matcher) (uri path : str) : bool :=
  match m with
  | MGlob => glob_match path uri
  | _ => path_match m uri path
  end.

(* ---------- matchingHosts / matchingHostNoGlob ---------- *)
Definition matching_hosts (t : table) (host : str) (tls : bool) : list str :=
  sort_hosts_rhp
    (filter (fun k => gobwas_match (normalize_host k tls) (normalize_host host tls)) (map fst t)).

(* since /repo 3f5e3c8 the request host is lower-cased here too (normalizeHost) *)
Definition matching_host_noglob (t : table) (host : str) (tls : bool) : list str :=
  sort_hosts_rhp
    (map lower (filter (fun k => beq (normalize_host k tls) (normalize_host host tls)) (map fst t))).

(* the code before 3f5e3c8 (normalizeHostNoLower: the host keeps its letter case);
   kept only for the refutation theorem [noglob_upper_host_refuted] *)
Definition matching_host_noglob_unrepaired (t : table) (host : str) (tls : bool) : list str :=
  sort_hosts_rhp_unrepaired
    (map lower (filter (fun k => beq (normalize_host k tls) (strip_port host tls)) (map fst t))).

(* ---------- lookup / Lookup ---------- *)
Definition cand := (str * str * N)%type.                (* host key, path, id *)

Definition lookup1 (t : table) (h uri : str) (m : matcher) : option cand :=
  match find (fun r : route => path_match m uri (fst r)) (assoc t (lower h)) with
  | Some (p, id) => Some (lower h, p, id)
  | None => None
  end.

Fixpoint first_some {A B} (f : A -> option B) (l : list A) : option B :=
  match l with
  | [] => None
  | x :: l' => match f x with Some b => Some b | None => first_some f l' end
  end.

Definition lookup (t : table) (host : str) (tls : bool) (uri : str) (m : matcher)
           (globoff : bool) : option cand :=
  let hosts := if globoff then matching_host_noglob t host tls else matching_hosts t host tls in
  first_some (fun h => lookup1 t h uri m) (hosts ++ [[]]).

(* Lookup with glob matching enabled and the host order of before bc98e3c (refutation
   theorems only) *)
Definition matching_hosts_unrepaired (t : table) (host : str) (tls : bool) : list str :=
  sort_hosts_rhp_unrepaired
    (filter (fun k => gobwas_match (normalize_host k tls) (normalize_host host tls)) (map fst t)).
Definition lookup_glob_unrepaired (t : table) (host : str) (tls : bool) (uri : str) (m : matcher)
  : option cand :=
  first_some (fun h => lookup1 t h uri m) (matching_hosts_unrepaired t host tls ++ [[]]).

(* Lookup with glob matching enabled and the host order of bc98e3c before its follow-up
   1814501 (refutation theorem only) *)
Definition lookup_glob_bc98e3c (t : table) (host : str) (tls : bool) (uri : str) (m : matcher)
  : option cand :=
  first_some (fun h => lookup1 t h uri m)
    (sort_hosts_rhp_bc98e3c
       (filter (fun k => gobwas_match (normalize_host k tls) (normalize_host host tls)) (map fst t))
     ++ [[]]).

(* Lookup with glob matching enabled and the host sort of 1814501, before cf1c479
   (refutation theorem only) *)
Definition matching_hosts_double_unrepaired (t : table) (host : str) (tls : bool) : list str :=
  sort_hosts_rhp_double_unrepaired
    (filter (fun k => gobwas_match (normalize_host k tls) (normalize_host host tls)) (map fst t)).
Definition lookup_glob_double_unrepaired (t : table) (host : str) (tls : bool) (uri : str)
           (m : matcher) : option cand :=
  first_some (fun h => lookup1 t h uri m) (matching_hosts_double_unrepaired t host tls ++ [[]]).

(* Lookup before 3f5e3c8, glob matching disabled (refutation theorem only) *)
Definition lookup_noglob_unrepaired (t : table) (host : str) (tls : bool) (uri : str) (m : matcher)
  : option cand :=
  first_some (fun h => lookup1 t h uri m) (matching_host_noglob_unrepaired t host tls ++ [[]]).

(* =================== specification side =================== *)
Definition all_routes (t : table) : list cand :=
  flat_map (fun e => map (fun r : route => (fst e, fst r, snd r)) (snd e)) t.

Definition is_nil {A} (l : list A) : bool := match l with [] => true | _ => false end.

(* the route's host pattern matches the request host, case-insensitively, default
   port removed; with glob matching disabled patterns are literal host names *)
Definition spec_host_match (globoff tls : bool) (key host : str) : bool :=
  let nk := normalize_host key tls in
  let nh := normalize_host host tls in
  if globoff then beq nk nh else glob_match nk nh.

Definition is_candidate (globoff tls : bool) (m : matcher) (host uri : str) (c : cand) : bool :=
  let '(k, p, _) := c in
  (is_nil k || spec_host_match globoff tls k host) && spec_path_match m uri p.

Definition candidates (t : table) globoff tls m host uri : list cand :=
  filter (is_candidate globoff tls m host uri) (all_routes t).

(* the host-name part of a pattern or host: what precedes the last colon, if any *)
Definition host_part (s : str) : str :=
  match last_index_byte s ch_colon with
  | Some i => firstn i s
  | None => s
  end.

(* how specific a host key is: no host / a wildcard with a literal host suffix of
   the given length (what follows the last metacharacter of the host-name part) /
   an exact host *)
Inductive hclass := HNone | HWild (tail : nat) | HExact.

Definition host_class (globoff tls : bool) (key : str) : hclass :=
  if is_nil key then HNone
  else let nk := normalize_host key tls in
       if globoff || negb (has_meta nk) then HExact else HWild (length (lit_tail (host_part nk))).

Definition host_beats (a b : hclass) : bool :=
  match a, b with
  | HExact, HWild _ => true                 (* an exact host beats a wildcard host *)
  | HWild n, HWild k => Nat.ltb k n         (* a longer host suffix beats a shorter one *)
  | HExact, HNone => true                   (* host-less routes come last *)
  | HWild _, HNone => true
  | _, _ => false
  end.

Definition is_prefix_matcher (m : matcher) : bool :=
  match m with MGlob => false | _ => true end.

(* [beats c' c]: candidate c' is strictly more specific than candidate c *)
Definition beats (globoff tls : bool) (m : matcher) (c' c : cand) : bool :=
  let '(k', p', _) := c' in
  let '(k, p, _) := c in
  host_beats (host_class globoff tls k') (host_class globoff tls k)
  || (beq k' k && is_prefix_matcher m && Nat.ltb (length p) (length p')).

Definition cand_eqb (a b : cand) : bool :=
  let '(k, p, i) := a in let '(k', p', i') := b in beq k k' && beq p p' && (i =? i').

(* the property, decided by brute force over all routes of the table:
   the selected route is a candidate, no candidate beats it, and something is
   selected whenever a candidate exists *)
Definition spec_b (t : table) globoff tls m host uri (sel : option cand) : bool :=
  let cs := candidates t globoff tls m host uri in
  match sel with
  | None => is_nil cs
  | Some c => existsb (cand_eqb c) cs && forallb (fun c' => negb (beats globoff tls m c' c)) cs
  end.

(* =================== finding regions =================== *)
Definition has_upper (s : str) : bool := existsb is_upper s.
Definition keys (t : table) : list str := map fst t.
Definition ends_with_colon (s : str) : bool :=
  match rev s with c :: _ => c =? ch_colon | [] => false end.

(* 1 (repaired in /repo by 3f5e3c8; no longer part of [region], kept for the refutation
      theorem about the unrepaired code): glob matching disabled and the Host header has
      an upper-case letter *)
Definition F_C03_upper_host_noglob (globoff : bool) (host : str) : bool :=
  globoff && has_upper host.
(* 2 (repaired by c1f03c0; no longer part of [region]): iprefix matcher and some route
      path has an upper-case letter (routes were sorted by raw bytes but matched
      case-insensitively) *)
Definition F_C03_iprefix_case (m : matcher) (t : table) : bool :=
  match m with MIPrefix => existsb (fun c : cand => has_upper (snd (fst c))) (all_routes t) | _ => false end.
(* 3, before bc98e3c (refutation theorem only): some host key has a metacharacter other than '*' *)
Definition F_C03_metachar_order_unrepaired (globoff : bool) (t : table) : bool :=
  negb globoff && existsb (fun k => negb (star_only k)) (keys t).
(* 3, what is left after bc98e3c (exact hosts now come first): AMONG PATTERNS.  Two host
      keys k1, k2 both match the host, both are patterns, k2 has the longer literal host
      suffix, and the metacharacter m that directly precedes k1's literal suffix ('*' = 42 or
      '?' = 63) is >= the host byte d that precedes that suffix in the host (the byte of k2's
      longer suffix it is compared with in the reversed-name sort): then k1, the pattern with
      the SHORTER suffix, is not sorted after k2.  d <= '?' are digits, '-', '.', ':' ...;
      d <= '*' are the bytes 33..42: exclamation mark, double quote, # $ % & ' ( ) and '*'. *)
Definition meta_before_tail (hp : str) : option N := nth_error (rev hp) (length (lit_tail hp)).
Definition byte_before (s t : str) : option N :=
  if has_suffix s t then nth_error (rev s) (length t) else None.
Definition low_pair (tls : bool) (nh k1 k2 : str) : bool :=
  let nk1 := normalize_host k1 tls in
  let nk2 := normalize_host k2 tls in
  let t1 := lit_tail (host_part nk1) in
  let t2 := lit_tail (host_part nk2) in
  has_meta nk1 && has_meta nk2 && glob_match nk1 nh && glob_match nk2 nh
  && Nat.ltb (length t1) (length t2)
  && match meta_before_tail (host_part nk1) with
     | Some m => match byte_before nh t1 with Some d => d <=? m | None => false end
                 || match byte_before (host_part nh) t1 with Some d => d <=? m | None => false end
     | None => false
     end.
Definition F_C03_metachar_order (globoff tls : bool) (t : table) (host : str) : bool :=
  negb globoff &&
  existsb (fun k1 => existsb (low_pair tls (normalize_host host tls) k1) (keys t)) (keys t).
(* 4 (repaired by bc98e3c; no longer part of [region]): some wildcard key's literal host
      suffix is the whole (normalised) host name: the star matches the empty string *)
Definition F_C03_empty_star (globoff tls : bool) (t : table) (host : str) : bool :=
  negb globoff &&
  existsb (fun k => let nk := normalize_host k tls in
                    has_meta nk && beq (lit_tail (host_part nk)) (host_part (normalize_host host tls))) (keys t).
(* 5 (repaired by cf1c479; no longer part of [region]): some host key ends with ':'
      (ReverseHostPort applied twice dropped the colon) *)
Definition F_C03_colon_key (t : table) : bool := existsb ends_with_colon (keys t).

(* 6: the route selected is one on whose host key, or (glob matcher) on whose path,
      gobwas/glob deviates from glob semantics for this request (the deviations only ADD
      matches, so nothing else of the table can change the outcome) *)
Definition F_C03_gobwas_overlap (globoff tls : bool) (m : matcher) (t : table) (host uri : str) : bool :=
  match lookup t host tls uri m globoff with
  | Some (k, p, _) =>
      (negb globoff && negb (is_nil k)
       && gobwas_deviates (normalize_host k tls) (normalize_host host tls))
      || match m with MGlob => gobwas_deviates p uri | _ => false end
  | None => false
  end.

(* 7 (introduced by bc98e3c, repaired by 1814501; no longer part of [region]): the normalised request host is empty (no Host header, or
      just the default port) and the table has host-less routes: the key "" glob-matches
      the empty host, counts as an exact host and is moved in front of every matching
      pattern, so host-less routes are tried BEFORE host-specific wildcard routes *)
Definition F_C03_empty_host (tls : bool) (t : table) (host : str) : bool :=
  is_nil (normalize_host host tls) && existsb is_nil (keys t).

Definition region (t : table) globoff tls m host uri : option N :=
  if F_C03_gobwas_overlap globoff tls m t host uri then Some 6
  else if F_C03_metachar_order globoff tls t host then Some 3
  else None.

(* domain of the model (the harness excludes and counts everything else) *)
Definition no_bracket (s : str) : bool := negb (existsb (fun c => (c =? 91) || (c =? 93)) s).
Definition key_domain (k : str) : bool :=
  glob_domain k && no_bracket k && match k with c :: _ => negb (c =? ch_colon) | [] => true end.
