(** Model of registry/consul/passing.go ([passingServices], [isServiceCheck], [hasStatus]),
    of [checksWithTagPrefix], [ServiceMonitor.makeConfig] and [serviceConfig]
    (registry/consul/service.go) and of the part of routecmd.go that decides WHICH tags of a
    catalog entry yield a route command (the text of a command is property C14's subject:
    here the commands [routecmd.build] produced for an entry are data carried by the entry,
    and the model only checks that there is at most one per route tag: since /repo d16ce3d
    build drops a command that route.NewTable rejects on its own).
    Strings are byte strings; tags are assumed ASCII where [strings.TrimSpace] is involved. *)
From Coq Require Import String List NArith Bool.
From Fabio Require Import Lib.Outcome Lib.Bytes.
Import ListNotations.
Local Open Scope N_scope.

(* api.HealthCheck, the fields the code reads *)
Record hcheck := mkCheck {
  c_node : str;          (* Node *)
  c_id : str;            (* CheckID *)
  c_sid : str;           (* ServiceID *)
  c_sname : str;         (* ServiceName *)
  c_status : str;        (* Status *)
  c_tags : list str      (* ServiceTags *)
}.

Definition s_serfHealth : str := bs "serfHealth".
Definition s_node_maintenance : str := bs "_node_maintenance".
Definition s_service_maintenance_colon : str := bs "_service_maintenance:".
Definition s_service_maintenance : str := bs "_service_maintenance".
Definition s_critical : str := bs "critical".

(* hasStatus *)
Definition has_status (c : hcheck) (status : list str) : bool :=
  existsb (fun s => beq (c_status c) s) status.

(* isServiceCheck *)
Definition is_service_check (c : hcheck) : bool :=
  negb (beq (c_sid c) []) &&
  negb (beq (c_id c) s_serfHealth) &&
  negb (beq (c_id c) s_node_maintenance) &&
  negb (has_prefix (c_id c) s_service_maintenance_colon).

(* the inner loop `for _, c := range checks` for one [svc]; [None] = `continue CHECKS`
   was taken, [Some (total, passing)] = the loop ran to its end with these counters *)
Fixpoint inner_loop (svc : hcheck) (status : list str) (cs : list hcheck) (total passing : N)
  : option (N * N) :=
  match cs with
  | [] => Some (total, passing)
  | c :: r =>
      if beq (c_node svc) (c_node c) then
        let same := beq (c_sid svc) (c_sid c) in
        let total' := if same then total + 1 else total in
        let passing' := if same && has_status c status then passing + 1 else passing in
        if beq (c_id c) s_serfHealth && beq (c_status c) s_critical then None
        else if beq (c_id c) s_node_maintenance then None
        else if beq (c_id c) (s_service_maintenance_colon ++ c_sid svc) && beq (c_status c) s_critical then None
        else inner_loop svc status r total' passing'
      else inner_loop svc status r total passing
  end.

(* the body of the outer loop: is [svc] appended to p? *)
Definition keeps (all : list hcheck) (status : list str) (strict : bool) (svc : hcheck) : bool :=
  if negb (is_service_check svc) then false
  else match inner_loop svc status all 0 0 with
       | None => false
       | Some (total, passing) =>
           if passing =? 0 then false
           else if strict && negb (total =? passing) then false
           else true
       end.

(* the outer loop `for _, svc := range checks`, appending to p *)
Fixpoint outer_loop (all : list hcheck) (status : list str) (strict : bool) (cs : list hcheck) : list hcheck :=
  match cs with
  | [] => []
  | svc :: r => if keeps all status strict svc then svc :: outer_loop all status strict r
                else outer_loop all status strict r
  end.

(* passingServices(checks, status, strict) *)
Definition passing_services (checks : list hcheck) (status : list str) (strict : bool) : list hcheck :=
  outer_loop checks status strict checks.

(* strings.TrimSpace on ASCII input: \t \n \v \f \r and space *)
Definition is_space (c : N) : bool := (c =? 32) || ((9 <=? c) && (c <=? 13)).
Fixpoint trim_left (s : str) : str :=
  match s with
  | c :: r => if is_space c then trim_left r else s
  | [] => []
  end.
Definition trim_space (s : str) : str := rev (trim_left (rev (trim_left s))).

(* checksWithTagPrefix, after the repair (fix: commit fdfd589 in /repo): the tag is trimmed
   before the prefix test, as routecmd.build does.  Note the check-id prefix
   "_service_maintenance" without the colon. *)
Definition tag_kept (prefix : str) (c : hcheck) : bool :=
  beq (c_id c) s_serfHealth || beq (c_id c) s_node_maintenance
  || has_prefix (c_id c) s_service_maintenance
  || existsb (fun t => has_prefix (trim_space t) prefix) (c_tags c).
Definition checks_with_tag_prefix (prefix : str) (checks : list hcheck) : list hcheck :=
  filter (tag_kept prefix) checks.
(* the filter as it was before fdfd589: the tag compared WITHOUT trimming; kept for the
   refutation theorem only *)
Definition tag_kept_unrepaired (prefix : str) (c : hcheck) : bool :=
  beq (c_id c) s_serfHealth || beq (c_id c) s_node_maintenance
  || has_prefix (c_id c) s_service_maintenance
  || existsb (fun t => has_prefix t prefix) (c_tags c).
Definition checks_with_tag_prefix_unrepaired (prefix : str) (checks : list hcheck) : list hcheck :=
  filter (tag_kept_unrepaired prefix) checks.

(* ---- routecmd.build: which tags are route tags ---- *)
(* the routetags list of routecmd.build; parseURLPrefixTag returns ok for every one of
   them (its only `false` returns are a missing prefix and a dead branch), so every route
   tag yields exactly one candidate command (which build keeps iff it validates, d16ce3d) *)
Definition route_tags (prefix : str) (tags : list str) : list str :=
  filter (fun t => has_prefix t prefix) (map trim_space tags).

(* api.CatalogService as far as needed, plus the commands routecmd.build gave for it *)
Record centry := mkEntry {
  e_node : str;          (* Node *)
  e_sid : str;           (* ServiceID *)
  e_sname : str;         (* ServiceName *)
  e_tags : list str;     (* ServiceTags *)
  e_cmds : list str      (* data: routecmd{svc, prefix, env}.build() *)
}.

(* the map key of makeConfig / serviceConfig, after the repair (fix: commit f815d97 in /repo):
   type instanceKey struct{ node, serviceID string }, compared field by field *)
Definition ikey := (str * str)%type.
Definition inst_key (node sid : str) : ikey := (node, sid).
Definition key_eqb (a b : ikey) : bool := beq (fst a) (fst b) && beq (snd a) (snd b).

(* map[string]map[instanceKey]bool as an association list of key lists, in insertion order *)
Definition smap := list (str * list ikey).
Fixpoint smap_add (m : smap) (name : str) (k : ikey) : smap :=
  match m with
  | [] => [(name, [k])]
  | (n, ks) :: r => if beq n name then (n, if existsb (key_eqb k) ks then ks else ks ++ [k]) :: r
                    else (n, ks) :: smap_add r name k
  end.
Definition group (passing : list hcheck) : smap :=
  fold_left (fun m c => smap_add m (c_sname c) (inst_key (c_node c) (c_sid c))) passing [].

(* Catalog().Service(name, "", q): the entries registered under that service name *)
Definition catalog_service (catalog : list centry) (name : str) : list centry :=
  filter (fun e => beq (e_sname e) name) catalog.

Definition err_cmd_count : N := 1.   (* more commands carried than the entry has route tags *)

Definition entry_cmds (prefix : str) (e : centry) : outcome (list str) :=
  (check Nat.leb (length (e_cmds e)) (length (route_tags prefix (e_tags e))) else err_cmd_count;
   Ok (e_cmds e))%outcome.

Fixpoint service_entries (prefix : str) (keys : list ikey) (svcs : list centry) : outcome (list str) :=
  match svcs with
  | [] => Ok []
  | e :: r =>
      (do rest <- service_entries prefix keys r;
       if existsb (key_eqb (inst_key (e_node e) (e_sid e))) keys
       then (do cs <- entry_cmds prefix e; Ok (cs ++ rest))
       else Ok rest)%outcome
  end.

(* serviceConfig(name, passing) *)
Definition service_config (prefix : str) (catalog : list centry) (name : str) (keys : list ikey)
  : outcome (list str) :=
  if beq name [] || match keys with [] => true | _ => false end then Ok []
  else service_entries prefix keys (catalog_service catalog name).

Fixpoint all_configs (prefix : str) (catalog : list centry) (m : smap) : outcome (list str) :=
  match m with
  | [] => Ok []
  | (name, keys) :: r =>
      (do c <- service_config prefix catalog name keys;
       do rest <- all_configs prefix catalog r;
       Ok (c ++ rest))%outcome
  end.

(* sort.Sort(sort.Reverse(sort.StringSlice(config))): descending byte order *)
Fixpoint insert_desc (x : str) (l : list str) : list str :=
  match l with
  | [] => [x]
  | y :: r => if str_ltb x y then y :: insert_desc x r else x :: l
  end.
Definition sort_desc (l : list str) : list str := fold_right insert_desc [] l.

(* the lines of makeConfig before sorting and joining *)
Definition config_lines (prefix : str) (catalog : list centry) (passing : list hcheck) : outcome (list str) :=
  all_configs prefix catalog (group passing).

(* makeConfig(passing) *)
Definition make_config (prefix : str) (catalog : list centry) (passing : list hcheck) : outcome str :=
  (do ls <- config_lines prefix catalog passing; Ok (join (sort_desc ls) [10]))%outcome.

(* one round of ServiceMonitor.Watch: health state -> tag filter -> passing -> config *)
Definition watch_passing (prefix : str) (status : list str) (strict : bool) (checks : list hcheck) : list hcheck :=
  passing_services (checks_with_tag_prefix prefix checks) status strict.
Definition svc_config (prefix : str) (status : list str) (strict : bool)
           (checks : list hcheck) (catalog : list centry) : outcome str :=
  make_config prefix catalog (watch_passing prefix status strict checks).
(* ---- Consul API errors (since the repair, fix: commit c8f84e8 in /repo) ----
   Catalog().Service(name) can fail; serviceConfig then returns an error, makeConfig returns
   the error and no text whatever the other lookups gave, and the Watch loop logs, sleeps and
   tries again WITHOUT pushing a config and without advancing its index. *)
Definition err_catalog : N := 2.
Definition err_health : N := 3.
(* [failing]: the service names whose lookup fails at this moment *)
Definition catalog_lookup (failing : list str) (catalog : list centry) (name : str) : outcome (list centry) :=
  if existsb (beq name) failing then Err err_catalog else Ok (catalog_service catalog name).
Definition service_config_o (failing : list str) (prefix : str) (catalog : list centry) (name : str) (keys : list ikey)
  : outcome (list str) :=
  if beq name [] || match keys with [] => true | _ => false end then Ok []
  else (do svcs <- catalog_lookup failing catalog name; service_entries prefix keys svcs)%outcome.
Fixpoint all_configs_o (failing : list str) (prefix : str) (catalog : list centry) (m : smap) : outcome (list str) :=
  match m with
  | [] => Ok []
  | (name, keys) :: r =>
      (do c <- service_config_o failing prefix catalog name keys;
       do rest <- all_configs_o failing prefix catalog r;
       Ok (c ++ rest))%outcome
  end.
Definition make_config_o (failing : list str) (prefix : str) (catalog : list centry) (passing : list hcheck) : outcome str :=
  (do ls <- all_configs_o failing prefix catalog (group passing); Ok (join (sort_desc ls) [10]))%outcome.
Definition svc_config_o (failing : list str) (prefix : str) (status : list str) (strict : bool)
           (checks : list hcheck) (catalog : list centry) : outcome str :=
  make_config_o failing prefix catalog (watch_passing prefix status strict checks).

(* what one round of the Watch loop sees: the health query fails, or it returns a state and the
   catalog answers (or fails for some names) *)
Inductive observation :=
| ObsHealthErr
| ObsState (checks : list hcheck) (catalog : list centry) (failing : list str).
Definition observe_config (prefix : str) (status : list str) (strict : bool) (o : observation) : outcome str :=
  match o with
  | ObsHealthErr => Err err_health
  | ObsState checks catalog failing => svc_config_o failing prefix status strict checks catalog
  end.

(* ServiceMonitor.Watch as a whole: the blocking-query loop processes one observation of the
   registry completely (health state -> tag filter -> passing -> catalog lookups -> config ->
   send on the updates channel) before it issues the next query, so the configs are delivered
   in observation order, one per observation that succeeded; a failed round delivers nothing *)
Definition watch_deliveries (prefix : str) (status : list str) (strict : bool)
           (obs : list observation) : list str :=
  flat_map (fun o => match observe_config prefix status strict o with Ok t => [t] | _ => [] end) obs.

(* before c8f84e8: serviceConfig logged the failed lookup and returned nil, i.e. the service
   looked as if it had no catalog entries, and the config was pushed all the same (refutation
   theorem only) *)
Definition svc_config_lookup_unrepaired (failing : list str) (prefix : str) (status : list str) (strict : bool)
           (checks : list hcheck) (catalog : list centry) : outcome str :=
  svc_config prefix status strict checks
             (filter (fun e => negb (existsb (beq (e_sname e)) failing)) catalog).
(* the same round with the filter as it was before fdfd589 (refutation theorem only) *)
Definition svc_config_unrepaired (prefix : str) (status : list str) (strict : bool)
           (checks : list hcheck) (catalog : list centry) : outcome str :=
  make_config prefix catalog
    (passing_services (checks_with_tag_prefix_unrepaired prefix checks) status strict).

(* ---- makeConfig / serviceConfig as they were before f815d97: the map key was the string
        Node + "." + ServiceID, which does not determine the instance (node "a", id "b.c" and
        node "a.b", id "c").  Kept for the refutation theorems only. ---- *)
Definition inst_key_unrepaired (node sid : str) : str := node ++ 46 :: sid.
Definition smap_unrepaired := list (str * list str).
Fixpoint smap_add_unrepaired (m : smap_unrepaired) (name k : str) : smap_unrepaired :=
  match m with
  | [] => [(name, [k])]
  | (n, ks) :: r => if beq n name then (n, if existsb (beq k) ks then ks else ks ++ [k]) :: r
                    else (n, ks) :: smap_add_unrepaired r name k
  end.
Definition group_unrepaired (passing : list hcheck) : smap_unrepaired :=
  fold_left (fun m c => smap_add_unrepaired m (c_sname c) (inst_key_unrepaired (c_node c) (c_sid c))) passing [].
Fixpoint service_entries_unrepaired (prefix : str) (keys : list str) (svcs : list centry) : outcome (list str) :=
  match svcs with
  | [] => Ok []
  | e :: r =>
      (do rest <- service_entries_unrepaired prefix keys r;
       if existsb (beq (inst_key_unrepaired (e_node e) (e_sid e))) keys
       then (do cs <- entry_cmds prefix e; Ok (cs ++ rest))
       else Ok rest)%outcome
  end.
Fixpoint all_configs_unrepaired (prefix : str) (catalog : list centry) (m : smap_unrepaired) : outcome (list str) :=
  match m with
  | [] => Ok []
  | (name, keys) :: r =>
      (do c <- (if beq name [] || match keys with [] => true | _ => false end then Ok []
                else service_entries_unrepaired prefix keys (catalog_service catalog name));
       do rest <- all_configs_unrepaired prefix catalog r;
       Ok (c ++ rest))%outcome
  end.
Definition svc_config_key_unrepaired (prefix : str) (status : list str) (strict : bool)
           (checks : list hcheck) (catalog : list centry) : outcome str :=
  (do ls <- all_configs_unrepaired prefix catalog (group_unrepaired (watch_passing prefix status strict checks));
   Ok (join (sort_desc ls) [10]))%outcome.

(* ---- registry/consul/kv.go: listKV with separator = true, the text watchKV pushes for
        the manual overrides: for every key under the KV path, in the order Consul lists
        them, "# --- <key>\n" followed by the trimmed value; joined by an empty line ---- *)
Definition s_kv_sep : str := bs "# --- ".
Definition kv_text (pairs : list (str * str)) : str :=
  join (map (fun p => s_kv_sep ++ fst p ++ 10 :: trim_space (snd p)) pairs) [10; 10].

(* watchKV as a whole: one listKV per round; a failed round sleeps and tries again without
   pushing; a round that returns (a new index) pushes the text of the KV pairs it saw.  The
   manual texts are delivered in observation order, one per successful round. *)
Inductive kv_observation :=
| KvErr
| KvState (pairs : list (str * str)).
Definition kv_deliveries (obs : list kv_observation) : list str :=
  flat_map (fun o => match o with KvState p => [kv_text p] | KvErr => [] end) obs.
