(** Specification side for C20, written without reference to the algorithms of
    Model/Logger.v: the proleptic Gregorian calendar from the leap-year rule,
    positional decimal fields, and the time layouts Go documents for the
    logger's time fields.  Definitions only; the theorems relating them to the
    model are in Proofs/LoggerCal.v and Proofs/LoggerFields.v. *)
From Coq Require Import String List NArith ZArith Bool.
From Fabio Require Import Lib.Outcome Lib.Bytes Model.Logger.
Import ListNotations.
Local Open Scope Z_scope.

(* ---------- the calendar ---------- *)
(* every 4th year, except every 100th, except every 400th *)
Definition is_leap (y : Z) : bool :=
  (y mod 4 =? 0) && (negb (y mod 100 =? 0) || (y mod 400 =? 0)).

Definition days_in_month (y m : Z) : Z :=
  match m with
  | 1 => 31 | 2 => if is_leap y then 29 else 28 | 3 => 31 | 4 => 30 | 5 => 31 | 6 => 30
  | 7 => 31 | 8 => 31 | 9 => 30 | 10 => 31 | 11 => 30 | 12 => 31
  | _ => 0
  end.

Definition valid_date (y m d : Z) : bool :=
  (1 <=? m) && (m <=? 12) && (1 <=? d) && (d <=? days_in_month y m).

(* days in the months before month m of year y *)
Definition days_before_month (y m : Z) : Z :=
  fold_right Z.add 0 (map (days_in_month y) (map Z.of_nat (seq 1 (Z.to_nat (m - 1))))).

(* leap years among the years 1 .. y-1 (for y <= 0 the same formula counts backwards) *)
Definition leaps_before (y : Z) : Z := (y - 1) / 4 - (y - 1) / 100 + (y - 1) / 400.

(* days from 0001-01-01 to y-01-01 *)
Definition days_before_year (y : Z) : Z := 365 * (y - 1) + leaps_before y.

(* day number of y-m-d, 1970-01-01 = 0 *)
Definition days_from_civil (y m d : Z) : Z :=
  days_before_year y + days_before_month y m + (d - 1) - days_before_year 1970.

(* the date after y-m-d *)
Definition next_day (y m d : Z) : Z * Z * Z :=
  if d <? days_in_month y m then (y, m, d + 1)
  else if m <? 12 then (y, m + 1, 1) else (y + 1, 1, 1).

(* ---------- positional decimal: digit k of n is (n / 10^k) mod 10 ---------- *)
Local Open Scope N_scope.
Definition pad_dec (w : nat) (n : Z) : str :=
  map (fun k => 48 + Z.to_N ((n / 10 ^ Z.of_nat k) mod 10)%Z) (rev (seq 0 w)).

Definition month_abbr (m : Z) : str :=
  match m with
  | 1 => bs "Jan" | 2 => bs "Feb" | 3 => bs "Mar" | 4 => bs "Apr" | 5 => bs "May" | 6 => bs "Jun"
  | 7 => bs "Jul" | 8 => bs "Aug" | 9 => bs "Sep" | 10 => bs "Oct" | 11 => bs "Nov" | 12 => bs "Dec"
  | _ => bs "---"
  end%Z.

(* ---------- the layouts (time.Format in UTC) ----------
   "2006-01-02T15:04:05Z07:00", with ".000" / ".000000" / ".000000000", and
   "02/Jan/2006:15:04:05 -0700" *)
Record tm := { t_year : Z; t_month : Z; t_day : Z; t_hour : Z; t_min : Z; t_sec : Z; t_nsec : Z }.

Definition layout_rfc3339_head (t : tm) : str :=
  pad_dec 4 (t_year t) ++ bs "-" ++ pad_dec 2 (t_month t) ++ bs "-" ++ pad_dec 2 (t_day t) ++ bs "T"
  ++ pad_dec 2 (t_hour t) ++ bs ":" ++ pad_dec 2 (t_min t) ++ bs ":" ++ pad_dec 2 (t_sec t).
Definition layout_rfc3339 (t : tm) : str := layout_rfc3339_head t ++ bs "Z".
Definition layout_rfc3339_ms (t : tm) : str :=
  layout_rfc3339_head t ++ bs "." ++ pad_dec 3 (t_nsec t / 1000000) ++ bs "Z".
Definition layout_rfc3339_us (t : tm) : str :=
  layout_rfc3339_head t ++ bs "." ++ pad_dec 6 (t_nsec t / 1000) ++ bs "Z".
Definition layout_rfc3339_ns (t : tm) : str :=
  layout_rfc3339_head t ++ bs "." ++ pad_dec 9 (t_nsec t) ++ bs "Z".
Definition layout_common (t : tm) : str :=
  pad_dec 2 (t_day t) ++ bs "/" ++ month_abbr (t_month t) ++ bs "/" ++ pad_dec 4 (t_year t) ++ bs ":"
  ++ pad_dec 2 (t_hour t) ++ bs ":" ++ pad_dec 2 (t_min t) ++ bs ":" ++ pad_dec 2 (t_sec t) ++ bs " +0000".

(* the UTC broken-down time of an instant, from the calendar SPEC: the date whose day
   number is floor(unix / 86400), and the time of day *)
Definition is_utc_time (unix nsec : Z) (t : tm) : Prop :=
  (valid_date (t_year t) (t_month t) (t_day t) = true /\
   days_from_civil (t_year t) (t_month t) (t_day t) = unix / 86400 /\
   0 <= t_hour t < 24 /\ 0 <= t_min t < 60 /\ 0 <= t_sec t < 60 /\
   t_hour t * 3600 + t_min t * 60 + t_sec t = unix mod 86400 /\
   t_nsec t = nsec)%Z.

(* ---------- the source text of a parsed pattern item ---------- *)
Definition field_name (f : fld) : str :=
  match find (fun kv => fld_beq (snd kv) f) field_names with Some (k, _) => k | None => [] end.
Definition item_src (it : item) : str :=
  match it with
  | IText s => s
  | IHeader n => bs "$header." ++ n
  | IField f => field_name f
  end.
