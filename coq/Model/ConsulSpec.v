(** Declarative side of property C01, written from the property text and independent of
    the loops of passing.go / service.go / main.go: what it means for a service instance
    (node, service id) to be healthy under the configured rule, to advertise a route
    prefix, which catalog entries ought to be routed, and which table ought to be active
    after a history of config deliveries.  Definitions only (Prop and their boolean
    twins used by the correspondence check); the proofs are in Proofs/Consul.v and
    Proofs/Watch.v. *)
From Coq Require Import String List NArith Bool.
From Fabio Require Import Lib.Outcome Lib.Bytes Model.Consul Model.Watch.
Import ListNotations.
Local Open Scope N_scope.

(* ---- health ---- *)
(* a check belongs to the instance (node, service id) *)
Definition own (n sid : str) (c : hcheck) : Prop := c_node c = n /\ c_sid c = sid.
(* its status is one of the accepted ones (registry.consul.service.status) *)
Definition accepted (status : list str) (c : hcheck) : Prop := In (c_status c) status.

Record healthy (checks : list hcheck) (status : list str) (strict : bool) (n sid : str) : Prop := {
  (* an accepted check status ... *)
  h_some : exists c, In c checks /\ own n sid c /\ accepted status c;
  (* ... or all checks in strict mode (registry.consul.checksRequired = all) *)
  h_all : strict = true -> forall c, In c checks -> own n sid c -> accepted status c;
  (* on a node whose agent is alive *)
  h_agent : forall c, In c checks -> c_node c = n -> c_id c = s_serfHealth -> c_status c <> s_critical;
  (* with neither the node ... *)
  h_node_maint : forall c, In c checks -> c_node c = n -> c_id c <> s_node_maintenance;
  (* ... nor the service in maintenance *)
  h_svc_maint : forall c, In c checks -> c_node c = n ->
                          c_id c = s_service_maintenance_colon ++ sid -> c_status c <> s_critical
}.

(* the instance is known to the health endpoint as a service (it has a service check) *)
Definition registered (checks : list hcheck) (n sid : str) : Prop :=
  exists c, In c checks /\ own n sid c /\ is_service_check c = true.

(* boolean twins *)
Definition own_b (n sid : str) (c : hcheck) : bool := beq (c_node c) n && beq (c_sid c) sid.
Definition healthy_b (checks : list hcheck) (status : list str) (strict : bool) (n sid : str) : bool :=
  existsb (fun c => own_b n sid c && has_status c status) checks
  && (negb strict || forallb (fun c => negb (own_b n sid c) || has_status c status) checks)
  && forallb (fun c => negb (beq (c_node c) n && beq (c_id c) s_serfHealth && beq (c_status c) s_critical)) checks
  && forallb (fun c => negb (beq (c_node c) n && beq (c_id c) s_node_maintenance)) checks
  && forallb (fun c => negb (beq (c_node c) n && beq (c_id c) (s_service_maintenance_colon ++ sid)
                             && beq (c_status c) s_critical)) checks.

(* ---- advertising a prefix ---- *)
(* some tag, trimmed, starts with the tag prefix (the rest of the tag denotes the route) *)
Definition advertises (prefix : str) (tags : list str) (t : str) : Prop :=
  exists raw, In raw tags /\ t = trim_space raw /\ has_prefix t prefix = true.

(* a check reports a tag that, trimmed, starts with the prefix (in Consul every check of a
   service carries the tags of the service) *)
Definition tagged (prefix : str) (c : hcheck) : bool :=
  existsb (fun t => has_prefix (trim_space t) prefix) (c_tags c).

(* ---- which catalog entries ought to be routed ---- *)
Definition routed_b (prefix : str) (status : list str) (strict : bool)
           (checks : list hcheck) (e : centry) : bool :=
  negb (beq (e_sname e) [])
  && existsb (fun c => is_service_check c && own_b (e_node e) (e_sid e) c && beq (c_sname c) (e_sname e)) checks
  && healthy_b checks status strict (e_node e) (e_sid e).
Definition expected_lines (prefix : str) (status : list str) (strict : bool)
           (checks : list hcheck) (catalog : list centry) : list str :=
  flat_map (fun e => if routed_b prefix status strict checks e then e_cmds e else []) catalog.

(* ---- the watch loop: which table ought to be active ---- *)
Fixpoint last_svc (h : list event) (d : str) : str :=
  match h with
  | [] => d
  | Svc t :: r => last_svc r t
  | Man _ :: r => last_svc r d
  end.
Fixpoint last_man (h : list event) (d : str) : str :=
  match h with
  | [] => d
  | Man t :: r => last_man r t
  | Svc _ :: r => last_man r d
  end.

Section WatchSpec.
  Variable table : Type.
  Variable build : str -> option table.
  (* the table of the most recent prefix of the history whose combined text (last service
     text, newline, last manual text) is accepted; [t0] if there is none.  [hr] is the
     history in reverse order (latest event first). *)
  Fixpoint expected_active_rev (t0 : table) (hr : list event) : table :=
    match hr with
    | [] => t0
    | _ :: older =>
        match build (next_text (last_svc (rev hr) []) (last_man (rev hr) [])) with
        | Some t => t
        | None => expected_active_rev t0 older
        end
    end.
  Definition expected_active (t0 : table) (h : list event) : table := expected_active_rev t0 (rev h).
  (* some table has been installed *)
  Fixpoint expected_first_rev (hr : list event) : bool :=
    match hr with
    | [] => false
    | _ :: older =>
        match build (next_text (last_svc (rev hr) []) (last_man (rev hr) [])) with
        | Some _ => true
        | None => expected_first_rev older
        end
    end.
End WatchSpec.
