(** Model of the FIRST step of the exit handler main() registers with exit.Listen
    (main.go:123-133): registry.Default.DeregisterAll() with the consul backend
    (registry/consul/backend.go:98-109: [dereg <- true; <-dereg] on an unbuffered channel, no
    timeout), i.e. of the registration goroutine that has to receive that request
    (registry/consul/register.go:71-94), and of the whole handler:

        deregister (returns when the goroutine has acknowledged) ; grace period ; proxy.Shutdown(wait)

    composed with the models of exit.Listen (Model/ExitSignals.v) and proxy.Shutdown
    (Model/Shutdown.v).

    The goroutine: every loop turn asks the agent whether the service is still known
    (Agent().Services), registers it (again) if not (ServiceRegister; on failure the id is ""),
    passes the TTL check (UpdateTTL), and then sits in a select on the deregister channel and a
    10 s timer (timer: UpdateTTL, next turn; request: ServiceDeregister, acknowledge, return).
    The request can only be received in the select; while the goroutine is inside a call to the
    agent the sender waits.

    The agent is arbitrary: for every kind of call and every time, whether the call succeeds and
    how long the agent holds it before it answers ([Inf] = it never answers).  Time is abstract and
    absolute; 0 = the goroutine is started.  No proofs here. *)
From Coq Require Import List NArith Bool.
From Fabio Require Import Model.Shutdown Model.ExitSignals.
Import ListNotations.
Local Open Scope N_scope.

Inductive acall := AServices | ARegister | APassTTL | ADeregister.
Record agent := { a_ok : acall -> N -> bool; a_hold : acall -> N -> dur }.

Definition ttl_refresh : N := 10000.   (* TTLRefreshInterval, ms *)
Definition retry_sleep : N := 1000.    (* the sleep of the retrying variant, ms *)

Inductive turn_res :=
| TAck (t : dur)              (* the request was received and is acknowledged at t (Inf: the agent never answers the deregister call) *)
| TNext (t : N) (id : bool)   (* next loop turn at t; id = the goroutine holds a service id *)
| TStuck.                     (* inside a call that the agent never answers *)

(* a call of kind [c] made at [t]; [k] gets the time of the answer *)
Definition after (a : agent) (c : acall) (t : N) (k : N -> turn_res) : turn_res :=
  match a_hold a c t with Fin h => k (t + h) | Inf => TStuck end.

(* the select, entered at [t]; [r] = the time DeregisterAll sends the request *)
Definition in_select (a : agent) (r t : N) (id : bool) : turn_res :=
  if r <? t + ttl_refresh
  then let s := N.max r t in TAck (dplus s (a_hold a ADeregister s))
  else after a APassTTL (t + ttl_refresh) (fun t' => TNext t' id).

(* [retry] = false is the code.  true is NOT the code: after a failed registration sleep and
   [continue], i.e. start the next turn without passing through the select. *)
Definition do_register (retry : bool) (a : agent) (r t : N) : turn_res :=
  after a ARegister t (fun t1 =>
    if a_ok a ARegister t
    then after a APassTTL t1 (fun t2 => in_select a r t2 true)
    else if retry then TNext (t1 + retry_sleep) false
    else after a APassTTL t1 (fun t2 => in_select a r t2 false)).

Definition turn (retry : bool) (a : agent) (r t : N) (id : bool) : turn_res :=
  if id
  then after a AServices t (fun t1 =>
         if a_ok a AServices t then in_select a r t1 true else do_register retry a r t1)
  else do_register retry a r t.

(* when the request sent at [r] is acknowledged; None = out of fuel (excluded for the code by
   Proofs.ExitDeregister.dereg_answered whenever the agent answers its calls) *)
Fixpoint reg_loop (retry : bool) (a : agent) (r : N) (fuel : nat) (t : N) (id : bool) : option dur :=
  match fuel with
  | O => None
  | S f =>
      match turn retry a r t id with
      | TAck d => Some d
      | TStuck => Some Inf
      | TNext t' id' => reg_loop retry a r f t' id'
      end
  end.

Definition loop_fuel (r : N) : nat := S (S (N.to_nat (r / ttl_refresh))).

(* DeregisterAll called at [r], self-registration on or off (off, or another backend: nothing to wait for) *)
Definition deregister_all (retry : bool) (registering : bool) (a : agent) (r : N) : option dur :=
  if registering then reg_loop retry a r (loop_fuel r) 0 false else Some (Fin r).

(* ---- the handler: the phase of the process, given when DeregisterAll returns ---- *)
(* the handler blocked in DeregisterAll for good: nothing is closed, the process serves on *)
Definition handler_phase (dereg_done : dur) (grace : N) : phase :=
  match dereg_done with Fin d => PDraining (d + grace) | Inf => PListening end.

(* the process under the signals [sigs]; [boot] = the time of the origin of [sigs] on the clock
   of the registration goroutine *)
Definition proc_phase (retry registering : bool) (a : agent) (boot grace : N) (sigs : list event) : option phase :=
  match first_term sigs with
  | None => Some PListening
  | Some t0 =>
      match deregister_all retry registering a (boot + t0) with
      | None => None
      | Some (Fin d) => Some (handler_phase (Fin (d - boot)) grace)
      | Some Inf => Some (handler_phase Inf grace)
      end
  end.

(* ---- the agents of the harness: refuses registrations from the start (other calls succeed);
   every call fails from [down] on (model clock); holds the deregister call for [hold] ---- *)
Definition script_agent (reg_refused : bool) (down : option N) (hold : N) : agent :=
  {| a_ok := fun c t =>
       negb (match down with Some d => d <=? t | None => false end)
       && negb (match c with ARegister => reg_refused | _ => false end);
     a_hold := fun c _ => match c with ADeregister => Fin hold | _ => Fin 0 end |}.
