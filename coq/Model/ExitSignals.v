(** Model of exit.Listen (exit/listen.go:22-52) and of the exit handler main() registers with it
    (main.go:123-133: deregister, grace period, proxy.Shutdown(cfg.Proxy.ShutdownWait)), i.e. of
    what the PROCESS does with the signals it receives, composed with the model of proxy.Shutdown
    (Model/Shutdown.v) for what the drain does.

    exit.Listen starts one goroutine: every loop turn makes a fresh channel, registers it with
    signal.Notify for SIGINT, SIGTERM and SIGHUP and blocks in a select on it.  SIGHUP: log,
    [continue] (next turn, the old channels stay registered: the process never goes back to the
    default disposition).  SIGINT / SIGTERM: log, call the handler [fn] (which drains) and return;
    main() sits in exit.Wait() and returns when [fn] has returned: the process ends with status 0.
    While [fn] runs nobody reads the channel, but it is still registered: whatever arrives is
    dropped (or parked in the buffer of size 1) and changes nothing.

    Time is abstract and absolute (0 = the origin of the observation); a signal is an event with
    its arrival time; the events are processed in list order.  No proofs here. *)
From Coq Require Import List NArith Bool.
From Fabio Require Import Model.Shutdown.
Import ListNotations.
Local Open Scope N_scope.

Inductive sig := SHup | SInt | STerm.
Definition is_term (s : sig) : bool := match s with SHup => false | SInt | STerm => true end.
Definition event := (N * sig)%type.   (* arrival time, signal *)

(* what the goroutine of exit.Listen is doing *)
Inductive phase :=
| PListening              (* blocked in the select; HUP/INT/TERM are caught *)
| PDraining (t0 : N)      (* fn(sig) was called at t0 (it runs, or has returned and the process is gone) *)
| PKilled (t0 t : N).     (* fn was called at t0 and the process was ended at t by the DEFAULT action of a
                             signal: not reachable in the code as it is, see [notify_kept] *)

Definition dplus (t : N) (d : dur) : dur := match d with Fin n => Fin (t + n) | Inf => Inf end.

(* when proxy.Shutdown(wait), called at 0 with the servers [srvs] in the registry, returns *)
Definition drain_ret (wait : N) (srvs : list server) : dur := g_ret (shutdown wait srvs).

(* [work t0]: the registered servers with the remaining durations of what they have open at t0.
   [notify_kept] = true is the code: a channel stays registered while fn runs.  false is NOT the
   code (a signal.Stop before fn is called): from then on the three signals have their default
   action again and one that arrives before the drain is over ends the process on the spot. *)
Definition deliver (notify_kept : bool) (wait : N) (work : N -> list server) (p : phase) (e : event) : phase :=
  match p with
  | PListening => if is_term (snd e) then PDraining (fst e) else PListening
  | PDraining t0 =>
      if notify_kept then PDraining t0
      else if (t0 <=? fst e) && dltb (Fin (fst e)) (dplus t0 (drain_ret wait (work t0)))
           then PKilled t0 (fst e) else PDraining t0
  | PKilled t0 t => PKilled t0 t
  end.

Definition listen_phase (notify_kept : bool) (wait : N) (work : N -> list server) (sigs : list event) : phase :=
  fold_left (deliver notify_kept wait work) sigs PListening.

Definition drain_start (p : phase) : option N :=
  match p with PListening => None | PDraining t0 => Some t0 | PKilled t0 _ => Some t0 end.

(* how the process ends *)
Inductive pend :=
| ERunning             (* it does not: still serving *)
| EClean (t : dur)     (* main() returns at t (Inf: the drain never ends) *)
| EKilled (t : N).     (* ended by a signal at t *)

Definition phase_end (wait : N) (work : N -> list server) (p : phase) : pend :=
  match p with
  | PListening => ERunning
  | PDraining t0 => EClean (dplus t0 (drain_ret wait (work t0)))
  | PKilled _ t => EKilled t
  end.

Definition proc_end (notify_kept : bool) (wait : N) (work : N -> list server) (sigs : list event) : pend :=
  phase_end wait work (listen_phase notify_kept wait work sigs).

Definition end_time (e : pend) : dur :=
  match e with ERunning => Inf | EClean t => t | EKilled t => Fin t end.

(* ---- what the clients see.  Fates with ABSOLUTE times. ---- *)
Definition shift (t0 : N) (f : fate) : fate :=
  match f with Done n => Done (t0 + n) | Cut c => Cut (dplus t0 c) | Never => Never end.

(* when the process ends at [e], whatever is still open then is cut there *)
Definition truncate_at (e : dur) (f : fate) : fate :=
  match f with
  | Done n => if dleb (Fin n) e then Done n else Cut e
  | Cut c => Cut (dmin c e)
  | Never => match e with Inf => Never | _ => Cut e end
  end.

(* an item of leaf [l] that has the remaining duration [d] when the drain starts at t0 *)
Definition proc_item (wait : N) (l : leaf) (t0 : N) (e : pend) (d : dur) : fate :=
  truncate_at (end_time e)
    (shift t0 (item_fate (exec wait (litems l) (lstuck l) (prog_of grpc_prog (lkind l))) d)).

(* does the process accept a connection attempted at [p]?  Before the drain: yes; from then on
   what the shut-down servers do *)
Definition proc_accepts (wait : N) (work : N -> list server) (ph : phase) (p : N) : bool :=
  match drain_start ph with
  | None => true
  | Some t0 =>
      (p <? t0) || existsb (fun r => server_accepts r (p - t0)) (g_servers (shutdown wait (work t0)))
  end.

(* ---- fabio as main() starts it with one proxy listener and the ui listener (both *http.Server,
   both in the registry), serving requests that each use a connection of their own: the client
   connects at [q_start], the upstream answers at [q_end] ---- *)
Record req := { q_start : N; q_end : dur }.

Definition open_at (t : N) (q : req) : bool := (q_start q <? t) && dltb (Fin t) (q_end q).
Definition remaining (t : N) (q : req) : dur :=
  match q_end q with Fin n => Fin (n - t) | Inf => Inf end.

Definition proxy_leaf (reqs : list req) (t0 : N) : leaf :=
  mkleaf KHttp (map (remaining t0) (filter (open_at t0) reqs)).
Definition main_work (reqs : list req) (t0 : N) : list server :=
  [Single (proxy_leaf reqs t0); Single (mkleaf KHttp [])].

Inductive qout :=
| QRefused             (* the connect was refused: nobody listens *)
| QFate (f : fate).

Definition req_outcome_in (wait : N) (reqs : list req) (ph : phase) (q : req) : qout :=
  match drain_start ph with
  | None => QFate (untouched (q_end q))
  | Some t0 =>
      if t0 <=? q_start q then QRefused
      else if open_at t0 q
           then QFate (proc_item wait (proxy_leaf reqs t0) t0 (phase_end wait (main_work reqs) ph) (remaining t0 q))
           else QFate (untouched (q_end q))     (* answered before the drain began *)
  end.

Definition req_outcome (notify_kept : bool) (wait : N) (reqs : list req) (sigs : list event) (q : req) : qout :=
  req_outcome_in wait reqs (listen_phase notify_kept wait (main_work reqs) sigs) q.

(* ---- the declarative side: when the property says shutdown begins ---- *)
Definition first_term (sigs : list event) : option N :=
  match find (fun e => is_term (snd e)) sigs with Some e => Some (fst e) | None => None end.
